import BarterModel.Generated.Machines2
/-
GENERATED FILE -- DO NOT EDIT.  Third output file of tools/rust2lean_sm.py (same namespace as, and importing,
Generated/Machines2.lean): state machines that keep their state in MAP containers (`HashMap` / `FnvHashMap` /
`IndexMap`), read through the explicit map vocabulary of the prelude below.  Rewritten from the Rust source on
every run of `./check` for the properties whose props/Cxx.py names a group of this file in PREBUILD; the
committed copy is the output for the pinned tree.  The agreement with the hand-written models is proved in
Lemmas/KernelsAgree/{OrdersSM,MockSM,ConnectivityUpdSM}.lean.

Source items (file :: item, line, hash of the item's source text):
  barter-execution/src/order/id.rs :: opaque ClientOrderId  (line 9)  sha256[:16]=4d1f882f327c4213
  barter-execution/src/error.rs :: enum ConnectivityError  (line 50)  sha256[:16]=dc900708f35ac095
  barter-execution/src/error.rs :: enum ApiError  (line 74)  sha256[:16]=d6e257c67c013dee
  barter-execution/src/error.rs :: enum OrderError  (line 104)  sha256[:16]=c4e0a5900a3eaa4a
  barter-execution/src/order/mod.rs :: enum OrderKind  (line 158)  sha256[:16]=fd84cce4ab0aface
  barter-execution/src/order/mod.rs :: enum TimeInForce  (line 166)  sha256[:16]=1c6dcf745d87f9b2
  barter-execution/src/order/mod.rs :: struct OrderKey  (line 65)  sha256[:16]=6eb1d54505e7e2a3
  barter-execution/src/order/mod.rs :: struct OrderEvent  (line 57)  sha256[:16]=1cd2841a5005e504
  barter-execution/src/order/mod.rs :: struct Order  (line 75)  sha256[:16]=30f1975e15af69d6
  barter-execution/src/order/state.rs :: struct OpenInFlight  (line 79)  sha256[:16]=e8c81cb8c26bdd7e
  barter-execution/src/order/state.rs :: struct Open  (line 84)  sha256[:16]=c09047653a28ed00
  barter-execution/src/order/state.rs :: impl Open :: fn quantity_remaining  (line 91)  sha256[:16]=3de9cbc44ad84888
  barter-execution/src/order/state.rs :: struct CancelInFlight  (line 99)  sha256[:16]=fabe8fa3535bac58
  barter-execution/src/order/state.rs :: struct Cancelled  (line 114)  sha256[:16]=53a58ca7a8838e49
  barter-execution/src/order/state.rs :: enum ActiveOrderState  (line 62)  sha256[:16]=0c5307cc98e705fd
  barter-execution/src/order/state.rs :: impl ActiveOrderState :: fn open_meta  (line 69)  sha256[:16]=a225c63b4fc19dd4
  barter-execution/src/order/state.rs :: enum InactiveOrderState  (line 104)  sha256[:16]=7ff409732d03a790
  barter-execution/src/order/state.rs :: enum OrderState  (line 16)  sha256[:16]=73c6115428b3d856
  barter-execution/src/order/request.rs :: struct RequestOpen  (line 33)  sha256[:16]=f3656cb41bb79550
  barter-execution/src/order/request.rs :: struct RequestCancel  (line 44)  sha256[:16]=667a8239ccd8d958
  barter-execution/src/order/request.rs :: alias OrderRequestOpen  (line 15)  sha256[:16]=7506b9115021f278
  barter-execution/src/order/request.rs :: alias OrderRequestCancel  (line 18)  sha256[:16]=7f1010875d47c52c
  barter-execution/src/order/request.rs :: alias OrderResponseCancel  (line 21)  sha256[:16]=bec19671206f8339
  barter-execution/src/order/mod.rs :: impl Order<ExchangeKey, InstrumentKey, OrderState<AssetKey, InstrumentKey>> :: fn to_active  (line 88)  sha256[:16]=3f189404ba325238
  barter-execution/src/order/mod.rs :: impl From<&OrderRequestOpen<ExchangeKey, InstrumentKey>> for Order<ExchangeKey, InstrumentKey, ActiveOrderState> :: fn from  (line 179)  sha256[:16]=f1613b0103ed69f1
  barter/src/engine/state/order/mod.rs :: struct Orders  (line 39)  sha256[:16]=df485c4ac108c01d
  barter/src/engine/state/order/mod.rs :: impl Default for Orders :: fn default  (line 44)  sha256[:16]=2cd3755acaa0d8ae
  barter/src/engine/state/order/mod.rs :: impl OrderManager for Orders :: fn update_from_order_snapshot  (line 65)  sha256[:16]=4d820ec149a57f84
  barter/src/engine/state/order/mod.rs :: impl OrderManager for Orders :: fn update_from_cancel_response  (line 290)  sha256[:16]=769a0057697b2784
  barter/src/engine/state/order/mod.rs :: impl InFlightRequestRecorder for Orders :: fn record_in_flight_cancel  (line 380)  sha256[:16]=c3500261421269f4
  barter/src/engine/state/order/mod.rs :: impl InFlightRequestRecorder for Orders :: fn record_in_flight_open  (line 398)  sha256[:16]=3441392742a0e32b
  barter-instrument/src/asset/name.rs :: opaque AssetNameExchange  (line 80)  sha256[:16]=ee21bfd58e55c06c
  barter-instrument/src/instrument/name.rs :: opaque InstrumentNameExchange  (line 111)  sha256[:16]=e64b137401c1f451
  barter-instrument/src/lib.rs :: struct Underlying  (line 73)  sha256[:16]=d1ae0cc150a7b9f2
  barter-instrument/src/instrument/mod.rs :: struct Instrument  (line 67)  sha256[:16]=19811546cbe215af
  barter-execution/src/trade.rs :: impl AssetFees<QuoteAsset> :: fn quote_fees  (line 63)  sha256[:16]=8d5aac27fd9fc148
  barter-execution/src/order/request.rs :: alias UnindexedOrderResponseCancel  (line 27)  sha256[:16]=150b268a210ba9b5
  barter-execution/src/error.rs :: alias UnindexedApiError  (line 16)  sha256[:16]=471072b14e6c7023
  barter-execution/src/error.rs :: alias UnindexedOrderError  (line 20)  sha256[:16]=1fa901f93961e50c
  barter-execution/src/exchange/mock/account.rs :: struct AccountState  (line 21)  sha256[:16]=83ce45faf5922559
  barter-execution/src/exchange/mock/account.rs :: impl AccountState :: fn update_time_exchange  (line 30)  sha256[:16]=35c3b8e106b095e4
  barter-execution/src/exchange/mock/account.rs :: impl AccountState :: fn trades  (line 56)  sha256[:16]=e049d427f9c5c1f0
  barter-execution/src/exchange/mock/account.rs :: impl AccountState :: fn ack_trade  (line 72)  sha256[:16]=c96a876589014575
  barter-execution/src/exchange/mock/mod.rs :: struct OpenOrderNotifications  (line 441)  sha256[:16]=62a8a64068a0074a
  barter-execution/src/exchange/mock/mod.rs :: struct MockExchange  (line 40)  sha256[:16]=faf43b2fa73799f7
  barter-execution/src/exchange/mock/mod.rs :: impl MockExchange :: fn update_time_exchange  (line 124)  sha256[:16]=795a03dc6f2f8cd5
  barter-execution/src/exchange/mock/mod.rs :: impl MockExchange :: fn time_exchange  (line 134)  sha256[:16]=67f9bf5bc3d5b106
  barter-execution/src/exchange/mock/mod.rs :: impl MockExchange :: fn validate_order_kind_supported  (line 380)  sha256[:16]=730820d0442638d4
  barter-execution/src/exchange/mock/mod.rs :: impl MockExchange :: fn find_instrument_data  (line 393)  sha256[:16]=bfa3c4932a339f7c
  barter-execution/src/exchange/mock/mod.rs :: impl MockExchange :: fn order_id_sequence_fetch_add  (line 405)  sha256[:16]=6696255a49ffdf80
  barter-execution/src/exchange/mock/mod.rs :: fn build_open_order_err_response  (line 422)  sha256[:16]=ba61cda937f9d6ae
  barter-execution/src/exchange/mock/mod.rs :: impl MockExchange :: fn open_order  (line 253)  sha256[:16]=90da7f38c024f6f0
    + `&mut` accessor (read in place at its calls, PRELUDE3): barter-execution/src/exchange/mock/account.rs :: impl AccountState :: fn balance_mut  (line 65)  sha256[:16]=2f82f3ace5f66608
  barter-instrument/src/exchange.rs :: struct ExchangeIndex  (line 7)  sha256[:16]=eb618f72ac9f388d
  barter-instrument/src/exchange.rs :: impl ExchangeIndex :: fn index  (line 10)  sha256[:16]=b65d3121a6003b66
  barter/src/engine/state/connectivity/mod.rs :: struct ConnectivityStates  (line 12)  sha256[:16]=fb7a42ce6ee1bd0c
  barter/src/engine/state/connectivity/mod.rs :: impl ConnectivityStates :: fn connectivity_index  (line 102)  sha256[:16]=f9c994ef3ed72fb9
  barter/src/engine/state/connectivity/mod.rs :: impl ConnectivityStates :: fn connectivity  (line 124)  sha256[:16]=3c6f37de942d9dd1
  barter/src/engine/state/connectivity/mod.rs :: impl ConnectivityStates :: fn exchange_states  (line 146)  sha256[:16]=bb6eec62373b739e
  barter/src/engine/state/connectivity/mod.rs :: impl ConnectivityStates :: fn update_from_account_reconnecting  (line 28)  sha256[:16]=1e5c084e84c4ae63
    + `&mut` accessor (read in place at its calls, PRELUDE3): barter/src/engine/state/connectivity/mod.rs :: impl ConnectivityStates :: fn connectivity_mut  (line 134)  sha256[:16]=16c07b6d7dcc1f40
  barter/src/engine/state/connectivity/mod.rs :: impl ConnectivityStates :: fn update_from_account_event  (line 39)  sha256[:16]=eee7c5debf9cd07f
    + `&mut` accessor (read in place at its calls, PRELUDE3): barter/src/engine/state/connectivity/mod.rs :: impl ConnectivityStates :: fn connectivity_index_mut  (line 113)  sha256[:16]=4dbc5f3e9ef2c760
  barter/src/engine/state/connectivity/mod.rs :: impl ConnectivityStates :: fn update_from_market_reconnecting  (line 65)  sha256[:16]=4c50cfda65bc82bf
    + `&mut` accessor (read in place at its calls, PRELUDE3): barter/src/engine/state/connectivity/mod.rs :: impl ConnectivityStates :: fn connectivity_mut  (line 134)  sha256[:16]=16c07b6d7dcc1f40
  barter/src/engine/state/connectivity/mod.rs :: impl ConnectivityStates :: fn update_from_market_event  (line 76)  sha256[:16]=87b61518df9ff460
    + `&mut` accessor (read in place at its calls, PRELUDE3): barter/src/engine/state/connectivity/mod.rs :: impl ConnectivityStates :: fn connectivity_mut  (line 134)  sha256[:16]=16c07b6d7dcc1f40
-/
set_option linter.unusedVariables false   -- e.g. a binder that only a log macro reads
namespace BarterModel.Generated.Machines

/-! ## Prelude, continued: the MAP vocabulary (trusted like the preludes of Machines.lean / Machines2.lean)

The translated functions of this file keep their state in `HashMap` / `FnvHashMap` / `IndexMap` containers.  The
translator accepts a small, closed set of operations on them and gives each the FIXED meaning below; every other
use of a map (iteration with `iter()` / `keys()` / `values()` / `drain()` / `retain()` whose order could be observed,
`extend`, indexing `m[k]`, `for` loops over it, ...) is rejected by name.

* `HashMap<K, V>` / `FnvHashMap<K, V>` is `Rust.Map K V`: a finite map written as an ASSOCIATION LIST read through
  `Rust.Map.get` (first pair with that key).  `m.get(k)` is `Rust.Map.get m k`; `m.contains_key(k)`;
  `m.insert(k, v)` writes `Rust.Map.insert m k v` (every pair with key `k` removed, `(k, v)` put in front) and
  returns the old `Rust.Map.get m k`; `m.remove(k)` writes `Rust.Map.remove m k` (every pair with key `k` removed)
  and returns the old value; `HashMap::default()` / `new()` is the empty list; `m.len()` / `m.is_empty()` count the
  pairs (faithful on lists with unique keys, which `insert` / `remove` / `map_values` preserve:
  Lemmas/KernelsAgree/MapVocab.lean proves this and the finite-map laws `get (insert m k v) k' = if k' = k then some v
  else get m k'`, `get (remove m k) k' = if k' = k then none else get m k'`).  The POSITION of a pair in the list has
  no meaning: hash order is never observable through the accepted operations, which are the ones above plus
  `m.values().all(p)` / `.any(p)` (order-free; `values()` alone has the type `Rust.Bag`, a list whose only accepted
  consumers are `all` / `any`) and `for x in m.values_mut() { x.f = e; .. }` / `m.values_mut().for_each(|x| x.f = e)`
  with a body that only assigns fields of `x` from values that do not depend on the map (`Rust.Map.map_values`).
* `m.get_mut(k)` (`Option<&mut V>`) is accepted ONLY in the forms `let Some(x) = m.get_mut(k) else { ..diverges.. };`,
  `if let Some(x) = m.get_mut(k) { .. }`, `let x = m.get_mut(k).expect(..) / .unwrap() / .unwrap_or_else(|| panic!(..));`
  and as the left side of an assignment `m.get_mut(k).unwrap().f = e;` on a map that is a field path of `&mut self` /
  a mutable local: `x` is a mutable local holding `Rust.Map.get m k`, and every change of `x` is written back at once as
  `Rust.Map.insert m k x` (for code the borrow checker accepts this is the meaning of the borrow: while `x` is alive
  nothing else reads or writes `m`; the panic of `expect` on a missing key is `Rust.unreachable` for the whole function).
* The Entry API: `m.entry(k)` is `Rust.Map.entry m k : Rust.Entry K V`, a two-constructor VIEW of `Rust.Map.get m k`:
  `Entry::Occupied(e)` with `e.key = k` and `e.value` the current value, `Entry::Vacant(e)` with `e.key = k`.
  `e.get()` / `e.get_mut()` read `e.value`; an assignment through `e.get_mut()` changes `e.value` and writes
  `Rust.Map.insert m e.key e.value` at once; `e.insert(v)` on an occupied entry likewise (returns the old value);
  `e.remove()` writes `Rust.Map.remove m e.key` and returns `e.value`; `e.insert(v)` on a vacant entry writes
  `Rust.Map.insert m e.key v` (its `&mut V` result must be discarded); `e.key()` is `e.key`.  The translator records
  in the TYPE of an entry which map place (field path of `self`) it borrows, so the handle may travel through tuples,
  `let` and `match` patterns.
* `IndexMap<K, V>` / `FnvIndexMap<K, V>` is `Rust.IndexMap K V`: a list of pairs addressed by POSITION (insertion
  order, which IS observable) and by key: `m.get(k)` first pair with that key, `m.get_index(i)` the pair at position
  `i`, `m.get_mut(k)` / `m.get_index_mut(i)` as for `HashMap::get_mut` with the write-back `Rust.IndexMap.set m k x` /
  `Rust.IndexMap.set_index m i x` IN PLACE (position and key unchanged), `m.values().all(p)` / `.any(p)`, `m.len()`.
  Insertion / removal on an `IndexMap` is not in the vocabulary (rejected).
* A user function returning `&mut T` / `Option<&mut T>` (`fn acc(&mut self, ..) -> &mut T`) is accepted only if its body
  is ONE accessor expression of the forms above over a field path of `self` (`self.f.get_mut(k)`,
  `self.f.get_mut(k).unwrap_or_else(|| panic!(..))`, `self.f.get_index_mut(i).map(|(_k, v)| v).expect(..)`, ...); a call of
  it is read as that expression with the arguments substituted, under the same rule as `get_mut`.
* Option combinators added: `o.filter(|x| c)`, `o.unwrap_or_else(|| e)` (pure `e`: eager and lazy evaluation agree;
  `|| panic!(..)` is `Rust.unreachable`), `o.cloned()` / `o.copied()` (identity), `o.ok_or(e)` / `o.ok_or_else(|| e)`,
  `o.take()` in the middle of a method chain (taken out in evaluation order).
* `Result` patterns `Ok(p)` / `Err(p)`; `let <refutable pattern> = e else { ..diverges.. };` and
  `if let <refutable pattern> = e { .. } else { .. }` on enums are `match e with | p => .. | _ => ..`; a `match` with
  guards whose patterns take values apart is a Lean `match` on the (let-bound) scrutinee in which a guarded arm
  `p if g => a` reads `| p => if g then a else <the same match over the arms that follow>`; nested or-patterns
  `(A | B, c)` are written out as the alternatives `(A, c) | (B, c)`; arms that earlier arms make unreachable are left
  out (Lean rejects redundant alternatives) and a guarded arm whose later arms do not cover its pattern on their own
  is rejected.
* `String` is `Rust.Str`: translated code only builds strings with `format!("template", a, b)` (error messages), stores and
  moves them, and never inspects them; such a value is the list of the values formatted into it, in order
  (`Decimal` / integers / times / identifier types; the template text, positional or inline `{name}` placeholders
  included, is NOT modelled).  `n.to_smolstr()` of a `u64` and `id.0` of an opaque identifier type are the text of an
  identifier, kept as the number (an injective coding, like the opaque identifier types themselves), from which
  `Id(text)` / `Id::new(text)` builds an identifier.
* `assert!(c)` / `assert_eq!(a, b)` panic unless the condition holds: `if c then <rest> else Rust.unreachable`.
* `x.into()`: the identity (`From<T> for T`), or the ONE one-field variant `V(T)` of the target enum that carries
  `#[from]` (thiserror) / whose enum derives `From` (derive_more); on a value of a type parameter `T` with the bound
  `T: Into<U>` it is the explicit parameter `T_into : T -> U`, which every translated caller supplies by the same rule.
* `a / n` on `u64` with a non-zero integer LITERAL `n` is `Nat` division (no panic, truncating like Rust);
  `t.checked_add_signed(d)` on a `DateTime` is `some (t + d)` (overflow is not modelled).
* `v.iter()` on a `Vec` keeps the order; `.filter(|x| c)` is `List.filter`, `.cloned()` the identity; such an iterator may
  be returned as `impl Iterator<Item = &T>` (it then has the type of `values()`, whose order nobody may observe).
* A struct translated with option `keep` / `drop` lacks the fields that are outside the vocabulary (channels, ...): no
  translated function may read them, and translated code cannot construct the struct.
* A type argument that Rust infers from a LATER use (the error type of an `Ok(..)` bound by `let`) is written `_` in the
  `let` and left to Lean's elaborator.
* A generic `enum E<A, B>` is an inductive type with parameters; a type alias `type N<P..> = T;` (kind `alias`) is
  expanded at every use (also as the name of a struct pattern / literal); an `opaque` identifier type may have type
  parameters, which are ignored (option `generic`); methods with a `self` receiver on an enum are translated like
  those on a struct (`&self` / `self` only).
-/

/-- one value formatted into a `String` by `format!` -/
inductive Rust.FmtArg where
  | dec (x : Rat)
  | nat (n : Nat)
  | int (i : Int)
  | id (n : Nat)
  deriving DecidableEq, Repr

/-- `String`, as far as the translated code is concerned: a message built by `format!`, known by the values
formatted into it, in order (the template text is not modelled). -/
structure Rust.Str where
  args : List Rust.FmtArg
  deriving DecidableEq, Repr, Inhabited

/-- `HashMap<K, V>` / `FnvHashMap<K, V>`: a finite map as an association list (see above). -/
abbrev Rust.Map (K V : Type) := List (K × V)

/-- `HashMap::default()` / `HashMap::new()`. -/
def Rust.Map.empty {K V : Type} : Rust.Map K V := []

/-- `m.get(k)`: the value of the first pair with key `k`. -/
def Rust.Map.get {K V : Type} [DecidableEq K] (m : Rust.Map K V) (k : K) : Option V :=
  match m with
  | [] => none
  | (k', v) :: rest => if k' = k then some v else Rust.Map.get rest k

/-- `m.remove(k)` (the map afterwards): every pair with key `k` removed. -/
def Rust.Map.remove {K V : Type} [DecidableEq K] (m : Rust.Map K V) (k : K) : Rust.Map K V :=
  match m with
  | [] => []
  | (k', v) :: rest => if k' = k then Rust.Map.remove rest k else (k', v) :: Rust.Map.remove rest k

/-- `m.insert(k, v)` (the map afterwards), also the write-back of `get_mut` / an entry: `k` is bound to `v` only. -/
def Rust.Map.insert {K V : Type} [DecidableEq K] (m : Rust.Map K V) (k : K) (v : V) : Rust.Map K V :=
  (k, v) :: Rust.Map.remove m k

/-- `m.contains_key(k)`. -/
def Rust.Map.contains_key {K V : Type} [DecidableEq K] (m : Rust.Map K V) (k : K) : Bool := (Rust.Map.get m k).isSome

/-- `m.len()` (faithful on lists with unique keys). -/
def Rust.Map.len {K V : Type} (m : Rust.Map K V) : Nat := m.length

/-- what `values()` yields: a collection WITHOUT a meaningful order; only `all` / `any` consume it. -/
abbrev Rust.Bag (V : Type) := List V

/-- `m.values()`. -/
def Rust.Map.values {K V : Type} (m : Rust.Map K V) : Rust.Bag V := m.map (·.2)

/-- `for x in m.values_mut() { .. }` with a body that is a function of `x` alone: that function on every value. -/
def Rust.Map.map_values {K V : Type} (f : V → V) (m : Rust.Map K V) : Rust.Map K V := m.map fun kv => (kv.1, f kv.2)

/-- An occupied entry: its key and the CURRENT value. -/
structure Rust.OccupiedEntry (K V : Type) where
  key : K
  value : V
  deriving DecidableEq, Repr

/-- A vacant entry: its key. -/
structure Rust.VacantEntry (K : Type) where
  key : K
  deriving DecidableEq, Repr

/-- `std::collections::hash_map::Entry`: a view of `Rust.Map.get m k`. -/
inductive Rust.Entry (K V : Type) where
  | Occupied (e : Rust.OccupiedEntry K V)
  | Vacant (e : Rust.VacantEntry K)
  deriving DecidableEq, Repr

/-- `m.entry(k)`. -/
def Rust.Map.entry {K V : Type} [DecidableEq K] (m : Rust.Map K V) (k : K) : Rust.Entry K V :=
  match Rust.Map.get m k with
  | some v => Rust.Entry.Occupied { key := k, value := v }
  | none => Rust.Entry.Vacant { key := k }

/-- `IndexMap<K, V>` / `FnvIndexMap<K, V>`: pairs in insertion order, addressed by position and by key. -/
abbrev Rust.IndexMap (K V : Type) := List (K × V)

/-- `m.get(k)` on an `IndexMap`. -/
def Rust.IndexMap.get {K V : Type} [DecidableEq K] (m : Rust.IndexMap K V) (k : K) : Option V := Rust.Map.get m k

/-- `m.get_index(i)`: the pair at position `i`. -/
def Rust.IndexMap.get_index {K V : Type} (m : Rust.IndexMap K V) (i : Nat) : Option (K × V) := m[i]?

/-- write-back of `m.get_mut(k)`: the value of the first pair with key `k` replaced IN PLACE. -/
def Rust.IndexMap.set {K V : Type} [DecidableEq K] (m : Rust.IndexMap K V) (k : K) (v : V) : Rust.IndexMap K V :=
  match m with
  | [] => []
  | (k', v') :: rest => if k' = k then (k', v) :: rest else (k', v') :: Rust.IndexMap.set rest k v

/-- write-back of `m.get_index_mut(i)`: the value at position `i` replaced, its key kept. -/
def Rust.IndexMap.set_index {K V : Type} (m : Rust.IndexMap K V) (i : Nat) (v : V) : Rust.IndexMap K V :=
  match m[i]? with
  | some kv => List.set m i (kv.1, v)
  | none => m

/-- `m.values()` on an `IndexMap`. -/
def Rust.IndexMap.values {K V : Type} (m : Rust.IndexMap K V) : Rust.Bag V := m.map (·.2)

/-- `m.len()` on an `IndexMap`. -/
def Rust.IndexMap.len {K V : Type} (m : Rust.IndexMap K V) : Nat := m.length

/-! ## barter-execution/src/order/id.rs -/

-- an identifier type: its values are only stored, cloned and compared; any injective coding would do
/-- generated from `opaque ClientOrderId` (barter-execution/src/order/id.rs:9) -/
abbrev ClientOrderId := Nat

/-! ## barter-execution/src/error.rs -/

/-- generated from `enum ConnectivityError` (barter-execution/src/error.rs:50) -/
inductive ConnectivityError where
  | ExchangeOffline (f0 : ExchangeId)
  | Timeout
  | Socket (f0 : Rust.Str)
  deriving DecidableEq, Repr

/-- generated from `enum ApiError` (barter-execution/src/error.rs:74) -/
inductive ApiError (AssetKey : Type) (InstrumentKey : Type) where
  | AssetInvalid (f0 : AssetKey) (f1 : Rust.Str)
  | InstrumentInvalid (f0 : InstrumentKey) (f1 : Rust.Str)
  | RateLimit
  | BalanceInsufficient (f0 : AssetKey) (f1 : Rust.Str)
  | OrderRejected (f0 : Rust.Str)
  | OrderAlreadyCancelled
  | OrderAlreadyFullyFilled
  deriving DecidableEq, Repr

/-- generated from `enum OrderError` (barter-execution/src/error.rs:104) -/
inductive OrderError (AssetKey : Type) (InstrumentKey : Type) where
  | Connectivity (f0 : ConnectivityError)
  | Rejected (f0 : ApiError AssetKey InstrumentKey)
  deriving DecidableEq, Repr

/-! ## barter-execution/src/order/mod.rs -/

/-- generated from `enum OrderKind` (barter-execution/src/order/mod.rs:158) -/
inductive OrderKind where
  | Market
  | Limit
  deriving DecidableEq, Repr

/-- generated from `enum TimeInForce` (barter-execution/src/order/mod.rs:166) -/
inductive TimeInForce where
  | GoodUntilCancelled (post_only : Bool)
  | GoodUntilEndOfDay
  | FillOrKill
  | ImmediateOrCancel
  deriving DecidableEq, Repr

/-- generated from `struct OrderKey` (barter-execution/src/order/mod.rs:65) -/
structure OrderKey (ExchangeKey : Type) (InstrumentKey : Type) where
  exchange : ExchangeKey
  instrument : InstrumentKey
  strategy : StrategyId
  cid : ClientOrderId
  deriving DecidableEq, Repr

/-- generated from `struct OrderEvent` (barter-execution/src/order/mod.rs:57) -/
structure OrderEvent (State : Type) (ExchangeKey : Type) (InstrumentKey : Type) where
  key : OrderKey ExchangeKey InstrumentKey
  state : State
  deriving DecidableEq, Repr

/-- generated from `struct Order` (barter-execution/src/order/mod.rs:75) -/
structure Order (ExchangeKey : Type) (InstrumentKey : Type) (State : Type) where
  key : OrderKey ExchangeKey InstrumentKey
  side : Side
  price : Rat
  quantity : Rat
  kind : OrderKind
  time_in_force : TimeInForce
  state : State
  deriving DecidableEq, Repr

/-! ## barter-execution/src/order/state.rs -/

/-- generated from `struct OpenInFlight` (barter-execution/src/order/state.rs:79) -/
inductive OpenInFlight where
  | mk
  deriving DecidableEq, Repr

/-- generated from `struct Open` (barter-execution/src/order/state.rs:84) -/
structure Open where
  id : OrderId
  time_exchange : Int
  filled_quantity : Rat
  deriving DecidableEq, Repr

/-- generated from `impl Open :: fn quantity_remaining` (barter-execution/src/order/state.rs:91) -/
@[gen_orders] def Open.quantity_remaining (self : Open) (initial_quantity : Rat) : Rat :=
  (initial_quantity - self.filled_quantity)

/-- generated from `struct CancelInFlight` (barter-execution/src/order/state.rs:99) -/
structure CancelInFlight where
  order : Option Open
  deriving DecidableEq, Repr

/-- generated from `struct Cancelled` (barter-execution/src/order/state.rs:114) -/
structure Cancelled where
  id : OrderId
  time_exchange : Int
  deriving DecidableEq, Repr

/-- generated from `enum ActiveOrderState` (barter-execution/src/order/state.rs:62) -/
inductive ActiveOrderState where
  | OpenInFlight (f0 : _root_.BarterModel.Generated.Machines.OpenInFlight)
  | Open (f0 : _root_.BarterModel.Generated.Machines.Open)
  | CancelInFlight (f0 : _root_.BarterModel.Generated.Machines.CancelInFlight)
  deriving DecidableEq, Repr

/-- generated from `impl ActiveOrderState :: fn open_meta` (barter-execution/src/order/state.rs:69) -/
@[gen_orders] def ActiveOrderState.open_meta (self : ActiveOrderState) : Option _root_.BarterModel.Generated.Machines.Open :=
  (match self with
  | ActiveOrderState.OpenInFlight _ =>
      none
  | ActiveOrderState.Open «open» =>
      (some «open»)
  | ActiveOrderState.CancelInFlight cancel =>
      cancel.order)

/-- generated from `enum InactiveOrderState` (barter-execution/src/order/state.rs:104) -/
inductive InactiveOrderState (AssetKey : Type) (InstrumentKey : Type) where
  | Cancelled (f0 : _root_.BarterModel.Generated.Machines.Cancelled)
  | FullyFilled
  | OpenFailed (f0 : OrderError AssetKey InstrumentKey)
  | Expired
  deriving DecidableEq, Repr

/-- generated from `enum OrderState` (barter-execution/src/order/state.rs:16) -/
inductive OrderState (AssetKey : Type) (InstrumentKey : Type) where
  | Active (f0 : ActiveOrderState)
  | Inactive (f0 : InactiveOrderState AssetKey InstrumentKey)
  deriving DecidableEq, Repr

/-! ## barter-execution/src/order/request.rs -/

/-- generated from `struct RequestOpen` (barter-execution/src/order/request.rs:33) -/
structure RequestOpen where
  side : Side
  price : Rat
  quantity : Rat
  kind : OrderKind
  time_in_force : TimeInForce
  deriving DecidableEq, Repr

/-- generated from `struct RequestCancel` (barter-execution/src/order/request.rs:44) -/
structure RequestCancel where
  id : Option OrderId
  deriving DecidableEq, Repr

-- `alias OrderRequestOpen` (barter-execution/src/order/request.rs:15) alias: `type OrderRequestOpen<ExchangeKey, InstrumentKey> = OrderEvent < RequestOpen , ExchangeKey , InstrumentKey >` is expanded at every use

-- `alias OrderRequestCancel` (barter-execution/src/order/request.rs:18) alias: `type OrderRequestCancel<ExchangeKey, InstrumentKey> = OrderEvent < RequestCancel , ExchangeKey , InstrumentKey >` is expanded at every use

-- `alias OrderResponseCancel` (barter-execution/src/order/request.rs:21) alias: `type OrderResponseCancel<ExchangeKey, AssetKey, InstrumentKey> = OrderEvent < Result < Cancelled , OrderError < AssetKey , InstrumentKey > > , ExchangeKey , InstrumentKey >` is expanded at every use

/-! ## barter-execution/src/order/mod.rs -/

/-- generated from `impl Order<ExchangeKey, InstrumentKey, OrderState<AssetKey, InstrumentKey>> :: fn to_active` (barter-execution/src/order/mod.rs:88) -/
@[gen_orders] def Order.to_active {ExchangeKey : Type} [DecidableEq ExchangeKey] {AssetKey : Type} [DecidableEq AssetKey] {InstrumentKey : Type} [DecidableEq InstrumentKey] (self : Order ExchangeKey InstrumentKey (OrderState AssetKey InstrumentKey)) : Option (Order ExchangeKey InstrumentKey ActiveOrderState) :=
  (match self.state with
  | OrderState.Active state =>
    (some ({ key := self.key, side := self.side, price := self.price, quantity := self.quantity, kind := self.kind, time_in_force := self.time_in_force, state := state : Order ExchangeKey InstrumentKey ActiveOrderState }))
  | _ =>
    none)

/-- generated from `impl From<&OrderRequestOpen<ExchangeKey, InstrumentKey>> for Order<ExchangeKey, InstrumentKey, ActiveOrderState> :: fn from` (barter-execution/src/order/mod.rs:179) -/
@[gen_orders] def Order.«from» {ExchangeKey : Type} [DecidableEq ExchangeKey] {InstrumentKey : Type} [DecidableEq InstrumentKey] (value : OrderEvent RequestOpen ExchangeKey InstrumentKey) : Order ExchangeKey InstrumentKey ActiveOrderState :=
  (match value with
  | ⟨key, ⟨side, price, quantity, kind, time_in_force⟩⟩ =>
    { key := key, side := side, price := price, quantity := quantity, kind := kind, time_in_force := time_in_force, state := (ActiveOrderState.OpenInFlight OpenInFlight.mk) : Order ExchangeKey InstrumentKey ActiveOrderState })

/-! ## barter/src/engine/state/order/mod.rs -/

/-- generated from `struct Orders` (barter/src/engine/state/order/mod.rs:39) -/
structure Orders (ExchangeKey : Type) (InstrumentKey : Type) where
  f0 : Rust.Map ClientOrderId (Order ExchangeKey InstrumentKey ActiveOrderState)
  deriving DecidableEq, Repr

/-- generated from `impl Default for Orders :: fn default` (barter/src/engine/state/order/mod.rs:44) -/
@[gen_orders] def Orders.default {ExchangeKey : Type} [DecidableEq ExchangeKey] {InstrumentKey : Type} [DecidableEq InstrumentKey] : Orders ExchangeKey InstrumentKey :=
  (Orders.mk Rust.Map.empty : Orders ExchangeKey InstrumentKey)

/-- generated from `impl OrderManager for Orders :: fn update_from_order_snapshot` (barter/src/engine/state/order/mod.rs:65) -/
@[gen_orders] def Orders.update_from_order_snapshot {ExchangeKey : Type} [DecidableEq ExchangeKey] {InstrumentKey : Type} [DecidableEq InstrumentKey] {AssetKey : Type} [DecidableEq AssetKey] (self : Orders ExchangeKey InstrumentKey) (snapshot : Snapshot (Order ExchangeKey InstrumentKey (OrderState AssetKey InstrumentKey))) : Orders ExchangeKey InstrumentKey :=
  (match snapshot with
  | ⟨snapshot_1⟩ =>
    (match ((Rust.Map.entry self.f0 snapshot_1.key.cid), (Order.to_active snapshot_1)) with
    | (Rust.Entry.Vacant _, none) =>
      self
    | (Rust.Entry.Vacant entry, some update) =>
      let scrut_1 : ActiveOrderState := update.state
      (match scrut_1 with
      | ActiveOrderState.Open «open» =>
        (if ((Open.quantity_remaining «open» update.quantity) = 0) then
            self
        else
            (match scrut_1 with
            | _active_order =>
                let self : Orders ExchangeKey InstrumentKey := { self with f0 := (Rust.Map.insert self.f0 entry.key update) }
                self))
      | _active_order =>
          let self : Orders ExchangeKey InstrumentKey := { self with f0 := (Rust.Map.insert self.f0 entry.key update) }
          self)
    | (Rust.Entry.Occupied entry, none) =>
      let self : Orders ExchangeKey InstrumentKey := { self with f0 := (Rust.Map.remove self.f0 entry.key) }
      self
    | (Rust.Entry.Occupied entry, some update) =>
      (match (entry, update) with
      | (current_entry, update) =>
        (match (current_entry.value.state, update.state) with
        | (ActiveOrderState.OpenInFlight _, ActiveOrderState.OpenInFlight _) =>
          self
        | (ActiveOrderState.OpenInFlight _, ActiveOrderState.Open «open») =>
          (if ((Open.quantity_remaining «open» update.quantity) = 0) then
            let self : Orders ExchangeKey InstrumentKey := { self with f0 := (Rust.Map.remove self.f0 current_entry.key) }
            self
          else
            let current_entry : Rust.OccupiedEntry ClientOrderId (Order ExchangeKey InstrumentKey ActiveOrderState) := { current_entry with value := { current_entry.value with state := (ActiveOrderState.Open «open») } }
            let self : Orders ExchangeKey InstrumentKey := { self with f0 := (Rust.Map.insert self.f0 current_entry.key current_entry.value) }
            self)
        | (ActiveOrderState.OpenInFlight _, ActiveOrderState.CancelInFlight update_1) =>
          let current_entry : Rust.OccupiedEntry ClientOrderId (Order ExchangeKey InstrumentKey ActiveOrderState) := { current_entry with value := { current_entry.value with state := (ActiveOrderState.CancelInFlight update_1) } }
          let self : Orders ExchangeKey InstrumentKey := { self with f0 := (Rust.Map.insert self.f0 current_entry.key current_entry.value) }
          self
        | (ActiveOrderState.Open _, ActiveOrderState.OpenInFlight _) =>
          self
        | (ActiveOrderState.Open current, ActiveOrderState.Open update_2) =>
          (if ((Open.quantity_remaining update_2 snapshot_1.quantity) = 0) then
            let self : Orders ExchangeKey InstrumentKey := { self with f0 := (Rust.Map.remove self.f0 current_entry.key) }
            self
          else
            (if (current.time_exchange ≤ update_2.time_exchange) then
              let current_entry : Rust.OccupiedEntry ClientOrderId (Order ExchangeKey InstrumentKey ActiveOrderState) := { current_entry with value := { current_entry.value with state := (ActiveOrderState.Open update_2) } }
              let self : Orders ExchangeKey InstrumentKey := { self with f0 := (Rust.Map.insert self.f0 current_entry.key current_entry.value) }
              self
            else
              self))
        | (ActiveOrderState.Open current, ActiveOrderState.CancelInFlight update_3) =>
          let taken_2 : Option _root_.BarterModel.Generated.Machines.Open := update_3.order
          let update_3 : _root_.BarterModel.Generated.Machines.CancelInFlight := { update_3 with order := none }
          let taken_1 : Option _root_.BarterModel.Generated.Machines.Open := taken_2
          let latest_open : _root_.BarterModel.Generated.Machines.Open := (match (match taken_1 with | none => none | some update_5 => if (current.time_exchange ≤ update_5.time_exchange) then some update_5 else none) with | some some_1 => some_1 | none => current)
          let current_entry : Rust.OccupiedEntry ClientOrderId (Order ExchangeKey InstrumentKey ActiveOrderState) := { current_entry with value := { current_entry.value with state := (ActiveOrderState.CancelInFlight ({ order := (some latest_open) : _root_.BarterModel.Generated.Machines.CancelInFlight })) } }
          let self : Orders ExchangeKey InstrumentKey := { self with f0 := (Rust.Map.insert self.f0 current_entry.key current_entry.value) }
          self
        | (ActiveOrderState.CancelInFlight _, ActiveOrderState.OpenInFlight _) =>
          self
        | (ActiveOrderState.CancelInFlight current, ActiveOrderState.Open update_4) =>
          (if ((Open.quantity_remaining update_4 snapshot_1.quantity) = 0) then
            let self : Orders ExchangeKey InstrumentKey := { self with f0 := (Rust.Map.remove self.f0 current_entry.key) }
            self
          else
            let update_open_is_latest : Bool := (match current.order with | none => true | some current_1 => (decide (current_1.time_exchange ≤ update_4.time_exchange)))
            (if (update_open_is_latest = true) then
              let current_entry : Rust.OccupiedEntry ClientOrderId (Order ExchangeKey InstrumentKey ActiveOrderState) := { current_entry with value := { current_entry.value with state := (ActiveOrderState.CancelInFlight ({ order := (some update_4) : _root_.BarterModel.Generated.Machines.CancelInFlight })) } }
              let self : Orders ExchangeKey InstrumentKey := { self with f0 := (Rust.Map.insert self.f0 current_entry.key current_entry.value) }
              self
            else
              self))
        | (ActiveOrderState.CancelInFlight _, ActiveOrderState.CancelInFlight _) =>
          self))))

/-- generated from `impl OrderManager for Orders :: fn update_from_cancel_response` (barter/src/engine/state/order/mod.rs:290) -/
@[gen_orders] def Orders.update_from_cancel_response {ExchangeKey : Type} [DecidableEq ExchangeKey] {InstrumentKey : Type} [DecidableEq InstrumentKey] {AssetKey : Type} [DecidableEq AssetKey] (self : Orders ExchangeKey InstrumentKey) (response : OrderEvent (Except (OrderError AssetKey InstrumentKey) _root_.BarterModel.Generated.Machines.Cancelled) ExchangeKey InstrumentKey) : Orders ExchangeKey InstrumentKey :=
  (match (Rust.Map.entry self.f0 response.key.cid) with
  | Rust.Entry.Occupied order =>
    (match (order.value.state, response.state) with
    | (ActiveOrderState.OpenInFlight _, Except.ok _) | (ActiveOrderState.Open _, Except.ok _) =>
      let self : Orders ExchangeKey InstrumentKey := { self with f0 := (Rust.Map.remove self.f0 order.key) }
      self
    | (ActiveOrderState.CancelInFlight _, Except.ok _) =>
      let self : Orders ExchangeKey InstrumentKey := { self with f0 := (Rust.Map.remove self.f0 order.key) }
      self
    | (ActiveOrderState.OpenInFlight _, Except.error error) | (ActiveOrderState.Open _, Except.error error) =>
      self
    | (ActiveOrderState.CancelInFlight in_flight_cancel, Except.error error) =>
      (match in_flight_cancel.order with
      | some «open» =>
        let order : Rust.OccupiedEntry ClientOrderId (Order ExchangeKey InstrumentKey ActiveOrderState) := { order with value := { order.value with state := (ActiveOrderState.Open «open») } }
        let self : Orders ExchangeKey InstrumentKey := { self with f0 := (Rust.Map.insert self.f0 order.key order.value) }
        self
      | none =>
        let self : Orders ExchangeKey InstrumentKey := { self with f0 := (Rust.Map.remove self.f0 order.key) }
        self))
  | _ =>
    self)

/-- generated from `impl InFlightRequestRecorder for Orders :: fn record_in_flight_cancel` (barter/src/engine/state/order/mod.rs:380) -/
@[gen_orders] def Orders.record_in_flight_cancel {ExchangeKey : Type} [DecidableEq ExchangeKey] {InstrumentKey : Type} [DecidableEq InstrumentKey] (self : Orders ExchangeKey InstrumentKey) (request : OrderEvent RequestCancel ExchangeKey InstrumentKey) : Orders ExchangeKey InstrumentKey :=
  (match (Rust.Map.get self.f0 request.key.cid) with
  | none =>
    self
  | some order =>
    let order : Order ExchangeKey InstrumentKey ActiveOrderState := { order with state := (ActiveOrderState.CancelInFlight ({ order := (ActiveOrderState.open_meta order.state) : _root_.BarterModel.Generated.Machines.CancelInFlight })) }
    let self : Orders ExchangeKey InstrumentKey := { self with f0 := (Rust.Map.insert self.f0 request.key.cid order) }
    self)

/-- generated from `impl InFlightRequestRecorder for Orders :: fn record_in_flight_open` (barter/src/engine/state/order/mod.rs:398) -/
@[gen_orders] def Orders.record_in_flight_open {ExchangeKey : Type} [DecidableEq ExchangeKey] {InstrumentKey : Type} [DecidableEq InstrumentKey] (self : Orders ExchangeKey InstrumentKey) (request : OrderEvent RequestOpen ExchangeKey InstrumentKey) : Orders ExchangeKey InstrumentKey :=
  let old_1 : Option (Order ExchangeKey InstrumentKey ActiveOrderState) := Rust.Map.get self.f0 request.key.cid
  let self : Orders ExchangeKey InstrumentKey := { self with f0 := (Rust.Map.insert self.f0 request.key.cid (Order.«from» request)) }
  (match old_1 with
  | some duplicate_cid_order =>
    self
  | none =>
    self)

/-! ## barter-instrument/src/asset/name.rs -/

-- an identifier type: its values are only stored, cloned and compared; any injective coding would do
/-- generated from `opaque AssetNameExchange` (barter-instrument/src/asset/name.rs:80) -/
abbrev AssetNameExchange := Nat

/-! ## barter-instrument/src/instrument/name.rs -/

-- an identifier type: its values are only stored, cloned and compared; any injective coding would do
/-- generated from `opaque InstrumentNameExchange` (barter-instrument/src/instrument/name.rs:111) -/
abbrev InstrumentNameExchange := Nat

/-! ## barter-instrument/src/lib.rs -/

/-- generated from `struct Underlying` (barter-instrument/src/lib.rs:73) -/
structure Underlying (AssetKey : Type) where
  base : AssetKey
  quote : AssetKey
  deriving DecidableEq, Repr

/-! ## barter-instrument/src/instrument/mod.rs -/

-- restricted to the fields underlying; not translated (no translated function may read them; translated code cannot construct the struct): exchange : ExchangeKey, name_internal : InstrumentNameInternal, name_exchange : InstrumentNameExchange, quote : InstrumentQuoteAsset, kind : InstrumentKind < AssetKey >, spec : Option < InstrumentSpec < AssetKey > >
/-- generated from `struct Instrument` (barter-instrument/src/instrument/mod.rs:67) -/
structure Instrument (ExchangeKey : Type) (AssetKey : Type) where
  underlying : Underlying AssetKey
  deriving DecidableEq, Repr

/-! ## barter-execution/src/trade.rs -/

/-- generated from `impl AssetFees<QuoteAsset> :: fn quote_fees` (barter-execution/src/trade.rs:63) -/
@[gen_mock] def AssetFees.quote_fees (fees : Rat) : AssetFees QuoteAsset :=
  { asset := QuoteAsset.mk, fees := fees : AssetFees QuoteAsset }

/-! ## barter-execution/src/order/request.rs -/

-- `alias UnindexedOrderResponseCancel` (barter-execution/src/order/request.rs:27) alias: `type UnindexedOrderResponseCancel = OrderResponseCancel < ExchangeId , AssetNameExchange , InstrumentNameExchange >` is expanded at every use

/-! ## barter-execution/src/error.rs -/

-- `alias UnindexedApiError` (barter-execution/src/error.rs:16) alias: `type UnindexedApiError = ApiError < AssetNameExchange , InstrumentNameExchange >` is expanded at every use

-- `alias UnindexedOrderError` (barter-execution/src/error.rs:20) alias: `type UnindexedOrderError = OrderError < AssetNameExchange , InstrumentNameExchange >` is expanded at every use

/-! ## barter-execution/src/exchange/mock/account.rs -/

/-- generated from `struct AccountState` (barter-execution/src/exchange/mock/account.rs:21) -/
structure AccountState where
  balances : Rust.Map AssetNameExchange (AssetBalance AssetNameExchange)
  orders_open : Rust.Map ClientOrderId (Order ExchangeId InstrumentNameExchange _root_.BarterModel.Generated.Machines.Open)
  orders_cancelled : Rust.Map ClientOrderId (Order ExchangeId InstrumentNameExchange _root_.BarterModel.Generated.Machines.Cancelled)
  trades : List (Trade QuoteAsset InstrumentNameExchange)
  deriving DecidableEq, Repr

/-- generated from `impl AccountState :: fn update_time_exchange` (barter-execution/src/exchange/mock/account.rs:30) -/
@[gen_mock] def AccountState.update_time_exchange (self : AccountState) (time_exchange : Int) : AccountState :=
  let self : AccountState := { self with balances := (Rust.Map.map_values (fun balance => let balance : AssetBalance AssetNameExchange := { balance with time_exchange := time_exchange }; balance) self.balances) }
  let self : AccountState := { self with orders_open := (Rust.Map.map_values (fun order => let order : Order ExchangeId InstrumentNameExchange _root_.BarterModel.Generated.Machines.Open := { order with state := { order.state with time_exchange := time_exchange } }; order) self.orders_open) }
  self

/-- generated from `impl AccountState :: fn trades` (barter-execution/src/exchange/mock/account.rs:56) -/
@[gen_mock] def AccountState.trades_fn (self : AccountState) (time_since : Int) : Rust.Bag (Trade QuoteAsset InstrumentNameExchange) :=
  (List.filter (fun trade => (decide (trade.time_exchange ≥ time_since))) self.trades)

/-- generated from `impl AccountState :: fn ack_trade` (barter-execution/src/exchange/mock/account.rs:72) -/
@[gen_mock] def AccountState.ack_trade (self : AccountState) (trade : Trade QuoteAsset InstrumentNameExchange) : AccountState :=
  let self : AccountState := { self with trades := (self.trades ++ [trade]) }
  self

/-! ## barter-execution/src/exchange/mock/mod.rs -/

/-- generated from `struct OpenOrderNotifications` (barter-execution/src/exchange/mock/mod.rs:441) -/
structure OpenOrderNotifications where
  balance : Snapshot (AssetBalance AssetNameExchange)
  trade : Trade QuoteAsset InstrumentNameExchange
  deriving DecidableEq, Repr

-- restricted to the fields exchange, latency_ms, fees_percent, instruments, account, order_sequence, time_exchange_latest; not translated (no translated function may read them; translated code cannot construct the struct): request_rx : mpsc :: UnboundedReceiver < MockExchangeRequest >, event_tx : broadcast :: Sender < UnindexedAccountEvent >
/-- generated from `struct MockExchange` (barter-execution/src/exchange/mock/mod.rs:40) -/
structure MockExchange where
  exchange : ExchangeId
  latency_ms : Nat
  fees_percent : Rat
  instruments : Rust.Map InstrumentNameExchange (Instrument ExchangeId AssetNameExchange)
  account : AccountState
  order_sequence : Nat
  time_exchange_latest : Int
  deriving DecidableEq, Repr

/-- generated from `impl MockExchange :: fn update_time_exchange` (barter-execution/src/exchange/mock/mod.rs:124) -/
@[gen_mock] def MockExchange.update_time_exchange (self : MockExchange) (time_request : Int) : MockExchange :=
  let client_to_exchange_latency : Nat := (self.latency_ms / 2)
  let self : MockExchange := { self with time_exchange_latest := (match (some (time_request + (((client_to_exchange_latency : Nat) : Int) * 1))) with | some some_1 => some_1 | none => time_request) }
  let self : MockExchange := { self with account := (AccountState.update_time_exchange self.account self.time_exchange_latest) }
  self

/-- generated from `impl MockExchange :: fn time_exchange` (barter-execution/src/exchange/mock/mod.rs:134) -/
@[gen_mock] def MockExchange.time_exchange (self : MockExchange) : Int :=
  self.time_exchange_latest

/-- generated from `impl MockExchange :: fn validate_order_kind_supported` (barter-execution/src/exchange/mock/mod.rs:380) -/
@[gen_mock] def MockExchange.validate_order_kind_supported (self : MockExchange) (order_kind : OrderKind) : Except (OrderError AssetNameExchange InstrumentNameExchange) Unit :=
  (if (order_kind = OrderKind.Market) then
    (Except.ok ())
  else
    (Except.error (OrderError.Rejected (ApiError.OrderRejected (Rust.Str.mk [])))))

/-- generated from `impl MockExchange :: fn find_instrument_data` (barter-execution/src/exchange/mock/mod.rs:393) -/
@[gen_mock] def MockExchange.find_instrument_data (self : MockExchange) (instrument : InstrumentNameExchange) : Except (ApiError AssetNameExchange InstrumentNameExchange) (Instrument ExchangeId AssetNameExchange) :=
  (match (Rust.Map.get self.instruments instrument) with | some some_1 => Except.ok some_1 | none => Except.error (ApiError.InstrumentInvalid instrument (Rust.Str.mk [Rust.FmtArg.id instrument])))

/-- generated from `impl MockExchange :: fn order_id_sequence_fetch_add` (barter-execution/src/exchange/mock/mod.rs:405) -/
@[gen_mock] def MockExchange.order_id_sequence_fetch_add (self : MockExchange) : MockExchange × OrderId :=
  let sequence : Nat := self.order_sequence
  let self : MockExchange := { self with order_sequence := (self.order_sequence + 1) }
  (self, sequence)

/-- generated from `fn build_open_order_err_response` (barter-execution/src/exchange/mock/mod.rs:422) -/
@[gen_mock] def build_open_order_err_response {E : Type} [DecidableEq E] (E_into : E → OrderError AssetNameExchange InstrumentNameExchange) (request : OrderEvent RequestOpen ExchangeId InstrumentNameExchange) (error : E) : Order ExchangeId InstrumentNameExchange (Except (OrderError AssetNameExchange InstrumentNameExchange) _root_.BarterModel.Generated.Machines.Open) :=
  { key := request.key, side := request.state.side, price := request.state.price, quantity := request.state.quantity, kind := request.state.kind, time_in_force := request.state.time_in_force, state := (Except.error (E_into error)) : Order ExchangeId InstrumentNameExchange (Except (OrderError AssetNameExchange InstrumentNameExchange) _root_.BarterModel.Generated.Machines.Open) }

deriving instance Inhabited for AccountState

deriving instance Inhabited for MockExchange

deriving instance Inhabited for ConnectivityError

deriving instance Inhabited for OrderError

deriving instance Inhabited for OrderKey

deriving instance Inhabited for Side

deriving instance Inhabited for OrderKind

deriving instance Inhabited for TimeInForce

deriving instance Inhabited for Order

/-- generated from `impl MockExchange :: fn open_order` (barter-execution/src/exchange/mock/mod.rs:253) -/
@[gen_mock] def MockExchange.open_order (self : MockExchange) (request : OrderEvent RequestOpen ExchangeId InstrumentNameExchange) : MockExchange × (Order ExchangeId InstrumentNameExchange (Except (OrderError AssetNameExchange InstrumentNameExchange) _root_.BarterModel.Generated.Machines.Open)) × (Option OpenOrderNotifications) :=
  (match (MockExchange.validate_order_kind_supported self request.state.kind) with
  | Except.error error =>
    (self, ((build_open_order_err_response (fun x_1 => x_1) request error), none))
  | _ =>
    (match (MockExchange.find_instrument_data self request.key.instrument) with
    | Except.ok instrument =>
      let underlying : Underlying AssetNameExchange := instrument.underlying
      let time_exchange : Int := (MockExchange.time_exchange self)
      (match request.state.side with
      | Side.Buy =>
        (match (Rust.Map.get self.account.balances underlying.quote) with
        | none =>
          Rust.unreachable
        | some current =>
          (if (current.balance.total = current.balance.free) then
            let order_value_quote : Rat := (request.state.price * (Decimal.abs request.state.quantity))
            let order_fees_quote : Rat := (order_value_quote * self.fees_percent)
            let quote_required : Rat := (order_value_quote + order_fees_quote)
            let maybe_new_balance : Rat := (current.balance.free - quote_required)
            (if (maybe_new_balance ≥ 0) then
              let current : AssetBalance AssetNameExchange := { current with balance := { current.balance with free := maybe_new_balance } }
              let self : MockExchange := { self with account := { self.account with balances := (Rust.Map.insert self.account.balances underlying.quote current) } }
              let current : AssetBalance AssetNameExchange := { current with balance := { current.balance with total := maybe_new_balance } }
              let self : MockExchange := { self with account := { self.account with balances := (Rust.Map.insert self.account.balances underlying.quote current) } }
              let current : AssetBalance AssetNameExchange := { current with time_exchange := time_exchange }
              let self : MockExchange := { self with account := { self.account with balances := (Rust.Map.insert self.account.balances underlying.quote current) } }
              let balance_change_result : Except (ApiError AssetNameExchange _) ((AssetBalance AssetNameExchange) × (AssetFees QuoteAsset)) := (Except.ok (current, (AssetFees.quote_fees order_fees_quote)))
              (match balance_change_result with
              | Except.ok (balance_snapshot, fees) =>
                (match ((Snapshot.mk balance_snapshot : Snapshot (AssetBalance AssetNameExchange)), fees) with
                | (balance_snapshot, fees) =>
                  let call_1 := MockExchange.order_id_sequence_fetch_add self
                  let self : MockExchange := call_1.1
                  let order_id : OrderId := call_1.2
                  let trade_id : TradeId := order_id
                  let order_response : Order ExchangeId InstrumentNameExchange (Except _ _root_.BarterModel.Generated.Machines.Open) := { key := request.key, side := request.state.side, price := request.state.price, quantity := request.state.quantity, kind := request.state.kind, time_in_force := request.state.time_in_force, state := (Except.ok ({ id := order_id, time_exchange := (MockExchange.time_exchange self), filled_quantity := request.state.quantity : _root_.BarterModel.Generated.Machines.Open })) : Order ExchangeId InstrumentNameExchange (Except _ _root_.BarterModel.Generated.Machines.Open) }
                  let notifications : OpenOrderNotifications := { balance := balance_snapshot, trade := { id := trade_id, order_id := order_id, instrument := request.key.instrument, strategy := request.key.strategy, time_exchange := (MockExchange.time_exchange self), side := request.state.side, price := request.state.price, quantity := request.state.quantity, fees := fees : Trade QuoteAsset InstrumentNameExchange } : OpenOrderNotifications }
                  (self, (order_response, (some notifications))))
              | Except.error error =>
                (self, ((build_open_order_err_response (fun x_2 => OrderError.Rejected x_2) request error), none)))
            else
              let balance_change_result : Except (ApiError AssetNameExchange _) ((AssetBalance AssetNameExchange) × (AssetFees QuoteAsset)) := (Except.error (ApiError.BalanceInsufficient underlying.quote (Rust.Str.mk [Rust.FmtArg.dec current.balance.free, Rust.FmtArg.dec quote_required])))
              (match balance_change_result with
              | Except.ok (balance_snapshot, fees) =>
                (match ((Snapshot.mk balance_snapshot : Snapshot (AssetBalance AssetNameExchange)), fees) with
                | (balance_snapshot, fees) =>
                  let call_2 := MockExchange.order_id_sequence_fetch_add self
                  let self : MockExchange := call_2.1
                  let order_id : OrderId := call_2.2
                  let trade_id : TradeId := order_id
                  let order_response : Order ExchangeId InstrumentNameExchange (Except _ _root_.BarterModel.Generated.Machines.Open) := { key := request.key, side := request.state.side, price := request.state.price, quantity := request.state.quantity, kind := request.state.kind, time_in_force := request.state.time_in_force, state := (Except.ok ({ id := order_id, time_exchange := (MockExchange.time_exchange self), filled_quantity := request.state.quantity : _root_.BarterModel.Generated.Machines.Open })) : Order ExchangeId InstrumentNameExchange (Except _ _root_.BarterModel.Generated.Machines.Open) }
                  let notifications : OpenOrderNotifications := { balance := balance_snapshot, trade := { id := trade_id, order_id := order_id, instrument := request.key.instrument, strategy := request.key.strategy, time_exchange := (MockExchange.time_exchange self), side := request.state.side, price := request.state.price, quantity := request.state.quantity, fees := fees : Trade QuoteAsset InstrumentNameExchange } : OpenOrderNotifications }
                  (self, (order_response, (some notifications))))
              | Except.error error =>
                (self, ((build_open_order_err_response (fun x_3 => OrderError.Rejected x_3) request error), none))))
          else
            Rust.unreachable))
      | Side.Sell =>
        (match (Rust.Map.get self.account.balances underlying.base) with
        | none =>
          Rust.unreachable
        | some current =>
          (if (current.balance.total = current.balance.free) then
            let order_value_base : Rat := (Decimal.abs request.state.quantity)
            let order_fees_base : Rat := (order_value_base * self.fees_percent)
            let base_required : Rat := (order_value_base + order_fees_base)
            let maybe_new_balance : Rat := (current.balance.free - base_required)
            (if (maybe_new_balance ≥ 0) then
              let current : AssetBalance AssetNameExchange := { current with balance := { current.balance with free := maybe_new_balance } }
              let self : MockExchange := { self with account := { self.account with balances := (Rust.Map.insert self.account.balances underlying.base current) } }
              let current : AssetBalance AssetNameExchange := { current with balance := { current.balance with total := maybe_new_balance } }
              let self : MockExchange := { self with account := { self.account with balances := (Rust.Map.insert self.account.balances underlying.base current) } }
              let current : AssetBalance AssetNameExchange := { current with time_exchange := time_exchange }
              let self : MockExchange := { self with account := { self.account with balances := (Rust.Map.insert self.account.balances underlying.base current) } }
              let fees_quote : Rat := (order_fees_base * request.state.price)
              let balance_change_result : Except (ApiError AssetNameExchange _) ((AssetBalance AssetNameExchange) × (AssetFees QuoteAsset)) := (Except.ok (current, (AssetFees.quote_fees fees_quote)))
              (match balance_change_result with
              | Except.ok (balance_snapshot, fees) =>
                (match ((Snapshot.mk balance_snapshot : Snapshot (AssetBalance AssetNameExchange)), fees) with
                | (balance_snapshot, fees) =>
                  let call_3 := MockExchange.order_id_sequence_fetch_add self
                  let self : MockExchange := call_3.1
                  let order_id : OrderId := call_3.2
                  let trade_id : TradeId := order_id
                  let order_response : Order ExchangeId InstrumentNameExchange (Except _ _root_.BarterModel.Generated.Machines.Open) := { key := request.key, side := request.state.side, price := request.state.price, quantity := request.state.quantity, kind := request.state.kind, time_in_force := request.state.time_in_force, state := (Except.ok ({ id := order_id, time_exchange := (MockExchange.time_exchange self), filled_quantity := request.state.quantity : _root_.BarterModel.Generated.Machines.Open })) : Order ExchangeId InstrumentNameExchange (Except _ _root_.BarterModel.Generated.Machines.Open) }
                  let notifications : OpenOrderNotifications := { balance := balance_snapshot, trade := { id := trade_id, order_id := order_id, instrument := request.key.instrument, strategy := request.key.strategy, time_exchange := (MockExchange.time_exchange self), side := request.state.side, price := request.state.price, quantity := request.state.quantity, fees := fees : Trade QuoteAsset InstrumentNameExchange } : OpenOrderNotifications }
                  (self, (order_response, (some notifications))))
              | Except.error error =>
                (self, ((build_open_order_err_response (fun x_4 => OrderError.Rejected x_4) request error), none)))
            else
              let balance_change_result : Except (ApiError AssetNameExchange _) ((AssetBalance AssetNameExchange) × (AssetFees QuoteAsset)) := (Except.error (ApiError.BalanceInsufficient underlying.base (Rust.Str.mk [Rust.FmtArg.dec current.balance.free, Rust.FmtArg.dec base_required])))
              (match balance_change_result with
              | Except.ok (balance_snapshot, fees) =>
                (match ((Snapshot.mk balance_snapshot : Snapshot (AssetBalance AssetNameExchange)), fees) with
                | (balance_snapshot, fees) =>
                  let call_4 := MockExchange.order_id_sequence_fetch_add self
                  let self : MockExchange := call_4.1
                  let order_id : OrderId := call_4.2
                  let trade_id : TradeId := order_id
                  let order_response : Order ExchangeId InstrumentNameExchange (Except _ _root_.BarterModel.Generated.Machines.Open) := { key := request.key, side := request.state.side, price := request.state.price, quantity := request.state.quantity, kind := request.state.kind, time_in_force := request.state.time_in_force, state := (Except.ok ({ id := order_id, time_exchange := (MockExchange.time_exchange self), filled_quantity := request.state.quantity : _root_.BarterModel.Generated.Machines.Open })) : Order ExchangeId InstrumentNameExchange (Except _ _root_.BarterModel.Generated.Machines.Open) }
                  let notifications : OpenOrderNotifications := { balance := balance_snapshot, trade := { id := trade_id, order_id := order_id, instrument := request.key.instrument, strategy := request.key.strategy, time_exchange := (MockExchange.time_exchange self), side := request.state.side, price := request.state.price, quantity := request.state.quantity, fees := fees : Trade QuoteAsset InstrumentNameExchange } : OpenOrderNotifications }
                  (self, (order_response, (some notifications))))
              | Except.error error =>
                (self, ((build_open_order_err_response (fun x_5 => OrderError.Rejected x_5) request error), none))))
          else
            Rust.unreachable)))
    | Except.error error =>
      (self, ((build_open_order_err_response (fun x_6 => OrderError.Rejected x_6) request error), none))))

/-! ## barter-instrument/src/exchange.rs -/

/-- generated from `struct ExchangeIndex` (barter-instrument/src/exchange.rs:7) -/
structure ExchangeIndex where
  f0 : Nat
  deriving DecidableEq, Repr

/-- generated from `impl ExchangeIndex :: fn index` (barter-instrument/src/exchange.rs:10) -/
@[gen_connectivity_updates] def ExchangeIndex.index (self : ExchangeIndex) : Nat :=
  self.f0

/-! ## barter/src/engine/state/connectivity/mod.rs -/

/-- generated from `struct ConnectivityStates` (barter/src/engine/state/connectivity/mod.rs:12) -/
structure ConnectivityStates where
  global : Health
  exchanges : Rust.IndexMap ExchangeId ConnectivityState
  deriving DecidableEq, Repr

deriving instance Inhabited for Health

deriving instance Inhabited for ConnectivityState

/-- generated from `impl ConnectivityStates :: fn connectivity_index` (barter/src/engine/state/connectivity/mod.rs:102) -/
@[gen_connectivity_updates] def ConnectivityStates.connectivity_index (self : ConnectivityStates) (key : ExchangeIndex) : ConnectivityState :=
  (match (match (Rust.IndexMap.get_index self.exchanges (ExchangeIndex.index key)) with | none => none | some (_key, state) => some state) with | some some_1 => some_1 | none => Rust.unreachable)

/-- generated from `impl ConnectivityStates :: fn connectivity` (barter/src/engine/state/connectivity/mod.rs:124) -/
@[gen_connectivity_updates] def ConnectivityStates.connectivity (self : ConnectivityStates) (key : ExchangeId) : ConnectivityState :=
  (match (Rust.IndexMap.get self.exchanges key) with | some some_1 => some_1 | none => Rust.unreachable)

/-- generated from `impl ConnectivityStates :: fn exchange_states` (barter/src/engine/state/connectivity/mod.rs:146) -/
@[gen_connectivity_updates] def ConnectivityStates.exchange_states (self : ConnectivityStates) : Rust.Bag ConnectivityState :=
  (Rust.IndexMap.values self.exchanges)

deriving instance Inhabited for ConnectivityStates

/-- generated from `impl ConnectivityStates :: fn update_from_account_reconnecting` (barter/src/engine/state/connectivity/mod.rs:28) -/
@[gen_connectivity_updates] def ConnectivityStates.update_from_account_reconnecting (self : ConnectivityStates) (exchange : ExchangeId) : ConnectivityStates :=
  let self : ConnectivityStates := { self with global := Health.Reconnecting }
  (match (Rust.IndexMap.get self.exchanges exchange) with
  | none =>
    Rust.unreachable
  | some place_1 =>
    let place_1 : ConnectivityState := { place_1 with account := Health.Reconnecting }
    let self : ConnectivityStates := { self with exchanges := (Rust.IndexMap.set self.exchanges exchange place_1) }
    self)

/-- generated from `impl ConnectivityStates :: fn update_from_account_event` (barter/src/engine/state/connectivity/mod.rs:39) -/
@[gen_connectivity_updates] def ConnectivityStates.update_from_account_event (self : ConnectivityStates) (exchange : ExchangeIndex) : ConnectivityStates :=
  (if (self.global = Health.Healthy) then
    self
  else
    (match (match Rust.IndexMap.get_index self.exchanges (ExchangeIndex.index exchange) with | some kv_1 => some kv_1.2 | none => none) with
    | none =>
      Rust.unreachable
    | some state =>
      (if (state.account = Health.Healthy) then
        self
      else
        let state : ConnectivityState := { state with account := Health.Healthy }
        let self : ConnectivityStates := { self with exchanges := (Rust.IndexMap.set_index self.exchanges (ExchangeIndex.index exchange) state) }
        (if ((List.all (ConnectivityStates.exchange_states self) (fun x_1 => (ConnectivityState.all_healthy x_1))) = true) then
          let self : ConnectivityStates := { self with global := Health.Healthy }
          self
        else
          self))))

/-- generated from `impl ConnectivityStates :: fn update_from_market_reconnecting` (barter/src/engine/state/connectivity/mod.rs:65) -/
@[gen_connectivity_updates] def ConnectivityStates.update_from_market_reconnecting (self : ConnectivityStates) (exchange : ExchangeId) : ConnectivityStates :=
  let self : ConnectivityStates := { self with global := Health.Reconnecting }
  (match (Rust.IndexMap.get self.exchanges exchange) with
  | none =>
    Rust.unreachable
  | some place_1 =>
    let place_1 : ConnectivityState := { place_1 with market_data := Health.Reconnecting }
    let self : ConnectivityStates := { self with exchanges := (Rust.IndexMap.set self.exchanges exchange place_1) }
    self)

/-- generated from `impl ConnectivityStates :: fn update_from_market_event` (barter/src/engine/state/connectivity/mod.rs:76) -/
@[gen_connectivity_updates] def ConnectivityStates.update_from_market_event (self : ConnectivityStates) (exchange : ExchangeId) : ConnectivityStates :=
  (if (self.global = Health.Healthy) then
    self
  else
    (match (Rust.IndexMap.get self.exchanges exchange) with
    | none =>
      Rust.unreachable
    | some state =>
      (if (state.market_data = Health.Healthy) then
        self
      else
        let state : ConnectivityState := { state with market_data := Health.Healthy }
        let self : ConnectivityStates := { self with exchanges := (Rust.IndexMap.set self.exchanges exchange state) }
        (if ((List.all (ConnectivityStates.exchange_states self) (fun x_1 => (ConnectivityState.all_healthy x_1))) = true) then
          let self : ConnectivityStates := { self with global := Health.Healthy }
          self
        else
          self))))

end BarterModel.Generated.Machines
