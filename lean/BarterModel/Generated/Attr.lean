import Lean.Meta.Tactic.Simp.RegisterCommand
/-!
# Simp sets of the generated definitions, one per translator group

Hand-written, core Lean only. `tools/rust2lean.py` / `tools/rust2lean_sm.py` tag every definition they
generate with `@[gen_<group>]` for the group(s) of the item table it was generated for — the listed
functions, the instances of generic functions, the derived `Default` / `Constructor` items AND the
auxiliary functions that are not in the item table but were found by lookup because a translated function
calls them (private helpers extracted by a refactoring). An agreement proof of
`Lemmas/KernelsAgree/*.lean` therefore unfolds "everything generated for this group" with
`simp only [gen_<group>, ..]` and never has to name an auxiliary definition.
-/

/-- generated definitions of group `welford` (tools/rust2lean.py) -/
register_simp_attr gen_welford
/-- generated definitions of group `position` (tools/rust2lean.py) -/
register_simp_attr gen_position
/-- generated definitions of group `book` (tools/rust2lean.py) -/
register_simp_attr gen_book
/-- generated definitions of group `metric` (tools/rust2lean.py) -/
register_simp_attr gen_metric
/-- generated definitions of group `sequencer` (tools/rust2lean_sm.py) -/
register_simp_attr gen_sequencer
/-- generated definitions of group `drawdown` (tools/rust2lean_sm.py) -/
register_simp_attr gen_drawdown
/-- generated definitions of group `position_sm` (tools/rust2lean_sm.py) -/
register_simp_attr gen_position_sm
/-- generated definitions of group `connectivity` (tools/rust2lean_sm.py) -/
register_simp_attr gen_connectivity
/-- generated definitions of group `dataset` (tools/rust2lean_sm.py) -/
register_simp_attr gen_dataset
/-- generated definitions of group `pnl_returns` (tools/rust2lean_sm.py) -/
register_simp_attr gen_pnl_returns
/-- generated definitions of group `registers` (tools/rust2lean_sm.py) -/
register_simp_attr gen_registers
/-- generated definitions of group `risk` (tools/rust2lean_sm.py) -/
register_simp_attr gen_risk
/-- generated definitions of group `metrics` (tools/rust2lean_sm.py) -/
register_simp_attr gen_metrics
/-- generated definitions of group `clock` (tools/rust2lean_sm.py) -/
register_simp_attr gen_clock
/-- generated definitions of group `orders` (tools/rust2lean_sm.py, Generated/Machines3.lean) -/
register_simp_attr gen_orders
/-- generated definitions of group `mock` (tools/rust2lean_sm.py, Generated/Machines3.lean) -/
register_simp_attr gen_mock
/-- generated definitions of group `connectivity_updates` (tools/rust2lean_sm.py, Generated/Machines3.lean) -/
register_simp_attr gen_connectivity_updates
/-- generated definitions of group `audit_seq` (tools/rust2lean_sm.py, Generated/Machines4.lean) -/
register_simp_attr gen_audit_seq
/-- generated definitions of group `exec_map` (tools/rust2lean_sm.py, Generated/Machines4.lean) -/
register_simp_attr gen_exec_map
/-- generated definitions of group `indexer` (tools/rust2lean_sm.py, Generated/Machines4.lean) -/
register_simp_attr gen_indexer
/-- generated definitions of group `filters_actions` (tools/rust2lean_sm.py, Generated/Machines4.lean) -/
register_simp_attr gen_filters_actions
/-- generated definitions of group `send_requests` (tools/rust2lean_sm.py, Generated/Machines4.lean) -/
register_simp_attr gen_send_requests
