/-
GENERATED FILE -- DO NOT EDIT.  Written by tools/rust2lean.py from the Rust source on every run of
`./check` for the properties whose props/Cxx.py names it in PREBUILD; the committed copy is the output for
the pinned tree.  `Decimal` (and a generic `T` instantiated at `Decimal`) is `Rat`; conditions are decidable
propositions; `x += e` is a re-binding of `x`.  The agreement with the hand-written models is proved in
Lemmas/KernelsAgree/*.lean.  Every definition carries the simp attribute `gen_<group>` of its group
(Generated/Attr.lean), auxiliary functions found by lookup included.

Source items (file :: item, line, hash of the item's source text):
  barter/src/statistic/algorithm.rs :: mod welford_online :: fn calculate_mean  (line 7)  sha256[:16]=9535e0935ef9240c
  barter/src/statistic/algorithm.rs :: mod welford_online :: fn calculate_recurrence_relation_m  (line 16)  sha256[:16]=d9133dbc02edb40e
  barter/src/statistic/algorithm.rs :: mod welford_online :: fn calculate_sample_variance  (line 27)  sha256[:16]=030c18f5cf21af03
  barter/src/statistic/algorithm.rs :: mod welford_online :: fn calculate_population_variance  (line 35)  sha256[:16]=3212279d6fe66b01
  barter-instrument/src/lib.rs :: enum Side  (line 92)  sha256[:16]=2619c9517f1f65fe
  barter/src/engine/state/position.rs :: fn calculate_price_entry_average  (line 474)  sha256[:16]=7bab5edeef0573ce
  barter/src/engine/state/position.rs :: fn approximate_remaining_exit_fees  (line 517)  sha256[:16]=65ee8716d0cd0119
  barter/src/engine/state/position.rs :: fn calculate_pnl_unrealised  (line 492)  sha256[:16]=498565041f1b3025
  barter/src/engine/state/position.rs :: fn calculate_pnl_realised  (line 527)  sha256[:16]=0b805a56d73c60b5
  barter-data/src/books/mod.rs :: struct Level  (line 270)  sha256[:16]=eb3c0af9ebe407a3
  barter-data/src/books/mod.rs :: fn mid_price  (line 301)  sha256[:16]=5989c74efeb914fd
  barter-data/src/books/mod.rs :: fn volume_weighted_mid_price  (line 309)  sha256[:16]=8ba7d7b5c92d46ea
  barter/src/engine/state/position.rs :: fn calculate_pnl_return  (line 549)  sha256[:16]=bf485ec848f27501
  barter/src/statistic/metric/win_rate.rs :: struct WinRate  (line 12)  sha256[:16]=da4fe6181bd21c0c
  barter/src/statistic/metric/win_rate.rs :: impl WinRate :: fn calculate  (line 18)  sha256[:16]=f4d78a519b77caf4
  barter/src/statistic/metric/profit_factor.rs :: struct ProfitFactor  (line 15)  sha256[:16]=47dab6af7ff8f5e6
  barter/src/statistic/metric/profit_factor.rs :: impl ProfitFactor :: fn calculate  (line 21)  sha256[:16]=fbad1c44c8b29bd7
-/
import BarterModel.Generated.Attr
namespace BarterModel.Generated

/-! ## Fixed prelude: the meaning given to the `rust_decimal::Decimal` vocabulary (exact rationals) -/

/-- `Decimal::abs`. -/
def Decimal.abs (x : Rat) : Rat := if x < 0 then -x else x

/-- `Decimal::checked_div`: `None` exactly on a zero divisor (overflow is not modelled). -/
def Decimal.checked_div (x y : Rat) : Option Rat := if y = 0 then none else some (x / y)

/-- `Decimal::MAX` = 2^96 - 1. -/
def Decimal.MAX : Rat := 79228162514264337593543950335

/-- `Decimal::MIN` = -(2^96 - 1). -/
def Decimal.MIN : Rat := -79228162514264337593543950335

/-! ## barter/src/statistic/algorithm.rs -/

/-- generated from `mod welford_online :: fn calculate_mean` (barter/src/statistic/algorithm.rs:7) -/
@[gen_welford] def welford_online.calculate_mean (prev_mean : Rat) (next_value : Rat) (count : Rat) : Rat :=
  let prev_mean : Rat := (prev_mean + ((next_value - prev_mean) / count))
  prev_mean

/-- generated from `mod welford_online :: fn calculate_recurrence_relation_m` (barter/src/statistic/algorithm.rs:16) -/
@[gen_welford] def welford_online.calculate_recurrence_relation_m (prev_m : Rat) (prev_mean : Rat) (new_value : Rat) (new_mean : Rat) : Rat :=
  (prev_m + ((new_value - prev_mean) * (new_value - new_mean)))

/-- generated from `mod welford_online :: fn calculate_sample_variance` (barter/src/statistic/algorithm.rs:27) -/
@[gen_welford] def welford_online.calculate_sample_variance (recurrence_relation_m : Rat) (count : Rat) : Rat :=
  (if (count < 2) then
      0
  else
      (recurrence_relation_m / (count - 1)))

/-- generated from `mod welford_online :: fn calculate_population_variance` (barter/src/statistic/algorithm.rs:35) -/
@[gen_welford] def welford_online.calculate_population_variance (recurrence_relation_m : Rat) (count : Rat) : Rat :=
  (if (count < 1) then
      0
  else
      (recurrence_relation_m / count))

/-! ## barter-instrument/src/lib.rs -/

/-- generated from `enum Side` (barter-instrument/src/lib.rs:92) -/
inductive Side where
  | Buy
  | Sell
  deriving DecidableEq, Repr

/-! ## barter/src/engine/state/position.rs -/

/-- generated from `fn calculate_price_entry_average` (barter/src/engine/state/position.rs:474) -/
@[gen_position] def calculate_price_entry_average (current_price_entry_average : Rat) (current_quantity_abs : Rat) (trade_price : Rat) (trade_quantity_abs : Rat) : Rat :=
  if ((current_quantity_abs = 0) ∧ (trade_quantity_abs = 0)) then 0
  else
    let current_value : Rat := (current_price_entry_average * current_quantity_abs)
    let trade_value : Rat := (trade_price * trade_quantity_abs)
    ((current_value + trade_value) / (current_quantity_abs + trade_quantity_abs))

/-- generated from `fn approximate_remaining_exit_fees` (barter/src/engine/state/position.rs:517) -/
@[gen_position] def approximate_remaining_exit_fees (quantity_abs : Rat) (quantity_abs_max : Rat) (fees_enter : Rat) : Rat :=
  ((quantity_abs / quantity_abs_max) * fees_enter)

/-- generated from `fn calculate_pnl_unrealised` (barter/src/engine/state/position.rs:492) -/
@[gen_position] def calculate_pnl_unrealised (position_side : Side) (price_entry_average : Rat) (quantity_abs : Rat) (quantity_abs_max : Rat) (fees_enter : Rat) (price : Rat) : Rat :=
  let approx_exit_fees : Rat := (approximate_remaining_exit_fees quantity_abs quantity_abs_max fees_enter)
  let value_quote_current : Rat := (quantity_abs * price)
  let value_quote_entry : Rat := (quantity_abs * price_entry_average)
  (match position_side with
  | Side.Buy =>
      ((value_quote_current - value_quote_entry) - approx_exit_fees)
  | Side.Sell =>
      ((value_quote_entry - value_quote_current) - approx_exit_fees))

/-- generated from `fn calculate_pnl_realised` (barter/src/engine/state/position.rs:527) -/
@[gen_position] def calculate_pnl_realised (position_side : Side) (price_entry_average : Rat) (closed_quantity : Rat) (closed_price : Rat) (closed_fee : Rat) : Rat :=
  let close_quantity : Rat := (Decimal.abs closed_quantity)
  let value_quote_closed : Rat := (close_quantity * closed_price)
  let value_quote_entry : Rat := (close_quantity * price_entry_average)
  (match position_side with
  | Side.Buy =>
      ((value_quote_closed - value_quote_entry) - closed_fee)
  | Side.Sell =>
      ((value_quote_entry - value_quote_closed) - closed_fee))

/-! ## barter-data/src/books/mod.rs -/

/-- generated from `struct Level` (barter-data/src/books/mod.rs:270) -/
structure Level where
  price : Rat
  amount : Rat
  deriving DecidableEq, Repr

/-- generated from `fn mid_price` (barter-data/src/books/mod.rs:301) -/
@[gen_book] def mid_price (best_bid_price : Rat) (best_ask_price : Rat) : Rat :=
  ((best_bid_price + best_ask_price) / 2)

/-- generated from `fn volume_weighted_mid_price` (barter-data/src/books/mod.rs:309) -/
@[gen_book] def volume_weighted_mid_price (best_bid : Level) (best_ask : Level) : Rat :=
  (((best_bid.price * best_ask.amount) + (best_ask.price * best_bid.amount)) / (best_bid.amount + best_ask.amount))

/-! ## barter/src/engine/state/position.rs -/

/-- generated from `fn calculate_pnl_return` (barter/src/engine/state/position.rs:549) -/
@[gen_metric] def calculate_pnl_return (pnl_realised : Rat) (price_entry_average : Rat) (quantity_abs_max : Rat) : Rat :=
  (pnl_realised / (price_entry_average * quantity_abs_max))

/-! ## barter/src/statistic/metric/win_rate.rs -/

/-- generated from `struct WinRate` (barter/src/statistic/metric/win_rate.rs:12) -/
structure WinRate where
  value : Rat
  deriving DecidableEq, Repr

/-- generated from `impl WinRate :: fn calculate` (barter/src/statistic/metric/win_rate.rs:18) -/
@[gen_metric] def WinRate.calculate (wins : Rat) (total : Rat) : Option WinRate :=
  if (total = 0) then
    (none : Option WinRate)
  else
    match ((Decimal.checked_div (Decimal.abs wins) (Decimal.abs total))) with
    | none => none
    | some value =>
      (some { value := value : WinRate })

/-! ## barter/src/statistic/metric/profit_factor.rs -/

/-- generated from `struct ProfitFactor` (barter/src/statistic/metric/profit_factor.rs:15) -/
structure ProfitFactor where
  value : Rat
  deriving DecidableEq, Repr

/-- generated from `impl ProfitFactor :: fn calculate` (barter/src/statistic/metric/profit_factor.rs:21) -/
@[gen_metric] def ProfitFactor.calculate (profits_gross_abs : Rat) (losses_gross_abs : Rat) : Option ProfitFactor :=
  if ((profits_gross_abs = 0) ∧ (losses_gross_abs = 0)) then (none : Option ProfitFactor)
  else
    match (if (losses_gross_abs = 0) then some (Decimal.MAX)
      else if (profits_gross_abs = 0) then some (Decimal.MIN)
      else (Decimal.checked_div (Decimal.abs profits_gross_abs) (Decimal.abs losses_gross_abs))) with
    | none => none
    | some value =>
      (some { value := value : ProfitFactor })

end BarterModel.Generated
