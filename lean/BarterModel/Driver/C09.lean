import BarterModel.Driver.Common
import BarterModel.Model.Stale
/-!
Line-protocol driver for C09. Ops: `init n` | `init n x (B a total free)*` (CONFIGURATION family: the n instruments are
spread over x exchanges, 1 ≤ x ≤ min(n, 5), instrument i on exchange i % x; asset labels 0..n-1 = the base assets, n + e =
usdt ON EXCHANGE e, so n + x assets; every `B a total free` (distinct `a`) is an INITIAL balance handed to the state builder,
which stamps it with the engine start time: a balance message delivered at exchange time 0) | `bal a t total free` | `full (a t total free)*`
| `trade i t price [B|S amount]` | `l1 i te tl bp ba ap aa` (a side written `-1 -1` is ABSENT: one-sided top of book; the
harness prints it back as `-1,-1`, so the register model carries it as an ordinary value) | `l1e i te tl` (empty top of book)
| `mkt i t <candle|liq|booksnap|bookupd> price` (a market event of a kind that feeds no register) | `ord i c id t filled` (open report, quantity 10)
| `cancel i c` (a cancel request for the order is sent: `record_in_flight_cancel`)
| `ordx i c <Cancelled|Filled|Expired|Failed> t` (TERMINAL order report; `t` is the exchange time of a
`Cancelled` report: the code never reads it, the SPEC does - a Cancelled report is a timestamped message about the order)
| `acct (B a t total free | O i c id t filled | X i c kind t)*` (ONE full account snapshot carrying
balances AND order reports — open and terminal —, applied item by item: balances first, then the
orders in the order given, each in its own `InstrumentAccountSnapshot`).
-/
namespace BarterModel.Driver.C09
open BarterModel.Driver BarterModel.Stale BarterModel.Orders

structure St where
  eng : Eng
  orders : Engine
  n : Nat
  /-- number of asset labels: `n + 1` after `init n`, `n + x` after `init n x …` -/
  na : Nat := n + 1

/-- `init n x (B a total free)*`: `some (n, x, initial balances)` when well formed (1 ≤ x ≤ min(n,5), assets in range and distinct) -/
def parseInitBals : List String → Option (List (Nat × Bal))
  | [] => some []
  | "B" :: a :: tot :: free :: rest =>
    match a.toNat?, parseRat? tot, parseRat? free, parseInitBals rest with
    | some a, some tot, some free, some r => some ((a, (tot, free)) :: r)
    | _, _, _, _ => none
  | _ => none

def parseInitCfg : List String → Option (Nat × Nat × List (Nat × Bal))
  | n :: x :: rest =>
    match n.toNat?, x.toNat?, parseInitBals rest with
    | some n, some x, some bs =>
      let as := bs.map (·.1)
      if 1 ≤ x && x ≤ 5 && x ≤ n && as.all (· < n + x) && as.eraseDups.length == as.length then some (n, x, bs) else none
    | _, _, _ => none
  | _ => none

def fmtBal (b : Bal) : String := fmtRat b.1 ++ "," ++ fmtRat b.2
/-- an EMPTY top of book (both sides absent: a legal message for an emptied / halted book) is carried
as the all-zero payload -/
def fmtL1 (x : L1) : String :=
  if x.bidP == 0 && x.bidA == 0 && x.askP == 0 && x.askA == 0 then "empty"
  else s!"{fmtRat x.bidP},{fmtRat x.bidA},{fmtRat x.askP},{fmtRat x.askA}"
def fmtOpen (o : Open) : String := s!"O({o.id},{o.t},{fmtRat o.filled})"

def cids : List Nat := [1, 2]

def obs (s : St) : List String :=
  (s.eng.assets.zipIdx.map fun (h, a) =>
    match h with
    | none => s!"bal{a} none"
    | some (t, b) => s!"bal{a} {t} {fmtBal b}") ++
  (s.eng.data.zipIdx.map fun (d, i) =>
    match d.lastTrade with
    | none => s!"trade{i} none"
    | some (t, p) => s!"trade{i} {t} {fmtRat p}") ++
  (s.eng.data.zipIdx.map fun (d, i) =>
    match d.l1 with
    | none => s!"l1{i} none"
    | some x => s!"l1{i} {x.tl} {fmtL1 x}") ++
  ((s.orders.zipIdx.map fun (m, i) =>
    cids.map fun c =>
      match (lookup m c).map (·.state) with
      | some st => (match st.openMeta with
        | some o => s!"ord{i}_{c} {fmtOpen o}"
        | none => s!"ord{i}_{c} F")
      | none => s!"ord{i}_{c} none").flatten)

inductive POp where
  | bal (items : List (Nat × Msg Bal))   -- one item = BalanceSnapshot, several = full snapshot
  | trade (i : Nat) (t : Int) (p : Rat)
  | l1 (i : Nat) (te : Int) (x : L1)
  | ord (i c : Nat) (o : Open)
  | cancel (i c : Nat)
  | ordx (i c : Nat) (k : Inactive) (t : Int)
  | acct (bals : List (Nat × Msg Bal)) (ords : List (Nat × Snap))
  /-- a market event of a kind that feeds no register (candle / liquidation / L2 book) -/
  | other (i : Nat)

def parseInactive : String → Option Inactive
  | "Cancelled" => some .cancelled
  | "Filled" => some .fullyFilled
  | "Expired" => some .expired
  | "Failed" => some .openFailed
  | _ => none

/-- an open report as an order snapshot (order quantity 10, price 100, as every `ord` op) -/
def openSnap (c : Nat) (o : Open) : Snap := ⟨c, 10, 100, .active (.opn o), 0⟩
def finishedSnap (c : Nat) (k : Inactive) : Snap := ⟨c, 10, 100, .inactive k, 0⟩

/-- items of an `acct` op -/
def parseAcctItems : List String → Option (List (Nat × Msg Bal) × List (Nat × Snap))
  | [] => some ([], [])
  | "B" :: a :: t :: tot :: free :: rest =>
    match a.toNat?, t.toInt?, parseRat? tot, parseRat? free, parseAcctItems rest with
    | some a, some t, some tot, some free, some (bs, os) => some ((a, (t, (tot, free))) :: bs, os)
    | _, _, _, _, _ => none
  | "O" :: i :: c :: id :: t :: f :: rest =>
    match i.toNat?, c.toNat?, id.toNat?, t.toInt?, parseRat? f, parseAcctItems rest with
    | some i, some c, some id, some t, some f, some (bs, os) => some (bs, (i, openSnap c ⟨id, t, f⟩) :: os)
    | _, _, _, _, _, _ => none
  | "X" :: i :: c :: k :: t :: rest =>
    match i.toNat?, c.toNat?, parseInactive k, t.toInt?, parseAcctItems rest with
    | some i, some c, some k, some _, some (bs, os) => some (bs, (i, finishedSnap c k) :: os)
    | _, _, _, _, _ => none
  | _ => none

def parseBalItems : List String → Option (List (Nat × Msg Bal))
  | [] => some []
  | a :: t :: tot :: free :: rest =>
    match a.toNat?, t.toInt?, parseRat? tot, parseRat? free, parseBalItems rest with
    | some a, some t, some tot, some free, some r => some ((a, (t, (tot, free))) :: r)
    | _, _, _, _, _ => none
  | _ => none

def parseOp : List String → Option POp
  | ["bal", a, t, tot, free] => (parseBalItems [a, t, tot, free]).map .bal
  | "full" :: rest => (parseBalItems rest).map .bal
  | ["trade", i, t, p] =>
    match i.toNat?, t.toInt?, parseRat? p with
    | some i, some t, some p => some (.trade i t p)
    | _, _, _ => none
  -- a public trade with its side and amount spelled out (neither is part of any register)
  | ["trade", i, t, p, sd, am] =>
    match i.toNat?, t.toInt?, parseRat? p, parseRat? am with
    | some i, some t, some p, some _ => if sd == "B" || sd == "S" then some (.trade i t p) else none
    | _, _, _, _ => none
  | ["mkt", i, t, k, p] =>
    match i.toNat?, t.toInt?, parseRat? p with
    | some i, some _, some _ =>
      if k == "candle" || k == "liq" || k == "booksnap" || k == "bookupd" then some (.other i) else none
    | _, _, _ => none
  | ["l1", i, te, tl, bp, ba, ap, aa] =>
    match i.toNat?, te.toInt?, tl.toInt?, parseRat? bp, parseRat? ba, parseRat? ap, parseRat? aa with
    | some i, some te, some tl, some bp, some ba, some ap, some aa =>
      -- both sides written absent (`-1 -1`): not an `l1` op (an empty book is `l1e`); the harness rejects it too
      if bp == -1 && ba == -1 && ap == -1 && aa == -1 then none else some (.l1 i te ⟨tl, bp, ba, ap, aa⟩)
    | _, _, _, _, _, _, _ => none
  | ["l1e", i, te, tl] =>
    match i.toNat?, te.toInt?, tl.toInt? with
    | some i, some te, some tl => some (.l1 i te ⟨tl, 0, 0, 0, 0⟩)
    | _, _, _ => none
  | ["ord", i, c, id, t, f] =>
    match i.toNat?, c.toNat?, id.toNat?, t.toInt?, parseRat? f with
    | some i, some c, some id, some t, some f => some (.ord i c ⟨id, t, f⟩)
    | _, _, _, _, _ => none
  | ["cancel", i, c] =>
    match i.toNat?, c.toNat? with
    | some i, some c => some (.cancel i c)
    | _, _ => none
  | ["ordx", i, c, k, t] =>
    match i.toNat?, c.toNat?, parseInactive k, t.toInt? with
    | some i, some c, some k, some t => some (.ordx i c k t)
    | _, _, _, _ => none
  | "acct" :: rest => (parseAcctItems rest).map fun (bs, os) => .acct bs os
  | _ => none

def POp.inRange (n na : Nat) : POp → Bool
  | .bal items => items.all (fun am => am.1 < na)
  | .trade i _ _ => i < n
  | .l1 i _ _ => i < n
  | .ord i _ _ => i < n
  | .cancel i _ => i < n
  | .ordx i _ _ _ => i < n
  | .acct bals ords => bals.all (fun am => am.1 < na) && ords.all (fun is => is.1 < n)
  | .other i => i < n

def model : Drv St where
  init := ⟨Eng.init 0 0, [], 0, 1⟩
  step s toks :=
    match toks with
    | ["init", n] =>
      match n.toNat? with
      | some n => let s' : St := ⟨Eng.init (n + 1) n, List.replicate n [], n, n + 1⟩; (s', obs s')
      | none => (s, ["bad-op"])
    -- the builder applies every initial balance as a balance snapshot stamped with the engine start time (0)
    | "init" :: n :: x :: rest =>
      match parseInitCfg (n :: x :: rest) with
      | some (n, x, bs) =>
        let eng := bs.foldl (fun (e : Eng) ab => e.fullSnapshot [(ab.1, ((0 : Int), ab.2))]) (Eng.init (n + x) n)
        let s' : St := ⟨eng, List.replicate n [], n, n + x⟩; (s', obs s')
      | none => (s, ["bad-op"])
    | _ =>
      match parseOp toks with
      | none => (s, ["bad-op"])
      | some op =>
        if !op.inRange s.n s.na then (s, ["panic"]) else
        let s' : St := match op with
          | .bal items => { s with eng := s.eng.fullSnapshot items }
          | .trade i t p => { s with eng := s.eng.trade i t p }
          | .l1 i te x => { s with eng := s.eng.bookL1 i te x }
          | .ord i c o => { s with orders := s.orders.apply i (.snapshot ⟨c, 10, 100, .active (.opn o), 0⟩) }
          | .cancel i c => { s with orders := s.orders.apply i (.recCancel c) }
          | .ordx i c k _ => { s with orders := s.orders.apply i (.snapshot (finishedSnap c k)) }
          | .acct bals ords =>
            { s with eng := s.eng.fullSnapshot bals, orders := s.orders.applySnapshot ords }
          -- DefaultInstrumentMarketData::process: `_ => {}`
          | .other _ => s
        (s', obs s')

/-- spec state: the delivered messages per item, in delivery order -/
structure SpecSt where
  n : Nat
  na : Nat
  bals : List (List (Msg Bal))
  trades : List (List (Msg Rat))
  l1s : List (List (Msg L1))
  l1Poisoned : List Bool
  ords : List (List (Nat × Msg Open))
  /-- per instrument, finished orders (a TERMINAL report was delivered): client order id and, for a `Cancelled` report, its exchange time -/
  fin : List (List (Nat × Option Int))

def setOf (vals : List String) : String := "{" ++ "|".intercalate vals ++ "}"

def specLine {α : Type} (key : String) (ms : List (Msg α)) (fmt : α → String) (withTime : Bool) : String :=
  match maxTime ms with
  | none => key ++ " none"
  | some t => if withTime then s!"{key} {t} {setOf ((valuesAtMax ms).map fmt)}"
              else s!"{key} {setOf ((valuesAtMax ms).map fmt)}"

def pushAt {α : Type} (l : List (List α)) (i : Nat) (x : α) : List (List α) :=
  match l[i]? with
  | some xs => l.set i (xs ++ [x])
  | none => l

/-- THE PROPERTY, LITERALLY, for open-order details: the details held for an order carry the greatest
exchange timestamp delivered so far for that order among its open reports (with a value delivered with
that timestamp) — or the order is not held. "Not held" is admitted only once the exchange has reported
the order finished (before that an order with a delivered open report and something left to fill IS
held); it is NOT admitted to hold OLDER details than delivered, whatever was reported in between. -/
def specOrdLine (key : String) (ms : List (Msg Open)) (fin : List (Option Int)) : String :=
  match maxTime ms with
  | none => key ++ " none"
  | some tmax =>
    let vals := (valuesAtMax ms).map fmtOpen
    -- a `Cancelled` report is itself a timestamped message about the order: if one with a timestamp
    -- BEYOND every open report has been delivered (ties are left open), the greatest timestamp delivered says the order is
    -- gone, and holding any (necessarily older) open details is the roll-back the property forbids
    let cancelledLatest := fin.any fun t => match t with | some tc => decide (tmax < tc) | none => false
    if cancelledLatest then key ++ " none"
    else key ++ " " ++ setOf (if !fin.isEmpty then "none" :: vals else vals)

/-- one order report of a full account snapshot / an `ord` / `ordx` op, as the spec sees it.
An OPEN report with nothing left to fill (`filled = quantity`) is both: a timestamped message about the
order (its details count towards "the greatest exchange timestamp delivered") and the exchange's word
that the order is finished (from then on "not held" is admitted, as after `ordx … Filled`). -/
def specOrder (s : SpecSt) (i : Nat) (sn : Snap) (tTerminal : Option Int := none) : SpecSt :=
  match sn.state with
  | .active (.opn o) =>
    let s1 := { s with ords := pushAt s.ords i (sn.cid, (o.t, o)) }
    if o.filled == sn.quantity then { s1 with fin := pushAt s1.fin i (sn.cid, none) } else s1
  | .inactive k =>
    { s with fin := pushAt s.fin i (sn.cid, match k with | .cancelled => tTerminal | _ => none) }
  | _ => s

/-- the exchange times of the terminal (`X i c kind t`) items of an `acct` op, in order -/
def acctTerminalTimes : List String → List Int
  | "X" :: _ :: _ :: _ :: t :: rest => (t.toInt?.getD 0) :: acctTerminalTimes rest
  | "B" :: _ :: _ :: _ :: _ :: rest => acctTerminalTimes rest
  | "O" :: _ :: _ :: _ :: _ :: _ :: rest => acctTerminalTimes rest
  | _ => []

def specObs (s : SpecSt) : List String :=
  (s.bals.zipIdx.map fun (ms, a) => specLine s!"bal{a}" ms fmtBal true) ++
  (s.trades.zipIdx.map fun (ms, i) => specLine s!"trade{i}" ms fmtRat true) ++
  ((s.l1s.zipIdx.filterMap fun (ms, i) =>
    if s.l1Poisoned[i]?.getD false then none else some (specLine s!"l1{i}" ms fmtL1 true))) ++
  ((s.ords.zipIdx.map fun (ms, i) =>
    cids.map fun c => specOrdLine s!"ord{i}_{c}" ((ms.filter (·.1 == c)).map (·.2))
      (((s.fin[i]?.getD []).filter (·.1 == c)).map (·.2))).flatten)

def spec : Drv SpecSt where
  init := ⟨0, 0, [], [], [], [], [], []⟩
  step s toks :=
    match toks with
    | ["init", n] =>
      match n.toNat? with
      | some n =>
        let s' : SpecSt := ⟨n, n + 1, List.replicate (n + 1) [], List.replicate n [], List.replicate n [],
          List.replicate n false, List.replicate n [], List.replicate n []⟩
        (s', specObs s')
      | none => (s, ["bad-op"])
    -- an initial balance is a balance delivered with the engine start time (exchange time 0): from then on
    -- the register of that asset (on ITS exchange: one register per (exchange, asset)) carries the greatest
    -- timestamp delivered, the initial one included; the other assets start with nothing delivered
    | "init" :: n :: x :: rest =>
      match parseInitCfg (n :: x :: rest) with
      | some (n, x, bs) =>
        let s0 : SpecSt := ⟨n, n + x, List.replicate (n + x) [], List.replicate n [], List.replicate n [],
          List.replicate n false, List.replicate n [], List.replicate n []⟩
        let s' : SpecSt := { s0 with bals := bs.foldl (fun b ab => pushAt b ab.1 ((0 : Int), ab.2)) s0.bals }
        (s', specObs s')
      | none => (s, ["bad-op"])
    | _ =>
      match parseOp toks with
      | none => (s, ["bad-op"])
      | some op =>
        if !op.inRange s.n s.na then (s, ["panic"]) else
        let s' : SpecSt := match op with
          | .bal items => { s with bals := items.foldl (fun b am => pushAt b am.1 am.2) s.bals }
          | .trade i t p => { s with trades := pushAt s.trades i (t, p) }
          | .l1 i te x =>
            if x.tl == te then { s with l1s := pushAt s.l1s i (te, x) }
            else { s with l1Poisoned := s.l1Poisoned.set i true }
          | .ord i c o => specOrder s i (openSnap c o)
          -- a cancel request sent (once or repeatedly) delivers nothing from the exchange
          | .cancel _ _ => s
          | .ordx i c k t => specOrder s i (finishedSnap c k) (some t)
          | .acct bals ords =>
            let s1 : SpecSt := { s with bals := bals.foldl (fun b am => pushAt b am.1 am.2) s.bals }
            -- terminal items take their exchange times from the op line, in order
            (ords.foldl (fun (acc : SpecSt × List Int) is =>
              match is.2.state with
              | .inactive _ => (specOrder acc.1 is.1 is.2 acc.2.head?, acc.2.tail)
              | _ => (specOrder acc.1 is.1 is.2, acc.2)) (s1, acctTerminalTimes (toks.drop 1))).1
          | .other _ => s
        (s', specObs s')

end BarterModel.Driver.C09

def main (args : List String) : IO UInt32 :=
  BarterModel.Driver.runMain BarterModel.Driver.C09.model BarterModel.Driver.C09.spec args
