import BarterModel.Driver.Common
import BarterModel.Model.DataSet
/-! Line-protocol driver for C17. Ops: `push <decimal>` (one `DataSetSummary::update`),
`reset` (back to `DataSetSummary::default()` inside a case, used to replay the same values in
another order). Observations after every op: the fields of the summary.

Exact keys: `count sum act high low range var_ge0 mean_in_range`.
Tolerant keys (went through a `Decimal` division / sqrt): `mean m variance std_dev sd_sq`. -/
namespace BarterModel.Driver.C17
open BarterModel.Driver BarterModel.DataSet

def obs (s : Summary) : List String :=
  let d := s.dispersion
  let r := d.range
  [ "count " ++ fmtRat s.count,
    "sum " ++ fmtRat s.sum,
    "mean " ++ fmtRatApprox s.mean,
    "m " ++ fmtRatApprox d.recurrenceRelationM,
    "variance " ++ fmtRatApprox d.variance,
    "std_dev " ++ fmtRatApprox d.stdDev,
    -- std_dev² against |variance|: independent of how the model approximates the root
    "sd_sq " ++ fmtRatApprox d.variance.abs,
    "act " ++ fmtBool r.activated,
    "high " ++ fmtRat r.high,
    "low " ++ fmtRat r.low,
    "range " ++ fmtRat r.range,
    "var_ge0 " ++ fmtBool (decide (0 ≤ d.variance)),
    "mean_in_range " ++ fmtBool (!r.activated || (decide (r.low ≤ s.mean) && decide (s.mean ≤ r.high))) ]

def model : Drv Summary where
  init := Summary.default
  step s toks :=
    match toks with
    | ["push", x] =>
      match parseRat? x with
      | some x => let s' := s.update sqrtApprox x; (s', obs s')
      | none => (s, ["bad-op"])
    | ["reset"] => (Summary.default, obs Summary.default)
    | _ => (s, ["bad-op"])

/-- The spec driver keeps the whole dataset and recomputes everything from it at once; it prints
only what the property constrains (not the internal recurrence value `m`). -/
def specObs (xs : List Rat) : List String :=
  let s := specSummary sqrtApprox xs
  let d := s.dispersion
  [ "count " ++ fmtRat s.count,
    "sum " ++ fmtRat s.sum,
    "mean " ++ fmtRatApprox s.mean,
    "variance " ++ fmtRatApprox d.variance,
    "std_dev " ++ fmtRatApprox d.stdDev,
    "sd_sq " ++ fmtRatApprox d.variance,
    "act " ++ fmtBool d.range.activated,
    "high " ++ fmtRat d.range.high,
    "low " ++ fmtRat d.range.low,
    "range " ++ fmtRat (d.range.high - d.range.low),
    -- the two inequalities of the property: demanded outright
    "var_ge0 1",
    "mean_in_range 1" ]

def spec : Drv (List Rat) where
  init := []
  step xs toks :=
    match toks with
    | ["push", x] =>
      match parseRat? x with
      | some x => let xs' := xs ++ [x]; (xs', specObs xs')
      | none => (xs, ["bad-op"])
    | ["reset"] => ([], specObs [])
    | _ => (xs, ["bad-op"])

end BarterModel.Driver.C17

def main (args : List String) : IO UInt32 :=
  BarterModel.Driver.runMain BarterModel.Driver.C17.model BarterModel.Driver.C17.spec args
