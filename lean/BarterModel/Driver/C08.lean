import BarterModel.Driver.Common
import BarterModel.Model.MockExchange
/-!
Line-protocol driver for C08 (simulated exchange).

Ops
  `init <direct|async> <latency_ms> <fee> <n> <bal>*n <k> <base:quote>*k`   (`bal` is `x` or `total:free`)
     the mode may carry a configuration shape `:<m|b|k>:<tok>.<tok>…` (exchange id the mock stands for, one
     token per instrument: kind / quoting / settlement asset / contract size / spec, see `shapeTokOk`);
     syntax checked (`bad-op`), content ignored: no path of the exchange reads it
  `open <t> <instr> <B|S> <M|L> <price> <qty> <strategy> <cid> [<ioc|fok|day|gtc|gtcp>]`
     (time in force: no path of `open_order` reads it and the response repeats it; when the op spells it out
     the harness prints the RESPONSE's time in force as `echo_tif` after the `echo` line, and so does the model)
  `snap <t>` `balances <t>` `orders <t>` `trades <t> <since>` `cancel <t>`
`direct` drives `MockExchange::open_order` / `account_snapshot` themselves (only `open` and `snap`;
the exchange clock never moves, `t` is ignored); `async` goes through `MockExecution` +
`MockExchange::run`.
-/
namespace BarterModel.Driver.C08
open BarterModel.Driver BarterModel.MockExchange

def side2s : Side → String
  | .buy => "B"
  | .sell => "S"

def kind2s : Kind → String
  | .market => "M"
  | .limit => "L"

def parseSide : String → Option Side
  | "B" => some .buy
  | "S" => some .sell
  | _ => none

def parseKind : String → Option Kind
  | "M" => some .market
  | "L" => some .limit
  | _ => none

def parseBal (s : String) : Option (Rat × Rat) :=
  match s.splitOn ":" with
  | [x] => (parseRat? x).map fun r => (r, r)
  | [t, f] =>
    match parseRat? t, parseRat? f with
    | some t, some f => some (t, f)
    | _, _ => none
  | _ => none

def parseInstr (s : String) : Option Instr :=
  match s.splitOn ":" with
  | [b, q] =>
    match b.toNat?, q.toNat? with
    | some b, some q => some ⟨b, q⟩
    | _, _ => none
  | _ => none

def allSome {α : Type} : List (Option α) → Option (List α)
  | [] => some []
  | none :: _ => none
  | some a :: rest => (allSome rest).map (a :: ·)

/-- One instrument token of a configuration SHAPE: `<s|p|f|o><q|b><digit><u|t|c>[+]` (kind, quoting,
settlement asset, contract size, spec present). The exchange reads none of it (`open_order` uses
`underlying` only): the model checks the syntax and ignores the content. -/
def shapeTokOk (t : String) : Bool :=
  match t.toList with
  | [k, q, s, c] | [k, q, s, c, '+'] =>
    (k == 's' || k == 'p' || k == 'f' || k == 'o') && (q == 'q' || q == 'b') && s.isDigit &&
      (c == 'u' || c == 't' || c == 'c')
  | _ => false

/-- mode token `<direct|async>[:<m|b|k>:<tok>.<tok>…]`: `(async, number of shape tokens if a shape is given)` -/
def parseMode (mode : String) : Option (Bool × Option Nat) :=
  let m? (s : String) : Option Bool :=
    if s == "async" then some true else if s == "direct" then some false else none
  match mode.splitOn ":" with
  | [m] => (m? m).map (·, none)
  | [m, e, toks] =>
    if !(e == "m" || e == "b" || e == "k") then none else
    let ts := if toks == "" then [] else toks.splitOn "."
    if ts.all shapeTokOk then (m? m).map (·, some ts.length) else none
  | _ => none

/-- `true` = async -/
def parseInit : List String → Option (Bool × Cfg)
  | mode :: lat :: fee :: n :: rest =>
    match parseMode mode, lat.toNat?, parseRat? fee, n.toNat? with
    | some (m, shape), some lat, some fee, some n =>
      if rest.length < n + 1 then none else
      match allSome ((rest.take n).map parseBal), (rest.drop n) with
      | some bals, k :: irest =>
        match k.toNat? with
        | some k =>
          if irest.length ≠ k || (shape.isSome && shape ≠ some k) then none else
          match allSome (irest.map parseInstr) with
          | some is => some (m, { latency := lat, fee := fee, init := bals, instruments := is })
          | none => none
        | none => none
      | _, _ => none
    | _, _, _, _ => none
  | _ => none

def parseReq : List String → Option (Int × Req)
  | [t, i, sd, kd, p, q, st, cid] =>
    match t.toInt?, i.toNat?, parseSide sd, parseKind kd, parseRat? p, parseRat? q, st.toNat?, cid.toNat? with
    | some t, some i, some sd, some kd, some p, some q, some st, some cid =>
      some (t, { instr := i, strategy := st, cid := cid, side := sd, price := p, qty := q, kind := kd })
    | _, _, _, _, _, _, _, _ => none
  | _ => none

def isTif (s : String) : Bool := s == "ioc" || s == "fok" || s == "day" || s == "gtc" || s == "gtcp"

/-- the time in force an `open` op spells out (9th argument), if any -/
def opTif : List String → Option String
  | ["open", _, _, _, _, _, _, _, _, tif] => if isTif tif then some tif else none
  | _ => none

/-- `(t, request)`; `none` = malformed. -/
def parseOp : List String → Option (Int × Request)
  | ["open", t, i, sd, kd, p, q, st, cid, tif] =>
    if isTif tif then (parseReq [t, i, sd, kd, p, q, st, cid]).map fun (t, r) => (t, .openOrder r) else none
  | "open" :: rest => (parseReq rest).map fun (t, r) => (t, .openOrder r)
  | ["snap", t] => t.toInt?.map (·, .fetchSnapshot)
  | ["balances", t] => t.toInt?.map (·, .fetchBalances)
  | ["orders", t] => t.toInt?.map (·, .fetchOrdersOpen)
  | ["trades", t, since] =>
    match t.toInt?, since.toInt? with
    | some t, some since => some (t, .fetchTrades since)
    | _, _ => none
  | ["cancel", t] => t.toInt?.map (·, .cancelOrder)
  | _ => none

def fmtTrade (tr : Trade) : String :=
  s!"{tr.id} {tr.orderId} {tr.instr} {tr.strategy} {side2s tr.side} {fmtRat tr.price} {fmtRat tr.qty} {fmtRat tr.fees}"

def echo (r : Req) : String :=
  s!"echo {r.cid} {r.strategy} {r.instr} {side2s r.side} {fmtRat r.price} {fmtRat r.qty} {kind2s r.kind}"

def balLines (bs : List (Rat × Rat)) : List String :=
  (bs.zipIdx).map fun (p, a) => s!"bal {a} {fmtRat p.1} {fmtRat p.2}"

def balTimes (bs : List Bal) : String :=
  "bal_time " ++ " ".intercalate (bs.map fun b => toString b.time)

def tradeLines (ts : List Trade) : List String :=
  s!"trades {ts.length}" :: ts.map fun tr => s!"trade {fmtTrade tr} {tr.time}"

def resultLines (r : Req) : Result → List String
  | .panic => ["panic"]
  | .rejected e =>
    [ "resp err", echo r,
      match e with
      | .kindUnsupported => "err kind"
      | .instrumentInvalid i => s!"err instrument {i}"
      | .balanceInsufficient a av rq => s!"err insufficient {a} {fmtRat av} {fmtRat rq}",
      "notif 0 0", "norder -" ]
  | .accepted f =>
    [ "resp ok", echo r, s!"open {f.id} {fmtRat f.filled}", s!"resp_time {f.time}", "notif 1 1", "norder BT",
      s!"nbal {f.asset} {fmtRat f.balance.total} {fmtRat f.balance.free}", s!"nbal_time {f.balance.time}",
      s!"ntrade {fmtTrade f.trade}", s!"ntrade_time {f.trade.time}" ]

/-- the response repeats the request's time in force: `echo_tif` directly after the `echo` line -/
def withTif (tif : Option String) (lines : List String) : List String :=
  match tif, lines with
  | some tf, a :: e :: rest => if e.startsWith "echo " then a :: e :: s!"echo_tif {tf}" :: rest else lines
  | _, _ => lines

structure MSt where
  async : Bool
  st : State

def snapLines (bs : List Bal) : List String :=
  balLines (bs.map fun b => (b.total, b.free)) ++ [balTimes bs]

def model : Drv (Option MSt) where
  init := none
  step s toks :=
    match toks with
    | "init" :: rest =>
      match parseInit rest with
      | some (m, c) => (some ⟨m, init c⟩, snapLines (init c).balances ++ ["instruments 0"])
      | none => (s, ["bad-op"])
    | _ =>
      match s, parseOp toks with
      | some ms, some (t, rq) =>
        if ms.async then
          let (st', resp, _evs) := step ms.st t rq
          let lines :=
            match resp, rq with
            | .snapshot bs, _ => snapLines bs ++ ["instruments 0"]
            | .balances bs, _ => snapLines bs
            | .ordersOpen, _ => ["orders 0"]
            | .trades ts, _ => tradeLines ts
            | .dropped, _ => ["resp none"]
            | .order res, .openOrder r => withTif (opTif toks) (resultLines r res)
            | .order _, _ => ["bad-op"]
          (some ⟨true, st'⟩, lines)
        else
          match rq with
          | .openOrder r =>
            let (st', res) := openOrder ms.st r
            (some ⟨false, st'⟩, withTif (opTif toks) (resultLines r res))
          | .fetchSnapshot => (s, snapLines ms.st.balances ++ ["instruments 0"])
          | _ => (s, ["bad-op"])
      | _, _ => (s, ["bad-op"])

/-- Spec driver state: configuration and the open-order requests seen so far, newest first. -/
structure SSt where
  async : Bool
  cfg : Cfg
  hist : List Spec.Ev

def spec : Drv (Option SSt) where
  init := none
  step s toks :=
    match toks with
    | "init" :: rest =>
      match parseInit rest with
      | some (m, c) => (some ⟨m, c, []⟩, if c.wf then balLines (Spec.ledger c []) else [])
      | none => (s, ["bad-op"])
    | _ =>
      match s, parseOp toks with
      | some ss, some (t, rq) =>
        let c := ss.cfg
        -- outside the property's scope (the code panics when an instrument's asset has no balance
        -- or an initial balance has total ≠ free): the spec says nothing there
        if !c.wf then (s, []) else
        let acc := Spec.accepted c ss.hist
        let legal := ss.async || (match rq with | .openOrder _ => true | .fetchSnapshot => true | _ => false)
        if !legal then (s, ["bad-op"]) else
        match rq with
        | .openOrder r =>
          let e : Spec.Ev := ⟨if ss.async then exchangeTime c t else 0, r⟩
          let lines :=
            match Spec.respond c acc e with
            | none => ["resp err", "notif 0 0"]
            | some (a, b, tr) =>
              [ "resp ok", s!"open {tr.id} {fmtRat r.qty}", "notif 1 1", s!"nbal {a} {fmtRat b} {fmtRat b}",
                s!"ntrade {fmtTrade tr}", s!"ntrade_time {tr.time}" ]
          (some { ss with hist := e :: ss.hist }, lines)
        | .fetchSnapshot | .fetchBalances => (s, balLines (Spec.ledger c acc))
        | .fetchTrades since => (s, tradeLines (Spec.tradesSince c acc since))
        | .fetchOrdersOpen | .cancelOrder => (s, [])
      | _, _ => (s, ["bad-op"])

end BarterModel.Driver.C08

def main (args : List String) : IO UInt32 :=
  BarterModel.Driver.runMain BarterModel.Driver.C08.model BarterModel.Driver.C08.spec args
