import BarterModel.Driver.Common
import BarterModel.Model.Position
/-!
Line-protocol driver for C02.

Ops
  `init pm`                                     one bare `PositionManager` (every fill goes to it)
  `init engine <n>`                             `n` instruments, fills routed by instrument index
  `init enginex <E|D> <links> <spec>+`          configuration-shape family: one instrument per `<spec>` =
                                                `<exchange label 0..2><kind s|p|f|o>`, trading state at start,
                                                `<links>` = three letters `H|M` (execution link per exchange
                                                label present / absent). The property quantifies over none of
                                                these: model and spec see `init engine <number of specs>`.
  `fill <id> <instr> <time> <B|S> <price> <qty> <fee>`

Observations after a fill (for the position manager the fill was routed to):
  `exit …` / `pos …`   the returned `PositionExited` and `PositionManager.current`, every field
  `side`, `qty`, `exited`, `cash`, `fees`, `idrec`, `opened`, `exitfee`, `life`, `exlife`
                       the quantities the property constrains (see `Driver.C02.derived`); these
                       are the keys the `spec` driver prints from the fill history alone.
-/
namespace BarterModel.Driver.C02
open BarterModel.Driver BarterModel.Position

def s2s : Side → String
  | .buy => "B"
  | .sell => "S"

def ids (l : List Nat) : String := " ".intercalate ("ids" :: l.map toString)

def fmtExit : Option PositionExited → String
  | none => "exit none"
  | some e => " ".intercalate
      ["exit", toString e.instrument, s2s e.side, fmtRatApprox e.priceEntryAverage,
       fmtRat e.quantityAbsMax, fmtRatApprox e.pnlRealised, fmtRatApprox e.feesEnter,
       fmtRatApprox e.feesExit, toString e.timeEnter, toString e.timeExit, ids e.trades]

def fmtPos : Option Position → String
  | none => "pos none"
  | some p => " ".intercalate
      ["pos", toString p.instrument, s2s p.side, fmtRatApprox p.priceEntryAverage,
       fmtRat p.quantityAbs, fmtRat p.quantityAbsMax, fmtRatApprox p.pnlUnrealised,
       fmtRatApprox p.pnlRealised, fmtRatApprox p.feesEnter, fmtRatApprox p.feesExit,
       toString p.timeEnter, toString p.timeExchangeUpdate, ids p.trades]

def flag : Option Bool → String
  | none => "-"
  | some b => fmtBool b

def optApprox : Option Rat → String
  | none => "-"
  | some r => fmtRatApprox r

/-- The property-level lines, from side / open quantity / whether an exit was returned / the
conservation and fee totals / id membership / fee of a newly opened position / exit fee charged to
the closed one. -/
def propLines (side : Option Side) (qty : Rat) (exited : Bool) (cash fees : Rat)
    (idOpen idExit : Option Bool) (opened exitfee : Option Rat) : List String :=
  [ "side " ++ (match side with | some s => s2s s | none => "none"),
    "qty " ++ fmtRat qty,
    "exited " ++ fmtBool exited,
    "cash " ++ fmtRatApprox cash,
    "fees " ++ fmtRatApprox fees,
    "idrec " ++ flag idOpen ++ " " ++ flag idExit,
    "opened " ++ optApprox opened,
    "exitfee " ++ optApprox exitfee ]

/-- Same derivation as the Rust harness performs on the real values. -/
def derived (prev : Option Position) (r : Run) (exit : Option PositionExited) (t : Trade) :
    List String :=
  let cur := r.pm.current
  let opened : Option Rat :=
    match cur with
    | some p => if prev.isNone || exit.isSome then some p.feesEnter else none
    | none => none
  let exitfee : Option Rat :=
    match exit, prev with
    | some e, some p => some (e.feesExit - p.feesExit)
    | _, _ => none
  propLines r.pm.side (match cur with | some p => p.quantityAbs | none => 0) exit.isSome
    (r.pnlRealised - r.pm.openValue) r.fees
    (cur.map fun p => p.trades.contains t.id) (exit.map fun e => e.trades.contains t.id)
    opened exitfee

/-- `life` / `exlife`: ids, largest size and entry time of the open position / of the closed record. -/
def lifeLine (maxAbs : Rat) (tEnter : Int) (l : List Nat) : String :=
  " ".intercalate ["life", fmtRat maxAbs, toString tEnter, ids l]

def exlifeLine (maxAbs : Rat) (tEnter tExit : Int) (side : Option Side) (l : List Nat) : String :=
  " ".intercalate ["exlife", fmtRat maxAbs, toString tEnter, toString tExit,
    (match side with | some s => s2s s | none => "none"), ids l]

def lifeLines (cur : Option Position) (exit : Option PositionExited) : List String :=
  [ (match cur with
     | some p => lifeLine p.quantityAbsMax p.timeEnter p.trades
     | none => "life none"),
    (match exit with
     | some e => exlifeLine e.quantityAbsMax e.timeEnter e.timeExit (some e.side) e.trades
     | none => "exlife none") ]

def parseSide : String → Option Side
  | "B" => some .buy
  | "S" => some .sell
  | _ => none

def parseFill : List String → Option Trade
  | ["fill", id, instr, time, side, price, qty, fee] =>
    match id.toNat?, instr.toNat?, time.toInt?, parseSide side, parseRat? price, parseRat? qty,
        parseRat? fee with
    | some id, some instr, some time, some side, some price, some qty, some fee =>
      some { id, instrument := instr, time, side, price, quantity := qty, fees := fee }
    | _, _, _, _, _, _, _ => none
  | _ => none

inductive Mode where
  | unset
  | pm
  | engine (n : Nat)

def validSpec (t : String) : Bool :=
  match t.toList with
  | [e, k] => (e == '0' || e == '1' || e == '2') && (k == 's' || k == 'p' || k == 'f' || k == 'o')
  | _ => false

def validLinks (t : String) : Bool :=
  t.length == 3 && t.toList.all fun c => c == 'H' || c == 'M'

def parseInit : List String → Option Mode
  | ["init", "pm"] => some .pm
  | ["init", "engine", n] => n.toNat?.map .engine
  | "init" :: "enginex" :: trading :: links :: spec :: specs =>
    if (trading == "E" || trading == "D") && validLinks links && (spec :: specs).all validSpec
    then some (.engine (specs.length + 1)) else none
  | _ => none

structure MSt where
  mode : Mode
  runs : Instruments

def model : Drv MSt where
  init := ⟨.unset, []⟩
  step s toks :=
    match parseInit toks with
    | some .pm => (⟨.pm, Instruments.init 1⟩, [])
    | some (.engine n) => (⟨.engine n, Instruments.init n⟩, [])
    | some .unset => (s, ["bad-op"])
    | none =>
      match parseFill toks with
      | none => (s, ["bad-op"])
      | some t =>
        if t.quantity = 0 then (s, ["bad-op"]) else
        let slot : Option Nat :=
          match s.mode with
          | .unset => none
          | .pm => some 0
          | .engine _ => some t.instrument
        match slot with
        | none => (s, ["bad-op"])
        | some k =>
          match s.runs[k]? with
          | none => (s, ["panic"])
          | some r =>
            let u := r.pm.update t
            let r' := r.step t
            -- engine mode runs the model's own routing (`Instruments.step`); a bare manager is slot 0
            let runs' := match s.mode with
              | .engine _ => Instruments.step s.runs t
              | _ => s.runs.set k r'
            ({ s with runs := runs' },
              fmtExit u.2 :: fmtPos r'.pm.current ::
                (derived r.pm.current r' u.2 t ++ lifeLines r'.pm.current u.2))

/-- Spec state of one instrument: its fills so far; `ok = false` once a fill outside the property's
quantifier (price ≤ 0, quantity ≤ 0, fee < 0, or a second instrument on a bare position manager)
has been seen — from then on the spec says nothing. -/
structure SInst where
  fills : List Trade
  ok : Bool

structure SSt where
  mode : Mode
  insts : List SInst

def inDomain (t : Trade) : Bool := 0 < t.price && 0 < t.quantity && 0 ≤ t.fees

def specLines (fs : List Trade) (t : Trade) : List String :=
  let before := net fs
  let after := net (fs ++ [t])
  let exited := decide (ReachesOrCrossesZero before after)
  let crosses := decide (Crosses before after)
  let opened : Option Rat :=
    if before = 0 then some t.fees
    else if crosses then some (t.fees * (BarterModel.Position.abs after / t.quantity))
    else none
  let exitfee : Option Rat :=
    if crosses then some (t.fees * (BarterModel.Position.abs before / t.quantity))
    else if exited then some t.fees
    else none
  propLines (sideOfNet after) (BarterModel.Position.abs after) exited (cash (fs ++ [t]))
    (feeSum (fs ++ [t]))
    (if after = 0 then none else some true) (if exited then some true else none)
    opened exitfee ++
  [ (let l := life (fs ++ [t])
     if after = 0 then "life none" else lifeLine l.maxAbs l.timeEnter l.ids),
    (let l := life fs
     if exited then exlifeLine l.maxAbs l.timeEnter t.time (sideOfNet before) (l.ids ++ [t.id])
     else "exlife none") ]

def spec : Drv SSt where
  init := ⟨.unset, []⟩
  step s toks :=
    match parseInit toks with
    | some .pm => (⟨.pm, [⟨[], true⟩]⟩, [])
    | some (.engine n) => (⟨.engine n, List.replicate n ⟨[], true⟩⟩, [])
    | some .unset => (s, ["bad-op"])
    | none =>
      match parseFill toks with
      | none => (s, ["bad-op"])
      | some t =>
        if t.quantity = 0 then (s, ["bad-op"]) else
        let slot : Option Nat :=
          match s.mode with
          | .unset => none
          | .pm => some 0
          | .engine _ => some t.instrument
        match slot with
        | none => (s, ["bad-op"])
        | some k =>
          match s.insts[k]? with
          | none => (s, ["panic"])
          | some i =>
            let sameInstr := match i.fills.head? with
              | some f => f.instrument == t.instrument
              | none => true
            if i.ok && inDomain t && sameInstr then
              ({ s with insts := s.insts.set k ⟨i.fills ++ [t], true⟩ }, specLines i.fills t)
            else
              ({ s with insts := s.insts.set k ⟨i.fills, false⟩ }, [])

end BarterModel.Driver.C02

def main (args : List String) : IO UInt32 :=
  BarterModel.Driver.runMain BarterModel.Driver.C02.model BarterModel.Driver.C02.spec args
