import BarterModel.Driver.EngineCommon
import BarterModel.Model.Audit
/-!
C10 driver: the EngineCommon protocol (`init`, `algo`, `ev ...`) plus
  `rep_dup`   re-deliver the last record to the replica (must be skipped)
  `rep_gap`   deliver a record two ahead of the last applied one (must be rejected)
  `rep_old k` re-deliver the record of k events before the last one, unchanged (a record repeated later: skipped)
  `rep_at s`  deliver the last record stamped with the absolute sequence s (0, an old number, far ahead);
              s = replica sequence + 1 would be a forged valid successor: `bad-op`
  `runall sync|async`  the whole history through the run loop and a fresh replica
  `runall sync|async <drop|dup|late|swap>:<first|mid|last|index>`  the same, the replica being fed through a
              faulty transport (a record removed / repeated at once / repeated before the final one / swapped)
  `resnap`    (configuration shape) `audit_snapshot` of the case's RUNNING engine - whatever orders, positions,
              prices it holds, sequence counter > 0 - and a fresh replica on it, fed by the following records
  `runtwo sync|async k [fault]`  (configuration shape) a second run on the same engine: fresh engine, events
              0..k of the history through the runner (own snapshot, channel, replica), then a second snapshot of
              the same engine, a new channel, the rest of the feed (what the first run did not consume) through
              the runner into a fresh replica on that snapshot
Every processed event yields one audit record which is fed to the replica.
`rec_ev` / `run_ev`: digest of the event a record carries (model: the tick's event; spec: the INPUT
event of the op - "carrying that event"); `rec_out`: kinds of the outputs in the record (model only).
-/
namespace BarterModel.Driver.C10
open BarterModel.Driver BarterModel.Driver.EngineCommon BarterModel.Engine BarterModel.Orders
open BarterModel.Audit

structure St where
  init : Eng
  eng : EngA
  rep : Replica
  algoC : List CancelReq
  algoO : List OpenReq
  lastTick : Option Tick
  history : List (Event × Ask)
  /-- the replication hypotheses (EventOk, FreshCids) held so far -/
  hypOk : Bool
  /-- digest of every INPUT event of the history, taken when it was handed to the engine -/
  digests : List String := []
  /-- every record the engine produced, newest first (`rep_old`) -/
  ticks : List Tick := []

def emptyEng : Eng := ⟨false, [], [], [], 0⟩
def St.empty : St := ⟨emptyEng, ⟨emptyEng, 0⟩, ⟨emptyEng, 0⟩, [], [], none, [], true, [], []⟩

def obsAny (pfx : String) (e : Eng) : List String :=
  ((e.instruments.zipIdx.map fun (s, i) =>
    let l := (s.orders.toArray.qsort (fun a b => a.1 < b.1)).toList
    [ s!"{pfx}ord{i} " ++ joinOr (l.map fun (c, o) => s!"{c}:{fmtActive o.state}"),
      (match s.position with
        | none => s!"{pfx}pos{i} none"
        | some (side, q) => s!"{pfx}pos{i} {fmtSide side}:{fmtRat q}"),
      (match s.price with
        | none => s!"{pfx}price{i} none"
        | some p => s!"{pfx}price{i} {fmtRat p}") ]).flatten) ++
  [ s!"{pfx}trading " ++ (if e.enabled then "on" else "off") ]

/-- what the property demands of the replica's orders: the engine's with in-flight markers set aside -/
def strippedOrders (pfx : String) (e : Eng) : List String :=
  e.instruments.zipIdx.map fun (s, i) =>
    let l := (s.orders.toArray.qsort (fun a b => a.1 < b.1)).toList
    s!"{pfx}ord{i} " ++ joinOr (l.filterMap fun (c, o) =>
      (strip (some o.state)).map fun a => s!"{c}:{fmtActive a}")

def stepName : StepResult → String
  | .applied _ _ => "applied"
  | .skipped => "skipped"
  | .error => "error"
  | .ended => "ended"

def eventOkB : Event → Bool
  | .update (.order _ op) => Op.exchangeReport op
  | _ => true

def freshB (e : Eng) (opens : List OpenReq) : Bool :=
  opens.all fun o => (strip (orderState e o.key.instrument o.key.cid)).isNone

def lastKind (ticks : List Tick) : String :=
  match ticks.getLast? with
  | some (.feedEnded _) => "feed-ended"
  | some (.process _ ev a) => if a.fatal then "fatal" else match ev with | .shutdown => "shutdown" | _ => "other"
  | none => "none"

/-- digest of the event a record carries; `pre` is the engine state before the record's event -/
def tickDigest (pre : Eng) : Tick → String
  | .process _ ev _ => eventDigest pre ev
  | .feedEnded _ => "feed-ended"

def tickOutputs : Tick → List String
  | .process _ ev a => outputKinds ev a
  | .feedEnded _ => []

/-- digests of the records of a run: the history is re-run step by step to have the engine state
before each record's event (the event is taken from the RECORD) -/
def tickDigests (s : EngA) (hist : List (Event × Ask)) : List Tick → List String
  | [] => []
  | t :: ts =>
    tickDigest s.eng t ::
      (match t, hist with
        | .process _ ev _, (_, ask) :: rest => tickDigests (processWithAudit s ev ask).1 rest ts
        | _, _ => tickDigests s (hist.drop 1) ts)

/-- `StateReplicaManager::run` as `Replica.run`, returning the state reached (also when it stops with
an error: the real replica keeps the state it had) -/
def replicaRunState (r : Replica) : List Tick → Replica
  | [] => r
  | t :: ts =>
    match r.step t with
    | .ended => r
    | .skipped => replicaRunState r ts
    | .error => r
    | .applied r' stop => if stop then r' else replicaRunState r' ts

/-- one `ev`: engine processes, replica is fed the record -/
def stepEv (s : St) (ev : Event) : St × List String :=
  let ask : Ask := ⟨s.algoC, s.algoO, refuse⟩
  let (ea, tick) := processWithAudit s.eng ev ask
  let audit := match tick with | .process _ _ a => a | .feedEnded _ => ⟨none, none, none, false⟩
  let hyp := s.hypOk && eventOkB ev && freshB (preState s.eng.eng ev) (sentOpens audit)
  let (eng', _) := canonCancelOrders ev s.eng.eng ea.eng audit
  let res := s.rep.step tick
  let rep' := match res with | .applied r _ => r | _ => s.rep
  let s' : St := { s with eng := ⟨eng', ea.seq⟩, rep := rep', algoC := [], algoO := [],
                          lastTick := some tick, history := s.history ++ [(ev, ask)], hypOk := hyp,
                          digests := s.digests ++ [eventDigest s.eng.eng ev], ticks := tick :: s.ticks }
  (s', [ s!"seq {tick.seq}", "terminal " ++ fmtBool tick.terminal,
         -- what the RECORD carries: its event (digest against the state before it) and its outputs
         "rec_ev " ++ tickDigest s.eng.eng tick, "rec_out " ++ joinOr (tickOutputs tick),
         "rep_step " ++ stepName res,
         s!"rep_seq {rep'.seq}" ] ++ obsAny "" eng' ++ obsAny "rep_" rep'.state ++
       [ "rep_rest_eq 1",
         -- the property evaluated on the model's two states
         "rep_sync " ++ fmtBool (strippedOrders "" eng' == strippedOrders "" rep'.state) ])

/-- a fault of the transport between the audit channel and the replica (`runall <runner> <kind>:<pos>`):
`drop` removes the record at `pos`, `dup` repeats it immediately, `late` repeats it just before the final
record, `swap` exchanges it with its successor; `pos` = `first` | `mid` | `last` | an index (clamped).
Second component: the fault only REPEATS records (nothing is lost). -/
def mutateStream (m : String) (ts : List Tick) : Option (List Tick × Bool) :=
  match m.splitOn ":" with
  | [kind, pos] =>
    let n := ts.length
    let j? : Option Nat := match pos with
      | "first" => some 0
      | "mid" => some (n / 2)
      | "last" => some (n - 1)
      | k => k.toNat?.map fun k => min k (n - 1)
    j?.bind fun j =>
      match kind with
      | "drop" => some (ts.eraseIdx j, false)
      | "dup" => some (ts.take j ++ (ts[j]?).toList ++ ts.drop j, true)
      | "late" => some (ts.take (n - 1) ++ (ts[j]?).toList ++ ts.drop (n - 1), true)
      | "swap" =>
        (match ts[j]?, ts[j + 1]? with
          | some a, some b => some (ts.take j ++ [b, a] ++ ts.drop (j + 2), false)
          | _, _ => some (ts, false))
      | _ => none
  | _ => none

def runAll (s : St) (fault : Option String := none) : List String :=
  let (ea, ticks) := runWithAudit ⟨s.init, 1⟩ s.history
  -- what the replica is fed: the records of the run, possibly through a faulty transport
  let (fed, lossless) := match fault with
    | none => (ticks, true)
    | some m => (mutateStream m ticks).getD (ticks, true)
  let repRes := (Replica.run ⟨s.init, 0⟩ fed)
  -- the state the replica reached (on `err`: where it stopped, as the real one)
  let rep := match repRes with | .ok r => r | .error _ => replicaRunState ⟨s.init, 0⟩ fed
  [ "run_seqs " ++ joinOr (ticks.map fun t => toString t.seq),
    "run_terminal " ++ joinOr (ticks.map fun t => fmtBool t.terminal),
    "run_last " ++ lastKind ticks ] ++
  (tickDigests ⟨s.init, 1⟩ s.history ticks).map ("run_ev " ++ ·) ++
  [ (match repRes with | .ok _ => "run_rep ok" | .error _ => "run_rep err") ] ++
  obsAny "run_" ea.eng ++ obsAny "run_rep_" rep.state ++
  (if lossless then [ "run_rep_rest_eq 1" ] else []) ++
  [ "run_rep_sync " ++ fmtBool (strippedOrders "" ea.eng == strippedOrders "" rep.state) ]

/-- what the property says the records of the run carry: the input events of the history, in order, as
many as there are records (the model gives the count), then the feed-ended record if the run ended by
exhaustion of the feed -/
def runEvSpec (s : St) : List String :=
  let (_, ticks) := runWithAudit ⟨s.init, 1⟩ s.history
  let n := (ticks.filter fun t => match t with | .process .. => true | .feedEnded _ => false).length
  (s.digests.take n).map ("run_ev " ++ ·) ++
  (match ticks.getLast? with | some (.feedEnded _) => ["run_ev feed-ended"] | _ => [])

/-- `rep_old` / `rep_at`: a record delivered to the replica outside the engine's own order. A record that
would be the valid successor of the last applied one is a forged stream, not a faulty one: `bad-op`. -/
def feedForged (s : St) : Option Tick → St × List String
  | none => (s, ["no-tick"])
  | some t =>
    if t.seq == s.rep.seq + 1 then (s, ["bad-op"]) else
    let res := s.rep.step t
    let rep' := match res with | .applied r _ => r | _ => s.rep
    ({ s with rep := rep' }, [ "rep_step " ++ stepName res, s!"rep_seq {rep'.seq}" ] ++ obsAny "rep_" rep'.state)

/-- no in-flight request marker anywhere: the snapshot is inside `synced_snapshot`'s hypothesis -/
def noMarkers (e : Eng) : Bool :=
  e.instruments.all fun s => s.orders.all fun (_, o) => strip (some o.state) == some o.state

/-- `resnap`: the snapshot consumes the engine's next sequence number; the replica is the engine's state -/
def resnap (s : St) : St × List String :=
  let n := s.eng.seq
  let rep : Replica := ⟨s.eng.eng, n⟩
  ({ s with eng := ⟨s.eng.eng, n + 1⟩, rep := rep, hypOk := noMarkers s.eng.eng },
   [ s!"seq {n}", s!"rep_seq {n}", s!"rep_start {n}" ] ++ obsAny "rep_" rep.state ++ [ "rep_rest_eq 1" ])

structure TwoRuns where
  ticks1 : List Tick
  mid : EngA
  snap2 : Nat
  ticks2 : List Tick
  fin : EngA
  h2 : List (Event × Ask)
  /-- events the first run consumed -/
  c1 : Nat

/-- the two runs of `runtwo`: the second starts on the engine the first one left, one number after its
second snapshot -/
def twoRuns (s : St) (k : Nat) : TwoRuns :=
  let (ea1, t1) := runWithAudit ⟨s.init, 1⟩ (s.history.take k)
  -- the second run goes on with the rest of the same feed: the first one consumed one event per
  -- `process` record
  let c1 := (t1.filter fun t => match t with | .process .. => true | .feedEnded _ => false).length
  let h2 := s.history.drop c1
  let (ea2, t2) := runWithAudit ⟨ea1.eng, ea1.seq + 1⟩ h2
  ⟨t1, ea1, ea1.seq, t2, ea2, h2, c1⟩

def runTwo (s : St) (k : Nat) (fault : Option String := none) : List String :=
  let r := twoRuns s k
  let rep1 := Replica.run ⟨s.init, 0⟩ r.ticks1
  let (fed, lossless) := match fault with
    | none => (r.ticks2, true)
    | some m => (mutateStream m r.ticks2).getD (r.ticks2, true)
  let start : Replica := ⟨r.mid.eng, r.snap2⟩
  let repRes := Replica.run start fed
  let rep := match repRes with | .ok q => q | .error _ => replicaRunState start fed
  [ "run1_seqs " ++ joinOr (r.ticks1.map fun t => toString t.seq),
    "run1_last " ++ lastKind r.ticks1,
    (match rep1 with | .ok _ => "run1_rep ok" | .error _ => "run1_rep err"),
    "run1_rep_rest_eq 1",
    s!"snap2_seq {r.snap2}",
    "run_seqs " ++ joinOr (r.ticks2.map fun t => toString t.seq),
    "run_terminal " ++ joinOr (r.ticks2.map fun t => fmtBool t.terminal),
    "run_last " ++ lastKind r.ticks2 ] ++
  (tickDigests ⟨r.mid.eng, r.snap2 + 1⟩ r.h2 r.ticks2).map ("run_ev " ++ ·) ++
  [ (match repRes with | .ok _ => "run_rep ok" | .error _ => "run_rep err"),
    s!"run_rep_seq {rep.seq}" ] ++
  obsAny "run_" r.fin.eng ++ obsAny "run_rep_" rep.state ++
  (if lossless then [ "run_rep_rest_eq 1" ] else []) ++
  [ "run_rep_sync " ++ fmtBool (strippedOrders "" r.fin.eng == strippedOrders "" rep.state) ]

/-- the records of the second run carry the input events k, k+1, .. of the history, as many as there are
records, then the feed-ended record if that run ended by exhaustion -/
def runTwoEvSpec (s : St) (k : Nat) : List String :=
  let r := twoRuns s k
  let n := (r.ticks2.filter fun t => match t with | .process .. => true | .feedEnded _ => false).length
  ((s.digests.drop r.c1).take n).map ("run_ev " ++ ·) ++
  (match r.ticks2.getLast? with | some (.feedEnded _) => ["run_ev feed-ended"] | _ => [])

/-- the order clause is demanded of the second run when the replication hypotheses held for the whole
history (the two runs together process the events of the history in order, none skipped) and the second
snapshot holds no in-flight marker -/
def runTwoSyncDemanded (s : St) (k : Nat) : Bool :=
  let r := twoRuns s k
  s.hypOk && noMarkers r.mid.eng

def model : Drv St where
  init := St.empty
  step s toks :=
    match toks with
    | "init" :: rest =>
      match parseInit rest with
      | some e =>
        -- the snapshot record consumes sequence 0; the replica starts from it
        ({ St.empty with init := e, eng := ⟨e, 1⟩, rep := ⟨e, 0⟩ }, [ "seq 0" ] ++ obsAny "" e)
      | none => (s, ["bad-op"])
    | "algo" :: rs =>
      match parseReqs rs with
      | some (cs, os) => ({ s with algoC := cs, algoO := os }, ["algo-set"])
      | none => (s, ["bad-op"])
    | "ev" :: rest =>
      match resolveEvent s.eng.eng rest with
      | none => (s, ["bad-op"])
      | some ev =>
        let ev := fixExchange s.eng.eng ev
        if !(Event.instrumentsInRange s.eng.eng.instruments.length ev) then
          ({ s with algoC := [], algoO := [] }, ["panic"]) else
        if isNoopFlat s.eng.eng ev then ({ s with algoC := [], algoO := [] }, ["noop"]) else
        stepEv s ev
    | ["rep_dup"] =>
      match s.lastTick with
      | none => (s, ["no-tick"])
      | some t =>
        let res := s.rep.step t
        let rep' := match res with | .applied r _ => r | _ => s.rep
        ({ s with rep := rep' }, [ "rep_step " ++ stepName res, s!"rep_seq {rep'.seq}" ] ++ obsAny "rep_" rep'.state)
    | ["rep_gap"] =>
      match s.lastTick with
      | none => (s, ["no-tick"])
      | some t =>
        let t' := match t with
          | .process _ ev a => Tick.process (s.rep.seq + 2) ev a
          | .feedEnded _ => Tick.feedEnded (s.rep.seq + 2)
        let res := s.rep.step t'
        let rep' := match res with | .applied r _ => r | _ => s.rep
        ({ s with rep := rep' }, [ "rep_step " ++ stepName res, s!"rep_seq {rep'.seq}" ] ++ obsAny "rep_" rep'.state)
    | ["rep_old", k] =>
      match k.toNat? with
      | none => (s, ["bad-op"])
      | some k => feedForged s (s.ticks[k]?)
    | ["rep_at", q] =>
      match q.toNat? with
      | none => (s, ["bad-op"])
      | some q => feedForged s (s.lastTick.map fun t => match t with
          | .process _ ev a => Tick.process q ev a
          | .feedEnded _ => Tick.feedEnded q)
    | ["runall", _] => (s, runAll s)
    | ["runall", _, m] =>
      match mutateStream m [] with
      | none => (s, ["bad-op"])
      | some _ => (s, runAll s (some m))
    | ["resnap"] => resnap s
    | ["runtwo", _, k] =>
      match k.toNat? with
      | none => (s, ["bad-op"])
      | some k => (s, runTwo s (min k s.history.length))
    | ["runtwo", _, k, m] =>
      match k.toNat?, mutateStream m [] with
      | some k, some _ => (s, runTwo s (min k s.history.length) (some m))
      | _, _ => (s, ["bad-op"])
    | _ => (s, ["bad-op"])

/-- Spec view: sequence numbers, terminal flags, the event each record carries (`rec_ev` / `run_ev`: the
digest of the INPUT event of the op / of the history, not of the model's tick), what the replica does
with each record, and the replica's state as the property demands it — trading / position / price equal
to the engine's, orders equal to the engine's once in-flight markers are set aside (silent on orders
once a replication hypothesis failed; `rep_sync 1` / `run_rep_sync 1` while it holds), everything else
equal (`rep_rest_eq 1`). -/
def spec : Drv St where
  init := St.empty
  step s toks :=
    let (s', lines) := model.step s toks
    let keep := fun (l : String) =>
      ["seq", "terminal", "rep_step", "rep_seq", "rep_rest_eq", "run_seqs", "run_terminal", "run_last",
       "run_rep ", "run_rep_rest_eq", "panic", "bad-op", "noop",
       "rep_start", "run1_seqs", "run1_last", "run1_rep", "snap2_seq", "run_rep_seq"].any (fun k => l.startsWith k)
    let base := lines.filter keep
    let isEv := toks.head? == some "ev" && base.any (fun l => l.startsWith "seq")
    -- "carrying that event": the record of this op carries the event the op hands to the engine
    let inputDigest := match toks with
      | "ev" :: rest => (resolveEvent s.eng.eng rest).map fun ev =>
          "rec_ev " ++ eventDigest s.eng.eng (fixExchange s.eng.eng ev)
      | _ => none
    let extra :=
      if isEv then
        inputDigest.toList ++
        -- replica = engine on trading / position / price; orders stripped
        ((obsAny "rep_" s'.eng.eng).filter fun l => !(l.startsWith "rep_ord")) ++
        (if s'.hypOk then strippedOrders "rep_" s'.eng.eng ++ ["rep_sync 1"] else [])
      else if toks == ["resnap"] then
        -- the replica starts as the engine is: trading / position / price, and (no marker in the
        -- snapshot) the engine's orders
        ((obsAny "rep_" s.eng.eng).filter fun l => !(l.startsWith "rep_ord")) ++
        (if s'.hypOk then strippedOrders "rep_" s.eng.eng else [])
      else if toks.head? == some "runtwo" && base.any (fun l => l.startsWith "run_seqs") then
        let k := min (((toks[2]?).bind String.toNat?).getD 0) s.history.length
        let lossless := match toks with
          | [_, _, _, m] => ((mutateStream m []).map (·.2)).getD false
          | _ => true
        runTwoEvSpec s k ++ (if runTwoSyncDemanded s k && lossless then ["run_rep_sync 1"] else [])
      else if toks.head? == some "runall" && base.any (fun l => l.startsWith "run_seqs") then
        -- a transport that only repeats records loses nothing: the replica must still end equal
        let lossless := match toks with
          | [_, _, m] => ((mutateStream m []).map (·.2)).getD false
          | _ => true
        runEvSpec s ++ (if s.hypOk && lossless then ["run_rep_sync 1"] else [])
      else []
    (s', base ++ extra)

end BarterModel.Driver.C10

def main (args : List String) : IO UInt32 :=
  BarterModel.Driver.runMain BarterModel.Driver.C10.model BarterModel.Driver.C10.spec args
