import BarterModel.Driver.EngineCommon
import BarterModel.Model.Audit
/-!
C10 driver: the EngineCommon protocol (`init`, `algo`, `ev ...`) plus
  `rep_dup`   re-deliver the last record to the replica (must be skipped)
  `rep_gap`   deliver a record two ahead of the last applied one (must be rejected)
  `runall sync|async`  the whole history through the run loop and a fresh replica
Every processed event yields one audit record which is fed to the replica.
-/
namespace BarterModel.Driver.C10
open BarterModel.Driver BarterModel.Driver.EngineCommon BarterModel.Engine BarterModel.Orders
open BarterModel.Audit

structure St where
  init : Eng
  eng : EngA
  rep : Replica
  algoC : List CancelReq
  algoO : List OpenReq
  lastTick : Option Tick
  history : List (Event × Ask)
  /-- the replication hypotheses (EventOk, FreshCids) held so far -/
  hypOk : Bool

def emptyEng : Eng := ⟨false, [], [], [], 0⟩
def St.empty : St := ⟨emptyEng, ⟨emptyEng, 0⟩, ⟨emptyEng, 0⟩, [], [], none, [], true⟩

def obsAny (pfx : String) (e : Eng) : List String :=
  ((e.instruments.zipIdx.map fun (s, i) =>
    let l := (s.orders.toArray.qsort (fun a b => a.1 < b.1)).toList
    [ s!"{pfx}ord{i} " ++ joinOr (l.map fun (c, o) => s!"{c}:{fmtActive o.state}"),
      (match s.position with
        | none => s!"{pfx}pos{i} none"
        | some (side, q) => s!"{pfx}pos{i} {fmtSide side}:{fmtRat q}"),
      (match s.price with
        | none => s!"{pfx}price{i} none"
        | some p => s!"{pfx}price{i} {fmtRat p}") ]).flatten) ++
  [ s!"{pfx}trading " ++ (if e.enabled then "on" else "off") ]

/-- what the property demands of the replica's orders: the engine's with in-flight markers set aside -/
def strippedOrders (pfx : String) (e : Eng) : List String :=
  e.instruments.zipIdx.map fun (s, i) =>
    let l := (s.orders.toArray.qsort (fun a b => a.1 < b.1)).toList
    s!"{pfx}ord{i} " ++ joinOr (l.filterMap fun (c, o) =>
      (strip (some o.state)).map fun a => s!"{c}:{fmtActive a}")

def stepName : StepResult → String
  | .applied _ _ => "applied"
  | .skipped => "skipped"
  | .error => "error"
  | .ended => "ended"

def eventOkB : Event → Bool
  | .update (.order _ op) => Op.exchangeReport op
  | _ => true

def freshB (e : Eng) (opens : List OpenReq) : Bool :=
  opens.all fun o => (strip (orderState e o.key.instrument o.key.cid)).isNone

def lastKind (ticks : List Tick) : String :=
  match ticks.getLast? with
  | some (.feedEnded _) => "feed-ended"
  | some (.process _ ev a) => if a.fatal then "fatal" else match ev with | .shutdown => "shutdown" | _ => "other"
  | none => "none"

/-- one `ev`: engine processes, replica is fed the record -/
def stepEv (s : St) (ev : Event) : St × List String :=
  let ask : Ask := ⟨s.algoC, s.algoO, refuse⟩
  let (ea, tick) := processWithAudit s.eng ev ask
  let audit := match tick with | .process _ _ a => a | .feedEnded _ => ⟨none, none, none, false⟩
  let hyp := s.hypOk && eventOkB ev && freshB (preState s.eng.eng ev) (sentOpens audit)
  let (eng', _) := canonCancelOrders ev s.eng.eng ea.eng audit
  let res := s.rep.step tick
  let rep' := match res with | .applied r _ => r | _ => s.rep
  let s' : St := { s with eng := ⟨eng', ea.seq⟩, rep := rep', algoC := [], algoO := [],
                          lastTick := some tick, history := s.history ++ [(ev, ask)], hypOk := hyp }
  (s', [ s!"seq {tick.seq}", "terminal " ++ fmtBool tick.terminal, "rep_step " ++ stepName res,
         s!"rep_seq {rep'.seq}" ] ++ obsAny "" eng' ++ obsAny "rep_" rep'.state ++
       [ "rep_rest_eq 1",
         -- the property evaluated on the model's two states
         "rep_sync " ++ fmtBool (strippedOrders "" eng' == strippedOrders "" rep'.state) ])

def runAll (s : St) : List String :=
  let (ea, ticks) := runWithAudit ⟨s.init, 1⟩ s.history
  let repRes := (Replica.run ⟨s.init, 0⟩ ticks)
  [ "run_seqs " ++ joinOr (ticks.map fun t => toString t.seq),
    "run_terminal " ++ joinOr (ticks.map fun t => fmtBool t.terminal),
    "run_last " ++ lastKind ticks ] ++
  (match repRes with
    | .ok r => [ "run_rep ok" ] ++ obsAny "run_" ea.eng ++ obsAny "run_rep_" r.state
    | .error _ => [ "run_rep err" ] ++ obsAny "run_" ea.eng) ++
  [ "run_rep_rest_eq 1" ]

def model : Drv St where
  init := St.empty
  step s toks :=
    match toks with
    | "init" :: rest =>
      match parseInit rest with
      | some e =>
        -- the snapshot record consumes sequence 0; the replica starts from it
        ({ St.empty with init := e, eng := ⟨e, 1⟩, rep := ⟨e, 0⟩ }, [ "seq 0" ] ++ obsAny "" e)
      | none => (s, ["bad-op"])
    | "algo" :: rs =>
      match parseReqs rs with
      | some (cs, os) => ({ s with algoC := cs, algoO := os }, ["algo-set"])
      | none => (s, ["bad-op"])
    | "ev" :: rest =>
      match resolveEvent s.eng.eng rest with
      | none => (s, ["bad-op"])
      | some ev =>
        let ev := fixExchange s.eng.eng ev
        if !(Event.instrumentsInRange s.eng.eng.instruments.length ev) then
          ({ s with algoC := [], algoO := [] }, ["panic"]) else
        if isNoopFlat s.eng.eng ev then ({ s with algoC := [], algoO := [] }, ["noop"]) else
        stepEv s ev
    | ["rep_dup"] =>
      match s.lastTick with
      | none => (s, ["no-tick"])
      | some t =>
        let res := s.rep.step t
        let rep' := match res with | .applied r _ => r | _ => s.rep
        ({ s with rep := rep' }, [ "rep_step " ++ stepName res, s!"rep_seq {rep'.seq}" ] ++ obsAny "rep_" rep'.state)
    | ["rep_gap"] =>
      match s.lastTick with
      | none => (s, ["no-tick"])
      | some t =>
        let t' := match t with
          | .process _ ev a => Tick.process (s.rep.seq + 2) ev a
          | .feedEnded _ => Tick.feedEnded (s.rep.seq + 2)
        let res := s.rep.step t'
        let rep' := match res with | .applied r _ => r | _ => s.rep
        ({ s with rep := rep' }, [ "rep_step " ++ stepName res, s!"rep_seq {rep'.seq}" ] ++ obsAny "rep_" rep'.state)
    | ["runall", _] => (s, runAll s)
    | _ => (s, ["bad-op"])

/-- Spec view: sequence numbers, terminal flags, what the replica does with each record, and the
replica's state as the property demands it — trading / position / price equal to the engine's, orders
equal to the engine's once in-flight markers are set aside (silent on orders once a replication
hypothesis failed), everything else equal (`rep_rest_eq 1`). -/
def spec : Drv St where
  init := St.empty
  step s toks :=
    let (s', lines) := model.step s toks
    let keep := fun (l : String) =>
      ["seq", "terminal", "rep_step", "rep_seq", "rep_rest_eq", "run_seqs", "run_terminal", "run_last",
       "run_rep ", "run_rep_rest_eq", "panic", "bad-op", "noop"].any (fun k => l.startsWith k)
    let base := lines.filter keep
    let isEv := toks.head? == some "ev" && base.any (fun l => l.startsWith "seq")
    let extra :=
      if isEv then
        -- replica = engine on trading / position / price; orders stripped
        ((obsAny "rep_" s'.eng.eng).filter fun l => !(l.startsWith "rep_ord")) ++
        (if s'.hypOk then strippedOrders "rep_" s'.eng.eng ++ ["rep_sync 1"] else [])
      else []
    (s', base ++ extra)

end BarterModel.Driver.C10

def main (args : List String) : IO UInt32 :=
  BarterModel.Driver.runMain BarterModel.Driver.C10.model BarterModel.Driver.C10.spec args
