import BarterModel.Driver.Common
import BarterModel.Model.Connectivity
/-! Line-protocol driver for C14. Ops: `init n [on]` (n ≤ 10; `on` = trading enabled, which connectivity does
not depend on), `mkt e [trade|l1|book|candle|liq]`, `acc e [trade|bal|snap|ord|canc]` (the kind of the item:
every kind is an item of its link), `mktre e`, `accre e`.
Configuration shapes: `init n <on|off> <kinds> <links> <via>` (six tokens) - `kinds` a non-empty string over
`s p f o` (instrument kinds), `links` a non-empty string over `H C M U` (execution link per exchange label:
healthy / closed / missing / refusing), `via` one of `proc audit state` (Engine::process / process_with_audit /
EngineState::update_from_* directly). Connectivity depends on none of them: they only select how the real
engine is assembled and fed. -/
namespace BarterModel.Driver.C14
open BarterModel.Driver BarterModel.Conn

def h2s : Health → String
  | .healthy => "H"
  | .reconnecting => "R"

def obs (global : Health) (links : List CState) (disc : List Nat) : List String :=
  [ "global " ++ h2s global,
    "links " ++ " ".intercalate (links.map fun c => h2s c.marketData ++ h2s c.account),
    "disc " ++ " ".intercalate (disc.map toString) ]

def marketKinds : List String := ["trade", "l1", "book", "candle", "liq"]
def accountKinds : List String := ["trade", "bal", "snap", "ord", "canc"]

/-- non-empty and every character from `alphabet` -/
def overAlphabet (alphabet : String) (s : String) : Bool :=
  !s.isEmpty && s.toList.all fun c => alphabet.toList.contains c

/-- `init n` / `init n on` / `init n <on|off> <kinds> <links> <via>`, `n ≤ 10` (the harness has ten exchange labels). -/
def parseInit : List String → Option Nat
  | ["init", n] => n.toNat?.bind fun n => if n ≤ 10 then some n else none
  | ["init", n, "on"] => n.toNat?.bind fun n => if n ≤ 10 then some n else none
  | ["init", n, tr, kinds, links, via] =>
    if (tr == "on" || tr == "off") && overAlphabet "spfo" kinds && overAlphabet "HCMU" links
        && (via == "proc" || via == "audit" || via == "state") then
      n.toNat?.bind fun n => if n ≤ 10 then some n else none
    else none
  | _ => none

def parseEv : List String → Option Ev
  | ["mkt", e] => e.toNat?.map .marketItem
  | ["acc", e] => e.toNat?.map .accountItem
  | ["mkt", e, k] => if marketKinds.contains k then e.toNat?.map .marketItem else none
  | ["acc", e, k] => if accountKinds.contains k then e.toNat?.map .accountItem else none
  | ["mktre", e] => e.toNat?.map .marketReconnecting
  | ["accre", e] => e.toNat?.map .accountReconnecting
  | _ => none

def model : Drv Eng where
  init := Eng.init 0
  step s toks :=
    match toks with
    | "init" :: _ =>
      match parseInit toks with
      | some n => let s' := Eng.init n; (s', obs s'.conn.global s'.conn.exchanges s'.disconnects)
      | none => (s, ["bad-op"])
    | _ =>
      match parseEv toks with
      | some ev =>
        if ev.exchange < s.conn.exchanges.length then
          let s' := s.step ev
          (s', obs s'.conn.global s'.conn.exchanges s'.disconnects)
        else (s, ["panic"])
      | none => (s, ["bad-op"])

structure SpecSt where
  n : Nat
  evs : List Ev

def spec : Drv SpecSt where
  init := ⟨0, []⟩
  step s toks :=
    let out (s : SpecSt) :=
      obs (specGlobal s.n s.evs)
        ((List.range s.n).map fun e => ⟨specMarket e s.evs, specAccount e s.evs⟩)
        (specDisconnects s.evs)
    match toks with
    | "init" :: _ =>
      match parseInit toks with
      | some n => let s' : SpecSt := ⟨n, []⟩; (s', out s')
      | none => (s, ["bad-op"])
    | _ =>
      match parseEv toks with
      | some ev =>
        if ev.exchange < s.n then
          let s' : SpecSt := ⟨s.n, s.evs ++ [ev]⟩
          (s', out s')
        else (s, ["panic"])
      | none => (s, ["bad-op"])

end BarterModel.Driver.C14

def main (args : List String) : IO UInt32 :=
  BarterModel.Driver.runMain BarterModel.Driver.C14.model BarterModel.Driver.C14.spec args
