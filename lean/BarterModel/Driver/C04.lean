import BarterModel.Driver.Common
import BarterModel.Model.ExecMap
/-!
Line-protocol driver for C04.

Ops (`e` = exchange id of the execution link the op is executed on):
  `build D <n> {ex instInternal instName baseInternal baseName quoteInternal quoteName}*
         [E <m> {defPos kind assetInternal assetName}*]
         X <n> {key id}* A <n> {key ex name}* I <n> {key ex name}*`
        (`E`: definition `defPos` is a perpetual / future / option with that settlement asset
        (kind 1 / 2 / 3) or a spot instrument whose spec has that asset as quantity unit (kind 4): an
        asset of the exchange that need not be any instrument's base or quote)
        the instrument definitions fed to the real builder (skipped by the model: indexing is C11)
        and the indexed collection the builder produced from them (printed by both sides: the
        harness prints what the real builder returns, so a stale table is a disagreement)
  `tamper (X|A|I) <pos> <key>`
        overwrite the key of one entry (a collection outside `Indexed`; the spec is silent)
  `map e` | `fexid e x` | `fexix e id` | `fan e a` | `fai e name` | `fin e i` | `fii e name`
  `oreq e <exIdx> <instIdx> <cid> (open|cancel) <p>` | `okey e <exId> <name> <cid>`
  `bal e <name> <p>` | `trade e <name> <p>` | `ev e <event>` | `mgr e (open|cancel) <exIdx> <instIdx> <cid> <p>`
  `route <n> <e>*n (open|cancel) <exIdx> <instIdx> <cid> <p>`
        end to end: a fresh `ExecutionBuilder` over the collection, `add_live` for the `n` exchange
        ids in this order, `build()` + `init()`, then the request is sent through
        `execution_txs.find(&ExchangeIndex(exIdx))`. Observations: `txmap id:0|1 …` (the slots),
        `r ok|err|panic|builderr <kind>|buildpanic`, `delivered <number of client calls>`,
        `client <receiving client's exchange id> <request>`, `mpanic <exchange id of the manager
        that panicked>`, `resp <engine key of the echoed answer>|filtered`
  `sroute <n> <e>*n`
        configuration-shape family (`cfg` cases): the same builder, but every live client answers
        `account_snapshot` with one balance per asset name and one (order-less) instrument entry per
        instrument name it was ASKED about (amount = 1000 * its exchange id + position + 1), and the
        names handed to `account_snapshot` / `account_stream` are recorded. Observations: `txmap …`,
        `r ok|initerr|builderr <kind>|buildpanic`, and per linked exchange `id` in slot order
        `asked<id> A <names> I <names>`, `asks<id> A <names> I <names>` (the two calls),
        `snap<id> <event exchange index> <snapshot exchange index> B <asset index>:<amount>* I <instrument index>*`
        (the indexed initial snapshot that arrived on the merged account channel)
Event grammar (prefix, counts before lists):
  event := exId kind ; kind := S snap | B bal | O order | C cresp | T trade
  snap := exId nb bal* ni (inst no order*)* ; bal := asset p ; trade := inst p
  order := key p state ; key := exId inst cid ; cresp := key (ok p | err oerr)
  state := act p | canc p | full | exp | fail oerr ; oerr := conn | rej api
  api := rate | ainv a | iinv i | bins a | orej | acanc | afill
-/
namespace BarterModel.Driver.C04
open BarterModel.Driver BarterModel.ExecMap

abbrev P (α : Type) := List String → Option (α × List String)

def pNat : P Nat
  | t :: ts => t.toNat?.map (·, ts)
  | [] => none

def pRep {α : Type} (p : P α) : Nat → P (List α)
  | 0 => fun ts => some ([], ts)
  | n + 1 => fun ts =>
    match p ts with
    | none => none
    | some (x, ts) =>
      match pRep p n ts with
      | none => none
      | some (xs, ts) => some (x :: xs, ts)

def pList {α : Type} (p : P α) : P (List α) := fun ts =>
  match pNat ts with
  | none => none
  | some (n, ts) => pRep p n ts

def pApi : P (ApiErr Nat Nat)
  | "rate" :: ts => some (.rateLimit, ts)
  | "ainv" :: ts => (pNat ts).map fun (a, ts) => (.assetInvalid a, ts)
  | "iinv" :: ts => (pNat ts).map fun (a, ts) => (.instrumentInvalid a, ts)
  | "bins" :: ts => (pNat ts).map fun (a, ts) => (.balanceInsufficient a, ts)
  | "orej" :: ts => some (.orderRejected, ts)
  | "acanc" :: ts => some (.orderAlreadyCancelled, ts)
  | "afill" :: ts => some (.orderAlreadyFullyFilled, ts)
  | _ => none

def pOErr : P (OrderErr Nat Nat)
  | "conn" :: ts => some (.connectivity, ts)
  | "rej" :: ts => (pApi ts).map fun (e, ts) => (.rejected e, ts)
  | _ => none

def pKey : P (OKey Nat Nat)
  | e :: i :: c :: ts =>
    match e.toNat?, i.toNat?, c.toNat? with
    | some e, some i, some c => some ({ exchange := e, instrument := i, cid := c }, ts)
    | _, _, _ => none
  | _ => none

def pState : P (OState Nat Nat)
  | "act" :: ts => (pNat ts).map fun (p, ts) => (.active p, ts)
  | "canc" :: ts => (pNat ts).map fun (p, ts) => (.cancelled p, ts)
  | "full" :: ts => some (.fullyFilled, ts)
  | "exp" :: ts => some (.expired, ts)
  | "fail" :: ts => (pOErr ts).map fun (e, ts) => (.openFailed e, ts)
  | _ => none

def pOrder : P (OrderSnap Nat Nat Nat) := fun ts =>
  match pKey ts with
  | none => none
  | some (k, ts) =>
    match pNat ts with
    | none => none
    | some (p, ts) =>
      match pState ts with
      | none => none
      | some (s, ts) => some ({ key := k, payload := p, state := s }, ts)

def pCResp : P (CancelResp Nat Nat Nat) := fun ts =>
  match pKey ts with
  | none => none
  | some (k, ts) =>
    match ts with
    | "ok" :: ts => (pNat ts).map fun (p, ts) => ({ key := k, state := .ok p }, ts)
    | "err" :: ts => (pOErr ts).map fun (e, ts) => ({ key := k, state := .error e }, ts)
    | _ => none

def pTrade : P (Trade Nat)
  | i :: p :: ts =>
    match i.toNat?, p.toNat? with
    | some i, some p => some ({ instrument := i, payload := p }, ts)
    | _, _ => none
  | _ => none

def pBal : P (Bal Nat)
  | a :: p :: ts =>
    match a.toNat?, p.toNat? with
    | some a, some p => some ({ asset := a, payload := p }, ts)
    | _, _ => none
  | _ => none

def pInstrSnap : P (InstrSnap Nat Nat Nat) := fun ts =>
  match pNat ts with
  | none => none
  | some (i, ts) => (pList pOrder ts).map fun (os, ts) => ({ instrument := i, orders := os }, ts)

def pSnap : P (AccSnap Nat Nat Nat) := fun ts =>
  match pNat ts with
  | none => none
  | some (e, ts) =>
    match pList pBal ts with
    | none => none
    | some (bs, ts) =>
      (pList pInstrSnap ts).map fun (is, ts) => ({ exchange := e, balances := bs, instruments := is }, ts)

def pKind : P (AEKind Nat Nat Nat)
  | "S" :: ts => (pSnap ts).map fun (x, ts) => (.snapshot x, ts)
  | "B" :: ts => (pBal ts).map fun (x, ts) => (.balanceSnapshot x, ts)
  | "O" :: ts => (pOrder ts).map fun (x, ts) => (.orderSnapshot x, ts)
  | "C" :: ts => (pCResp ts).map fun (x, ts) => (.orderCancelled x, ts)
  | "T" :: ts => (pTrade ts).map fun (x, ts) => (.trade x, ts)
  | _ => none

def pEvent : P (AccEvent Nat Nat Nat) := fun ts =>
  match pNat ts with
  | none => none
  | some (e, ts) => (pKind ts).map fun (k, ts) => ({ exchange := e, kind := k }, ts)

/-- a parser must consume the whole line -/
def full {α : Type} (p : P α) (ts : List String) : Option α :=
  match p ts with
  | some (x, []) => some x
  | _ => none

/-! printers (token lists) -/

def sApi : ApiErr Nat Nat → List String
  | .rateLimit => ["rate"]
  | .assetInvalid a => ["ainv", toString a]
  | .instrumentInvalid i => ["iinv", toString i]
  | .balanceInsufficient a => ["bins", toString a]
  | .orderRejected => ["orej"]
  | .orderAlreadyCancelled => ["acanc"]
  | .orderAlreadyFullyFilled => ["afill"]

def sOErr : OrderErr Nat Nat → List String
  | .connectivity => ["conn"]
  | .rejected e => "rej" :: sApi e

def sKey (k : OKey Nat Nat) : List String := [toString k.exchange, toString k.instrument, toString k.cid]

def sState : OState Nat Nat → List String
  | .active p => ["act", toString p]
  | .cancelled p => ["canc", toString p]
  | .fullyFilled => ["full"]
  | .expired => ["exp"]
  | .openFailed e => "fail" :: sOErr e

def sOrder (o : OrderSnap Nat Nat Nat) : List String := sKey o.key ++ [toString o.payload] ++ sState o.state

def sCResp (r : CancelResp Nat Nat Nat) : List String :=
  sKey r.key ++ (match r.state with | .ok p => ["ok", toString p] | .error e => "err" :: sOErr e)

def sTrade (t : Trade Nat) : List String := [toString t.instrument, toString t.payload]
def sBal (b : Bal Nat) : List String := [toString b.asset, toString b.payload]

def sList {α : Type} (f : α → List String) (l : List α) : List String :=
  toString l.length :: (l.map f).flatten

def sInstrSnap (s : InstrSnap Nat Nat Nat) : List String := toString s.instrument :: sList sOrder s.orders

def sSnap (s : AccSnap Nat Nat Nat) : List String :=
  toString s.exchange :: (sList sBal s.balances ++ sList sInstrSnap s.instruments)

def sKind : AEKind Nat Nat Nat → List String
  | .snapshot s => "S" :: sSnap s
  | .balanceSnapshot b => "B" :: sBal b
  | .orderSnapshot o => "O" :: sOrder o
  | .orderCancelled r => "C" :: sCResp r
  | .trade t => "T" :: sTrade t

def sEvent (ev : AccEvent Nat Nat Nat) : List String := toString ev.exchange :: sKind ev.kind

def sOEvent (kind : String) (o : OEvent Nat Nat) : List String := sKey o.key ++ [kind, toString o.state]

def line (ts : List String) : String := " ".intercalate ts

def sKeyErr : KeyError → String
  | .exchangeId => "ExchangeId"
  | .assetKey => "AssetKey"
  | .instrumentKey => "InstrumentKey"

def sIdxErr : IndexError → String
  | .exchangeIndex => "ExchangeIndex"
  | .assetIndex => "AssetIndex"
  | .instrumentIndex => "InstrumentIndex"

/-- `r ok …` + nothing, or `r err` + `kind <error variant>` -/
def resK {α : Type} (f : α → List String) : Except KeyError α → List String
  | .ok x => [line ("r" :: "ok" :: f x)]
  | .error e => ["r err", "kind " ++ sKeyErr e]

def resI {α : Type} (f : α → List String) : Except IndexError α → List String
  | .ok x => [line ("r" :: "ok" :: f x)]
  | .error e => ["r err", "kind " ++ sIdxErr e]

def resO {α : Type} (f : α → List String) : Option α → List String
  | some x => [line ("r" :: "ok" :: f x)]
  | none => ["r err"]

def backI : Except IndexError Nat → String
  | .ok i => s!"back ok {i}"
  | .error _ => "back err"

def backK : Except KeyError Nat → String
  | .ok i => s!"back ok {i}"
  | .error _ => "back err"

def sPairs (l : List (Nat × Nat)) : List String := l.map fun (k, v) => s!"{k}:{v}"

/-! parsing the `build` op -/

def pTriples : P (List (Nat × Nat × Nat)) :=
  pList fun
    | a :: b :: c :: ts =>
      match a.toNat?, b.toNat?, c.toNat? with
      | some a, some b, some c => some ((a, b, c), ts)
      | _, _, _ => none
    | _ => none

def pPairs : P (List (Nat × Nat)) :=
  pList fun
    | a :: b :: ts =>
      match a.toNat?, b.toNat? with
      | some a, some b => some ((a, b), ts)
      | _, _ => none
    | _ => none

/-- the definitions the real builder is fed: skipped (indexing is C11), but must be well-formed -/
def pDefs : P Unit
  | "D" :: ts =>
    match pNat ts with
    | some (n, ts) =>
      match pRep pNat (7 * n) ts with
      | some (_, "E" :: ts) =>
        -- extra assets (settlement asset / quantity unit): {definition position, kind 1..4, internal
        -- name, exchange name}; one per definition at most
        match pList (pRep pNat 4) ts with
        | some (es, ts) =>
          if es.all (fun e => e[0]! < n && 1 ≤ e[1]! && e[1]! ≤ 4) && (es.map (·[0]!)).Nodup
          then some ((), ts) else none
        | none => none
      | some (_, ts) => some ((), ts)
      | none => none
    | none => none
  | _ => none

def pTables : P Coll
  | "X" :: ts =>
    match pPairs ts with
    | some (xs, "A" :: ts) =>
      match pTriples ts with
      | some (as, "I" :: ts) =>
        (pTriples ts).map fun (is, ts) =>
          ({ exchanges := xs.map fun (k, id) => ⟨k, id⟩
             assets := as.map fun (k, e, n) => ⟨k, e, n⟩
             instruments := is.map fun (k, e, n) => ⟨k, e, n⟩ }, ts)
      | _ => none
    | _ => none
  | _ => none

def pColl : P Coll := fun ts =>
  match pDefs ts with
  | some (_, ts) => pTables ts
  | none => none

def collLines (c : Coll) : List String :=
  [ line ("exchanges" :: c.exchanges.map fun k => s!"{k.key}:{k.id}"),
    line ("assets" :: c.assets.map fun k => s!"{k.key}:{k.exchange}:{k.nameExchange}"),
    line ("instruments" :: c.instruments.map fun k => s!"{k.key}:{k.exchange}:{k.nameExchange}") ]

/-! ## model driver -/

def modelQuery (c : Coll) (op : String) (e : Nat) (rest : List String) : List String :=
  match genMap c e with
  | .error _ => ["r nomap"]
  | .ok m =>
    match op, rest with
    | "map", [] =>
      [ s!"r ok {m.exchange.key} {m.exchange.id}",
        line ("massets" :: sPairs m.assets),
        line ("minstruments" :: sPairs m.instruments),
        line ("xassets" :: m.exchangeAssets.map toString),
        line ("xinstruments" :: m.exchangeInstruments.map toString) ]
    | "fexid", [x] =>
      match x.toNat? with
      | some x => resK (fun id => [toString id]) (m.findExchangeId x)
      | none => ["bad-op"]
    | "fexix", [x] =>
      match x.toNat? with
      | some x => resI (fun id => [toString id]) (m.findExchangeIndex x)
      | none => ["bad-op"]
    | "fan", [x] =>
      match x.toNat? with
      | some x =>
        let r := m.findAssetName x
        resK (fun n => [toString n]) r ++
          (match r with | .ok n => [backI (m.findAssetIndex n)] | _ => [])
      | none => ["bad-op"]
    | "fin", [x] =>
      match x.toNat? with
      | some x =>
        let r := m.findInstrumentName x
        resK (fun n => [toString n]) r ++
          (match r with | .ok n => [backI (m.findInstrumentIndex n)] | _ => [])
      | none => ["bad-op"]
    | "fai", [x] =>
      match x.toNat? with
      | some x =>
        let r := m.findAssetIndex x
        resI (fun n => [toString n]) r ++
          (match r with | .ok n => [backK (m.findAssetName n)] | _ => [])
      | none => ["bad-op"]
    | "fii", [x] =>
      match x.toNat? with
      | some x =>
        let r := m.findInstrumentIndex x
        resI (fun n => [toString n]) r ++
          (match r with | .ok n => [backK (m.findInstrumentName n)] | _ => [])
      | none => ["bad-op"]
    | "oreq", [x, i, cid, kind, p] =>
      match x.toNat?, i.toNat?, cid.toNat?, p.toNat? with
      | some x, some i, some cid, some p =>
        if kind == "open" || kind == "cancel" then
          resK (sOEvent kind) (orderRequest m { key := { exchange := x, instrument := i, cid := cid }, state := p })
        else ["bad-op"]
      | _, _, _, _ => ["bad-op"]
    | "okey", _ =>
      match full pKey rest with
      | some k => resI sKey (orderKey m k)
      | none => ["bad-op"]
    | "bal", _ =>
      match full pBal rest with
      | some b => resI sBal (assetBalance m b)
      | none => ["bad-op"]
    | "trade", _ =>
      match full pTrade rest with
      | some t => resI sTrade (trade m t)
      | none => ["bad-op"]
    | "ev", _ =>
      match full pEvent rest with
      | some ev => resI sEvent (accountEvent m ev)
      | none => ["bad-op"]
    | "mgr", [kind, x, i, cid, p] =>
      match x.toNat?, i.toNat?, cid.toNat?, p.toNat? with
      | some x, some i, some cid, some p =>
        if kind == "open" || kind == "cancel" then
          match managerClientRequest m { key := { exchange := x, instrument := i, cid := cid }, state := p } with
          | none => ["r panic"]
          | some req =>
            -- the stub client echoes the key of the request it received
            [ "r ok", line ("client" :: sOEvent kind req),
              line ("resp" :: (match managerResponseKey m req.key with
                               | some k => sKey k
                               | none => ["filtered"])) ]
        else ["bad-op"]
      | _, _, _, _ => ["bad-op"]
    | _, _ => ["bad-op"]

/-! the `route` op -/

structure RouteOp where
  adds : List Nat
  kind : String
  o : OEvent Nat Nat

def pRouteOp (ts : List String) : Option RouteOp :=
  match pList pNat ts with
  | some (adds, [kind, x, i, cid, p]) =>
    match x.toNat?, i.toNat?, cid.toNat?, p.toNat? with
    | some x, some i, some cid, some p =>
      if kind == "open" || kind == "cancel" then
        some { adds := adds, kind := kind, o := { key := { exchange := x, instrument := i, cid := cid }, state := p } }
      else none
    | _, _, _, _ => none
  | _ => none

def routedLines (kind : String) (r : Routed) (resp : List String) : List String :=
  match r with
  | .noTx => ["r err", "delivered 0"]
  | .managerPanic who => ["r panic", "delivered 0", s!"mpanic {who}"]
  | .delivered who req =>
    ["r ok", "delivered 1", line ("client" :: toString who :: sOEvent kind req)] ++ resp

def modelRoute (c : Coll) (rest : List String) : List String :=
  match pRouteOp rest with
  | none => ["bad-op"]
  | some op =>
    match buildExecution c op.adds with
    | .error .index => ["r builderr index"]
    | .error .duplicate => ["r builderr duplicate"]
    | .ok none => ["r buildpanic"]
    | .ok (some t) =>
      line ("txmap" :: t.map fun s => s!"{s.1}:{if s.2.isSome then 1 else 0}") ::
        routedLines op.kind (route t op.o)
          [line ("resp" :: (match routeResponse t op.o with
                            | some k => sKey k
                            | none => ["filtered"]))]


/-! the `sroute` op (configuration shapes: clients with a non-empty initial account state; which
names every client is asked about at `ExecutionManager::init`, manager.rs:97-121) -/

def askedToks (as is : List Nat) : List String :=
  "A" :: as.map toString ++ "I" :: is.map toString

/-- What the recording client of link `l` answers: one balance per asked asset name, one
instrument entry per asked instrument name. -/
def stubSnapshot (id : Nat) (as is : List Nat) : AccSnap Nat Nat Nat :=
  { exchange := id
    balances := as.zipIdx.map fun (n, k) => { asset := n, payload := 1000 * id + k + 1 }
    instruments := is.map fun n => { instrument := n, orders := [] } }

def snapToks (s : AccSnap Nat Nat Nat) : List String :=
  toString s.exchange :: "B" :: s.balances.map (fun b => s!"{b.asset}:{b.payload}") ++
    "I" :: s.instruments.map (fun i => toString i.instrument)

def modelLinkLines (l : Link) : Option (List String) :=
  let m := l.map
  let (as, is) := (m.exchangeAssets, m.exchangeInstruments)
  match snapshot m (stubSnapshot l.client as is) with
  | .error _ => none
  | .ok s =>
    some [ line (s!"asked{l.client}" :: askedToks as is),
           line (s!"asks{l.client}" :: askedToks as is),
           line (s!"snap{l.client}" :: toString m.exchange.key :: snapToks s) ]

def modelSnapRoute (c : Coll) (rest : List String) : List String :=
  match full (pList pNat) rest with
  | none => ["bad-op"]
  | some adds =>
    match buildExecution c adds with
    | .error .index => ["r builderr index"]
    | .error .duplicate => ["r builderr duplicate"]
    | .ok none => ["r buildpanic"]
    | .ok (some t) =>
      let links := t.filterMap (·.2)
      match mapO modelLinkLines links with
      | none => ["r initerr"]
      | some ls =>
        line ("txmap" :: t.map fun s => s!"{s.1}:{if s.2.isSome then 1 else 0}") :: "r ok" :: ls.flatten

def queryOps : List String :=
  ["map", "fexid", "fexix", "fan", "fai", "fin", "fii", "oreq", "okey", "bal", "trade", "ev", "mgr"]

def step (query : Coll → String → Nat → List String → List String)
    (routeQ : Coll → List String → List String) (buildOut : Coll → List String)
    (snapQ : Coll → List String → List String)
    (s : Option Coll) (toks : List String) : Option Coll × List String :=
  match toks with
  | "sroute" :: rest =>
    match s with
    | some c => (s, snapQ c rest)
    | none => (s, ["bad-op"])
  | "route" :: rest =>
    match s with
    | some c => (s, routeQ c rest)
    | none => (s, ["bad-op"])
  | "build" :: rest =>
    match full pColl rest with
    | some c => (some c, buildOut c)
    | none => (s, ["bad-op"])
  | ["tamper", f, pos, key] =>
    match s, pos.toNat?, key.toNat? with
    | some c, some pos, some key =>
      let (c', ok) : Coll × Bool :=
        match f with
        | "X" => ({ c with exchanges := c.exchanges.modify pos fun k => { k with key := key } }, pos < c.exchanges.length)
        | "A" => ({ c with assets := c.assets.modify pos fun k => { k with key := key } }, pos < c.assets.length)
        | "I" => ({ c with instruments := c.instruments.modify pos fun k => { k with key := key } }, pos < c.instruments.length)
        | _ => (c, false)
      if f == "X" || f == "A" || f == "I" then
        (some c', (if ok then [] else ["nopos"]) ++ buildOut c')
      else (s, ["bad-op"])
    | _, _, _ => (s, ["bad-op"])
  | op :: e :: rest =>
    if queryOps.contains op then
      match s, e.toNat? with
      | some c, some e => (s, query c op e rest)
      | _, _ => (s, ["bad-op"])
    else (s, ["bad-op"])
  | _ => (s, ["bad-op"])

def model : Drv (Option Coll) where
  init := none
  step := step modelQuery modelRoute collLines modelSnapRoute

/-! ## spec driver: prints only `r`, `back`, `massets`, `minstruments`, `client`, `resp`, and only
when the collection is well-formed for the queried exchange (otherwise the property does not
constrain the link). Uses only the `spec*` definitions of `Model/ExecMap.lean`. -/

def specQuery (c : Coll) (op : String) (e : Nat) (rest : List String) : List String :=
  if !specHasLink c e then ["r nomap"] else
  if !decide (WF c e) then [] else
  match op, rest with
  | "map", [] =>
    [ line ("r" :: "ok" :: (match specExchangeIndex c e e with | some x => [toString x] | none => ["?"]) ++ [toString e]),
      line ("massets" :: sPairs (specAssetTable c e)),
      line ("minstruments" :: sPairs (specInstrumentTable c e)) ]
  | "fexid", [x] =>
    match x.toNat? with
    | some x => resO (fun id => [toString id]) (specExchangeId c e x)
    | none => ["bad-op"]
  | "fexix", [x] =>
    match x.toNat? with
    | some x => resO (fun id => [toString id]) (specExchangeIndex c e x)
    | none => ["bad-op"]
  | "fan", [x] =>
    match x.toNat? with
    | some x =>
      -- translating there and back yields the original index
      match specAssetName c e x with
      | some n => [s!"r ok {n}", s!"back ok {x}"]
      | none => ["r err"]
    | none => ["bad-op"]
  | "fin", [x] =>
    match x.toNat? with
    | some x =>
      match specInstrumentName c e x with
      | some n => [s!"r ok {n}", s!"back ok {x}"]
      | none => ["r err"]
    | none => ["bad-op"]
  | "fai", [x] =>
    match x.toNat? with
    | some x =>
      match specAssetIndex c e x with
      | some a => [s!"r ok {a}", s!"back ok {x}"]
      | none => ["r err"]
    | none => ["bad-op"]
  | "fii", [x] =>
    match x.toNat? with
    | some x =>
      match specInstrumentIndex c e x with
      | some i => [s!"r ok {i}", s!"back ok {x}"]
      | none => ["r err"]
    | none => ["bad-op"]
  | "oreq", [x, i, cid, kind, p] =>
    match x.toNat?, i.toNat?, cid.toNat?, p.toNat? with
    | some x, some i, some cid, some p =>
      resO (sOEvent kind) (specOrderRequest c e { key := { exchange := x, instrument := i, cid := cid }, state := p })
    | _, _, _, _ => ["bad-op"]
  | "okey", _ =>
    match full pKey rest with
    | some k => resO sKey (specOrderKey c e k)
    | none => ["bad-op"]
  | "bal", _ =>
    match full pBal rest with
    | some b => resO sBal (b.traverse (specAssetIndex c e))
    | none => ["bad-op"]
  | "trade", _ =>
    match full pTrade rest with
    | some t => resO sTrade (t.traverse (specInstrumentIndex c e))
    | none => ["bad-op"]
  | "ev", _ =>
    match full pEvent rest with
    | some ev => resO sEvent (specAccountEvent c e ev)
    | none => ["bad-op"]
  | "mgr", [kind, x, i, cid, p] =>
    match x.toNat?, i.toNat?, cid.toNat?, p.toNat? with
    | some x, some i, some cid, some p =>
      let o : OEvent Nat Nat := { key := { exchange := x, instrument := i, cid := cid }, state := p }
      match specOrderRequest c e o with
      | none => ["r panic"]
      | some req =>
        -- the client is addressed with the instrument's exchange name; its (echoed) answer is
        -- attributed to the original engine indices
        ["r ok", line ("client" :: sOEvent kind req), line ("resp" :: sKey o.key)]
    | _, _, _, _ => ["bad-op"]
  | _, _ => ["bad-op"]

/-- The `route` op from the property text: the set of exchanges with a link (`adds`, when it is a
duplicate-free selection of the collection's exchanges — otherwise the builder refuses and the
property says nothing), the exchange at the request's exchange index, the instrument at its
instrument index. Own client + own names, or an error and nothing delivered. The answer is
attributed to the request's own engine key (when names on that exchange are unambiguous). -/
def specRouteQ (c : Coll) (rest : List String) : List String :=
  match pRouteOp rest with
  | none => ["bad-op"]
  | some op =>
    if !(decide (WFX c) && decide op.adds.Nodup && op.adds.all (specHasLink c)) then [] else
    match specRoute c op.adds op.o with
    | .delivered who req =>
      routedLines op.kind (.delivered who req)
        (if decide (WF c who) then [line ("resp" :: sKey op.o.key)] else [])
    | r => routedLines op.kind r []

/-- The `sroute` op from the property text ("for every exchange's execution link … only indices
belonging to that exchange translate at all … every account event is applied to the instrument and
asset it names"): every linked exchange's client is asked about exactly the assets and instruments
of its own exchange (by their exchange names, in index order), and the initial snapshot it answers
with arrives addressed to that exchange's index and to exactly those assets' / instruments' indices.
Written directly over the collection. -/
def specSnapRouteQ (c : Coll) (rest : List String) : List String :=
  match full (pList pNat) rest with
  | none => ["bad-op"]
  | some adds =>
    if !(decide (WFX c) && decide adds.Nodup && adds.all (specHasLink c)) then [] else
    "r ok" :: ((c.exchanges.filter fun k => adds.contains k.id).map fun k =>
      if !decide (WF c k.id) then [] else
      let as := c.assets.filter (·.exchange == k.id)
      let is := c.instruments.filter (·.exchange == k.id)
      let asked := askedToks (as.map (·.nameExchange)) (is.map (·.nameExchange))
      [ line (s!"asked{k.id}" :: asked),
        line (s!"asks{k.id}" :: asked),
        line (s!"snap{k.id}" :: toString k.key :: toString k.key :: "B" ::
          as.zipIdx.map (fun (a, j) => s!"{a.key}:{1000 * k.id + j + 1}") ++
          "I" :: is.map (fun i => toString i.key)) ]).flatten

def spec : Drv (Option Coll) where
  init := none
  step := step specQuery specRouteQ (fun _ => []) specSnapRouteQ

end BarterModel.Driver.C04

def main (args : List String) : IO UInt32 :=
  BarterModel.Driver.runMain BarterModel.Driver.C04.model BarterModel.Driver.C04.spec args
