import BarterModel.Driver.Common
import BarterModel.Model.Collections
/-!
Line-protocol driver for C03N (NoneOneOrMany / OneOrMany and their use in audits / action outputs).

Registers: `n` (NoneOneOrMany<i64>), `o` (OneOrMany<i64>), `a` (ProcessAudit).
Ops (ints are `i64`, `<raw>` is `none | one x | many x*`, `<oraw>` is `one x | many x*`):
  n.raw <raw> | n.vec x* | n.iter x* | n.opt [x] | n.default | n.ext x* | n.extn <raw> | n.map k | n.mut k
  n.has x | n.cmp <raw>
  o.raw <oraw> | o.item x | o.default | o.vec x* | o.iter x* | o.ext x* | o.exto <oraw> | o.map k | o.mut k
  o.fromn | o.has x | o.cmp <oraw>
  a.event t | a.out t <out> | a.oe t <out> e* | a.ts t [d] | a.acc t kind d | a.mkt t [d]
  a.addout <out> | a.adderr e* | a.wpe e* | a.feedended          (<out> is td:d | ad:d | px:d | md:d)
  act.c res* | act.o res* | act.x res* / res* | act.g res* / res* / rc ro   (res is s<id> | r<id> | u<id>)
  eng on|off <ev> [req*] / req* / req*     (ev: shutdown cmdc cmdo cmdk ts_on ts_off mkt mktre accre; req is ex:cid,
                                           exchanges 1 and 2 have a dead link; the groups are the event's own
                                           requests / the algo cancels / the algo opens; `mkt` is an ACCOUNT
                                           balance item (historical op name); `cmdk` = Command::CancelOrders, its
                                           group = the tracked open orders, sorted by exchange, pairwise distinct)
  eng on|off cmdx req* / req* / req* / req*   (Command::ClosePositions: the strategy's cancels / its opens / the algo
                                           cancels / the algo opens)
  engl <links> <order> on|off ...          the same call as `eng` on an engine assembled differently: <links> = three
                                           letters by exchange label (H healthy, C closed, M no transmitter: C and M are
                                           dead), <order> = a permutation of 012 (the order in which the exchanges were
                                           added to IndexedInstruments; observations are in label space, the model does
                                           not depend on it). `eng` = `engl HCC 012`.
`n.map k`, `n.mut k`, `o.map k`, `o.mut k` are `bad-op` when an item + k leaves i64 (the closure is the harness's).
-/
namespace BarterModel.Driver.C03N
open BarterModel.Driver BarterModel.Collections

def ints (l : List Int) : String := " ".intercalate (l.map toString)
def nats (l : List Nat) : String := " ".intercalate (l.map toString)
def sortInts (l : List Int) : List Int := l.mergeSort (fun a b => decide (a ≤ b))
def sortNats (l : List Nat) : List Nat := l.mergeSort (fun a b => decide (a ≤ b))

def line (key : String) (rest : String) : String := if rest.isEmpty then key else key ++ " " ++ rest

def parseInts (toks : List String) : Option (List Int) := toks.mapM String.toInt?

def parseRaw : List String → Option (NOM Int)
  | ["none"] => some .none
  | ["one", x] => x.toInt?.map .one
  | "many" :: xs => (parseInts xs).map .many
  | _ => none

def parseORaw : List String → Option (OOM Int)
  | ["one", x] => x.toInt?.map .one
  | "many" :: xs => (parseInts xs).map .many
  | _ => none

def parseBool : String → Option Bool
  | "0" => some false
  | "1" => some true
  | _ => none

def parseOut (s : String) : Option Out :=
  match s.splitOn ":" with
  | ["td", d] => d.toInt?.map .td
  | ["ad", d] => d.toInt?.map .ad
  | ["px", d] => d.toInt?.map .px
  | ["md", d] => d.toInt?.map .md
  | _ => none

def fmtOut : Out → String
  | .td d => "td:" ++ toString d
  | .ad d => "ad:" ++ toString d
  | .px d => "px:" ++ toString d
  | .md d => "md:" ++ toString d
  | .cmd => "cmd"
  | .algo => "algo"

def nomShape {α : Type} : NOM α → String
  | .none => "none"
  | .one _ => "one"
  | .many _ => "many"

def oomShape {α : Type} : OOM α → String
  | .one _ => "one"
  | .many _ => "many"

def optShape {α : Type} : Option (OOM α) → String
  | none => "none"
  | some v => oomShape v

def specShape {α : Type} (l : List α) : String :=
  match Spec.shapeOf l with
  | .none => "none"
  | .one => "one"
  | .many => "many"

def fmtOrd : Ordering → String
  | .lt => "lt"
  | .eq => "eq"
  | .gt => "gt"

/-- every item + k stays inside `i64` -/
def shiftOk (items : List Int) (k : Int) : Bool :=
  items.all fun x => decide (-9223372036854775808 ≤ x + k ∧ x + k ≤ 9223372036854775807)

def shiftOf : List String → Option Int
  | [_, k] => k.toInt?
  | _ => none

/-! ### model -/

structure St where
  n : NOM Int := .none
  o : OOM Int := .one 0
  a : AuditReg := .withEvent false

def obsN (n : NOM Int) : List String :=
  [ line "shape" (nomShape n),
    line "len" (toString n.len),
    line "flags" (" ".intercalate [fmtBool n.isEmpty, fmtBool n.isNone, fmtBool n.isOne, fmtBool n.isMany]),
    line "vec" (ints n.intoVec),
    line "iter" (ints n.iter),
    line "into" (ints n.intoIter),
    line "asref" (ints n.asRef),
    line "bag" (ints (sortInts n.asRef)),
    line "json" n.toJson,
    line "intoopt" (optShape n.intoOption),
    line "fromnom" (optShape (optionOfNOM n)),
    line "optvec" (match n.intoOption with | none => "-" | some v => ints v.intoVec) ]

def obsO (o : OOM Int) : List String :=
  [ line "oshape" (oomShape o),
    line "olen" (toString o.len),
    line "oflags" (" ".intercalate [fmtBool o.isOne, fmtBool o.isMany]),
    line "ovec" (ints o.intoVec),
    line "oiter" (ints o.iter),
    line "ointo" (ints o.intoIter),
    line "oref" (ints o.asRef),
    line "obag" (ints (sortInts o.asRef)),
    line "ojson" o.toJson ]

def obsA (a : AuditReg) : List String :=
  [ line "outputs" (" ".intercalate (nomShape a.outputs :: a.outputs.asRef.map fmtOut)),
    line "errors" (" ".intercalate (nomShape a.errors :: a.errors.asRef.map toString)),
    line "nerr" (toString a.errors.len),
    line "errbag" (ints (sortInts a.errors.asRef)),
    line "terminal" (fmtBool (a.isTerminal id)),
    line "eterminal" (fmtBool ((EngineAudit.process a).isTerminal id)) ]

def parseNOp : List String → Option NOp
  | "n.raw" :: r => (parseRaw r).map .raw
  | "n.vec" :: xs => (parseInts xs).map .vec
  | "n.iter" :: xs => (parseInts xs).map .iter
  | ["n.opt"] => some (.opt none)
  | ["n.opt", x] => x.toInt?.map (fun x => .opt (some x))
  | ["n.default"] => some .dflt
  | "n.ext" :: xs => (parseInts xs).map .ext
  | "n.extn" :: r => (parseRaw r).map .extN
  | ["n.map", k] => k.toInt?.map .map
  | ["n.mut", k] => k.toInt?.map .mutate
  | _ => none

def parseOOp : List String → Option OOp
  | "o.raw" :: r => (parseORaw r).map .raw
  | ["o.item", x] => x.toInt?.map .item
  | ["o.default"] => some .dflt
  | "o.vec" :: xs => (parseInts xs).map .vec
  | "o.iter" :: xs => (parseInts xs).map .iter
  | "o.ext" :: xs => (parseInts xs).map .ext
  | "o.exto" :: r => (parseORaw r).map .extO
  | ["o.map", k] => k.toInt?.map .map
  | ["o.mut", k] => k.toInt?.map .mutate
  | _ => none

def parseAOp : List String → Option AOp
  | ["a.event", t] => (parseBool t).map .withEvent
  | ["a.out", t, o] => do some (.withOutput (← parseBool t) (← parseOut o))
  | "a.oe" :: t :: o :: es => do some (.outputAndErrs (← parseBool t) (← parseOut o) (← parseInts es))
  | ["a.ts", t] => (parseBool t).map (.tradingState · none)
  | ["a.ts", t, d] => do some (.tradingState (← parseBool t) (some (← d.toInt?)))
  | ["a.acc", t, k, d] => do
    let k ← k.toNat?
    if k > 2 then none else some (.account (← parseBool t) k (← d.toInt?))
  | ["a.mkt", t] => (parseBool t).map (.market · none)
  | ["a.mkt", t, d] => do some (.market (← parseBool t) (some (← d.toInt?)))
  | ["a.addout", o] => (parseOut o).map .addOutput
  | "a.adderr" :: es => (parseInts es).map .addErrors
  | "a.wpe" :: es => (parseInts es).map .withProcessAndErr
  | _ => none

/-- a send result: request id and outcome -/
def parseRes (s : String) : Option (Int × Option (EngineError Int Int)) :=
  let id := (s.drop 1).toString.toInt?
  if s.startsWith "s" then id.map fun i => (i, none)
  else if s.startsWith "r" then id.map fun i => (i, some (.recoverable i))
  else if s.startsWith "u" then id.map fun i => (i, some (.unrecoverable i))
  else none

def parseResList (toks : List String) : Option (List (Int × Option (EngineError Int Int))) :=
  toks.mapM parseRes

/-- split at the `/` tokens -/
def splitSlash (toks : List String) : List (List String) :=
  toks.foldr (fun t acc =>
    if t == "/" then [] :: acc else
    match acc with
    | [] => [[t]]
    | g :: gs => (t :: g) :: gs) [[]]

abbrev SO := SendRequestsOutput Int Int Int

def fmtErr : Int × EngineError Int Int → String
  | (_, .recoverable i) => "r" ++ toString i
  | (_, .unrecoverable i) => "u" ++ toString i

def obsUnrec (u : NOM Int) : List String :=
  [ line "unrec" (" ".intercalate (nomShape u :: u.asRef.map toString)),
    line "nunrec" (toString u.len),
    line "unrecbag" (ints (sortInts u.asRef)) ]

def obsActUnrec (u : Option (OOM Int)) : String :=
  line "actunrec" (" ".intercalate (optShape u :: (match u with | none => [] | some v => v.asRef.map toString)))

def obsSO (s : SO) : List String :=
  [ line "sent" (" ".intercalate (nomShape s.sent :: s.sent.asRef.map toString)),
    line "errs" (" ".intercalate (nomShape s.errors :: s.errors.asRef.map fmtErr)),
    line "empty" (fmtBool s.isEmpty) ] ++ obsUnrec s.unrecoverableErrors

def parseReq (s : String) : Option Req :=
  match s.splitOn ":" with
  | [e, c] => do some ((← e.toNat?), (← c.toNat?))
  | _ => none

/-- requests sorted by exchange (the engine walks the instruments in index order) and pairwise distinct -/
def ordersOk (reqs : List Req) : Bool :=
  reqs.Pairwise (fun a b => decide (a.1 ≤ b.1) && a != b)

def parseEngEv (ev : String) (reqs : List Req) : Option EngEv :=
  match ev with
  | "shutdown" => if reqs.isEmpty then some .shutdown else none
  | "cmdc" => some (.cmdCancel reqs)
  | "cmdo" => some (.cmdOpen reqs)
  | "cmdk" => if ordersOk reqs then some (.cmdCancelOrders reqs) else none
  | "ts_on" => if reqs.isEmpty then some .tsOn else none
  | "ts_off" => if reqs.isEmpty then some .tsOff else none
  | "mkt" => if reqs.isEmpty then some .mkt else none
  | "mktre" => if reqs.isEmpty then some .mktRe else none
  | "accre" => if reqs.isEmpty then some .accRe else none
  | _ => none

def deadLink (e : Nat) : Bool := e == 1 || e == 2

structure EngCase where
  enabled : Bool
  ev : EngEv
  algoC : List Req
  algoO : List Req

def evReqs : EngEv → List Req
  | .cmdCancel r | .cmdOpen r | .cmdCancelOrders r => r
  | .cmdClose c o => c ++ o
  | _ => []

def parseEng : List String → Option EngCase
  | onoff :: ev :: rest => do
    let enabled ← (match onoff with | "on" => some true | "off" => some false | _ => none)
    let (ev, c, o) ←
      (match ev, splitSlash rest with
       | "cmdx", [gc, go, g1, g2] => do
         some (EngEv.cmdClose (← gc.mapM parseReq) (← go.mapM parseReq), (← g1.mapM parseReq), (← g2.mapM parseReq))
       | "cmdx", _ => none
       | ev, [g0, g1, g2] => do
         some ((← parseEngEv ev (← g0.mapM parseReq)), (← g1.mapM parseReq), (← g2.mapM parseReq))
       | _, _ => none)
    -- exchanges 0..2 only
    if (evReqs ev).any (·.1 > 2) || c.any (·.1 > 2) || o.any (·.1 > 2)
    then none else some ⟨enabled, ev, c, o⟩
  | _ => none

/-- `engl <links> <order> rest`: the dead-link predicate the letters denote and the rest of the op -/
def parseEngl : List String → Option ((Nat → Bool) × List String)
  | links :: order :: rest =>
    let ls := links.toList
    let okL := ls.length == 3 && ls.all (fun c => c == 'H' || c == 'C' || c == 'M')
    let okO := ["012", "021", "102", "120", "201", "210"].contains order
    let okT := match rest with | "on" :: _ :: _ => true | "off" :: _ :: _ => true | _ => false
    if okL && okO && okT then some ((fun e => (ls.getD e 'C') != 'H'), rest) else none
  | _ => none

def obsEng (c : EngCase) (deadLink : Nat → Bool := deadLink) : List String :=
  match engineAudit deadLink c.enabled c.ev c.algoC c.algoO with
  | .feedEnded => ["feedended"]
  | .process p =>
    [ line "outputs" (" ".intercalate (nomShape p.outputs :: p.outputs.asRef.map fmtOut)),
      line "errors" (" ".intercalate (nomShape p.errors :: p.errors.asRef.map toString)),
      line "nerr" (toString p.errors.len),
      line "errbag" (nats (sortNats p.errors.asRef)),
      line "terminal" (fmtBool (p.isTerminal EngEv.terminal)) ]

def model : Drv St where
  init := {}
  step s toks :=
    match toks with
    | [] => (s, ["bad-op"])
    | op :: rest =>
      if op == "n.has" then
        match rest with
        | [x] => match x.toInt? with
          | some x => (s, [line "has" (fmtBool (s.n.contains x))])
          | none => (s, ["bad-op"])
        | _ => (s, ["bad-op"])
      else if op == "n.cmp" then
        match parseRaw rest with
        | some v => (s, [line "eq" (fmtBool (NOM.eq s.n v)), line "ord" (fmtOrd (NOM.cmp s.n v))])
        | none => (s, ["bad-op"])
      else if (op == "n.map" || op == "n.mut") && !(match shiftOf toks with | some k => shiftOk s.n.asRef k | none => true) then
        (s, ["bad-op"])
      else if (op == "o.map" || op == "o.mut") && !(match shiftOf toks with | some k => shiftOk s.o.asRef k | none => true) then
        (s, ["bad-op"])
      else if op.startsWith "n." then
        match parseNOp toks with
        | some nop => let n := nop.apply s.n; ({ s with n := n }, obsN n)
        | none => (s, ["bad-op"])
      else if op == "o.has" then
        match rest with
        | [x] => match x.toInt? with
          | some x => (s, [line "ohas" (fmtBool (s.o.contains x))])
          | none => (s, ["bad-op"])
        | _ => (s, ["bad-op"])
      else if op == "o.cmp" then
        match parseORaw rest with
        | some v => (s, [line "oeq" (fmtBool (OOM.eq s.o v)), line "oord" (fmtOrd (OOM.cmp s.o v))])
        | none => (s, ["bad-op"])
      else if op == "o.fromn" then
        if rest.isEmpty then
          match s.n.intoOption with
          | some v => ({ s with o := v }, "took 1" :: obsO v)
          | none => (s, "took 0" :: obsO s.o)
        else (s, ["bad-op"])
      else if op.startsWith "o." then
        match parseOOp toks with
        | some oop =>
          match oop.apply s.o with
          | some o => ({ s with o := o }, obsO o)
          | none => (s, ["panic"])
        | none => (s, ["bad-op"])
      else if op == "a.feedended" then
        if rest.isEmpty then
          (s, [line "fe_terminal" (fmtBool ((EngineAudit.feedEnded : EngineAudit Bool Out Int).isTerminal id))])
        else (s, ["bad-op"])
      else if op.startsWith "a." then
        match parseAOp toks with
        | some aop => let a := aop.apply s.a; ({ s with a := a }, obsA a)
        | none => (s, ["bad-op"])
      else if op == "act.c" || op == "act.o" then
        match parseResList rest with
        | some rs =>
          let so : SO := .ofResults rs
          let act : ActionOutput Int Int Int Int Int Int :=
            if op == "act.c" then .cancelOrders so else .openOrders so
          (s, obsSO so ++ [obsActUnrec act.unrecoverableErrors])
        | none => (s, ["bad-op"])
      else if op == "act.x" then
        match splitSlash rest with
        | [g0, g1] =>
          match parseResList g0, parseResList g1 with
          | some c, some o =>
            let x : SendCancelsAndOpensOutput Int Int Int Int := ⟨.ofResults c, .ofResults o⟩
            let act : ActionOutput Int Int Int Int Int Int := .closePositions x
            (s, [line "empty" (fmtBool x.isEmpty)] ++ obsUnrec x.unrecoverableErrors
                  ++ [obsActUnrec act.unrecoverableErrors])
          | _, _ => (s, ["bad-op"])
        | _ => (s, ["bad-op"])
      else if op == "act.g" then
        match splitSlash rest with
        | [g0, g1, [rc, ro]] =>
          match parseResList g0, parseResList g1, rc.toNat?, ro.toNat? with
          | some c, some o, some rc, some ro =>
            let g : GenerateAlgoOrdersOutput Int Int Int Int Int Int :=
              ⟨⟨.ofResults c, .ofResults o⟩,
               NOM.fromIter ((List.range rc).map Int.ofNat), NOM.fromIter ((List.range ro).map Int.ofNat)⟩
            let act : ActionOutput Int Int Int Int Int Int := .generateAlgoOrders g
            (s, [line "empty" (fmtBool g.isEmpty)] ++ obsUnrec g.cancelsAndOpens.unrecoverableErrors
                  ++ [line "gunrec" (optShape g.unrecoverableErrors), obsActUnrec act.unrecoverableErrors])
          | _, _, _, _ => (s, ["bad-op"])
        | _ => (s, ["bad-op"])
      else if op == "eng" then
        match parseEng rest with
        | some c => (s, obsEng c)
        | none => (s, ["bad-op"])
      else if op == "engl" then
        match parseEngl rest with
        | some (dead, rest) =>
          match parseEng rest with
          | some c => (s, obsEng c dead)
          | none => (s, ["bad-op"])
        | none => (s, ["bad-op"])
      else (s, ["bad-op"])

/-! ### spec

The abstract state of each register is the sequence it stands for, plus two flags that say whether
the abstract reading determines the *representation* (`canon`) and the *order* (`ordered`) at this
point. They are cleared exactly at the examined boundaries listed in props/C03N.py (a value written
down with a non-canonical variant; `OneOrMany` built from / extended by nothing; `extend` of a
one-item collection by two or more items) and set again by the next operation that replaces the
value. Length, multiset and membership are always printed. -/

structure Seq where
  items : List Int := []
  canon : Bool := true
  ordered : Bool := true

structure SpecSt where
  n : Seq := {}
  o : Seq := { items := [0] }
  aTerm : Bool := false
  aOut : List Out := []
  aErr : Seq := {}

def nomCanon : NOM Int → Bool
  | .none => true
  | .one _ => true
  | .many l => decide (2 ≤ l.length)

def oomCanon : OOM Int → Bool
  | .one _ => true
  | .many l => decide (2 ≤ l.length)

/-- every item is the same: every permutation of the sequence is the sequence -/
def allSame (l : List Int) : Bool :=
  match l with
  | [] => true
  | x :: xs => xs.all (· == x)

/-- abstract `extend`, with the boundary bookkeeping: the order "self, then other" is kept exactly
where `nom_extend_order_iff` / `oom_extend_order_iff` prove it (`Spec.reorders` false: not one item
extended by two or more items that are not all equal to it; for a value written down as `Many([x])`
this is conservative), and it is determined again as soon as all items are equal. -/
def Seq.extend (s : Seq) (l : List Int) : Seq :=
  let items := Spec.extend s.items l
  { items := items, canon := s.canon,
    ordered := (s.ordered && !Spec.reorders s.items l) || allSame items }

def Seq.map (s : Seq) (k : Int) : Seq := { s with items := Spec.map (· + k) s.items }

def specObsN (s : Seq) : List String :=
  [ line "len" (toString (Spec.len s.items)),
    line "bag" (ints (sortInts s.items)) ]
  ++ (if s.canon then
        [ line "shape" (specShape s.items),
          line "flags" (" ".intercalate [fmtBool (Spec.isEmpty s.items), fmtBool (Spec.isEmpty s.items),
            fmtBool (Spec.shapeOf s.items == .one), fmtBool (Spec.shapeOf s.items == .many)]),
          line "intoopt" (match Spec.intoOption s.items with | none => "none" | some l => specShape l),
          line "fromnom" (match Spec.intoOption s.items with | none => "none" | some l => specShape l) ]
      else [])
  ++ (if s.ordered then
        [ line "vec" (ints (Spec.items s.items)),
          line "iter" (ints (Spec.items s.items)),
          line "into" (ints (Spec.items s.items)),
          line "asref" (ints (Spec.items s.items)) ]
      else [])
  ++ (if s.canon && s.ordered then
        [ line "optvec" (match Spec.intoOption s.items with | none => "-" | some l => ints l) ]
      else [])

def specObsO (s : Seq) : List String :=
  [ line "olen" (toString (Spec.len s.items)),
    line "obag" (ints (sortInts s.items)) ]
  ++ (if s.canon then
        [ line "oshape" (specShape s.items),
          line "oflags" (" ".intercalate [fmtBool (Spec.shapeOf s.items == .one), fmtBool (Spec.shapeOf s.items == .many)]) ]
      else [])
  ++ (if s.ordered then
        [ line "ovec" (ints s.items), line "oiter" (ints s.items), line "ointo" (ints s.items),
          line "oref" (ints s.items) ]
      else [])

def specObsA (s : SpecSt) : List String :=
  [ line "outputs" (" ".intercalate (specShape s.aOut :: s.aOut.map fmtOut)),
    line "nerr" (toString s.aErr.items.length),
    line "errbag" (ints (sortInts s.aErr.items)),
    line "terminal" (fmtBool (Spec.Audit.terminal s.aTerm (⟨s.aOut, s.aErr.items⟩ : Spec.Audit Out Int))),
    line "eterminal" (fmtBool (Spec.Audit.terminal s.aTerm (⟨s.aOut, s.aErr.items⟩ : Spec.Audit Out Int))) ]
  ++ (if s.aErr.ordered then
        [ line "errors" (" ".intercalate (specShape s.aErr.items :: s.aErr.items.map toString)) ]
      else [])

def specUnrec (c o : List Int) : List String :=
  let all := c ++ o
  [ line "nunrec" (toString all.length), line "unrecbag" (ints (sortInts all)) ]
  ++ (if Spec.reorders c o then []
      else [ line "unrec" (" ".intercalate (specShape all :: all.map toString)),
             line "actunrec" (" ".intercalate (specShape all :: all.map toString)) ])

def spec : Drv SpecSt where
  init := {}
  step s toks :=
    match toks with
    | [] => (s, ["bad-op"])
    | op :: rest =>
      if op == "n.has" then
        match rest with
        | [x] => match x.toInt? with
          | some x => (s, [line "has" (fmtBool (Spec.contains s.n.items x))])
          | none => (s, ["bad-op"])
        | _ => (s, ["bad-op"])
      else if op == "n.cmp" then
        match parseRaw rest with
        | some v =>
          -- equality of values is equality of sequences when both representations are determined
          -- ... and then the derived order is the length class first, the items lexicographically within
          -- a class (nom_cmp_of_canonical)
          if s.n.canon && s.n.ordered && nomCanon v then
            (s, [line "eq" (fmtBool (decide (s.n.items = v.asRef))),
                 line "ord" (fmtOrd (Spec.cmpSeq s.n.items v.asRef))])
          else (s, [])
        | none => (s, ["bad-op"])
      else if (op == "n.map" || op == "n.mut") && !(match shiftOf toks with | some k => shiftOk s.n.items k | none => true) then
        (s, ["bad-op"])
      else if (op == "o.map" || op == "o.mut") && !(match shiftOf toks with | some k => shiftOk s.o.items k | none => true) then
        (s, ["bad-op"])
      else if op.startsWith "n." then
        match parseNOp toks with
        | some nop =>
          let n : Seq :=
            match nop with
            | .raw v => { items := v.asRef, canon := nomCanon v }
            | .vec l => { items := Spec.fromItems l }
            | .iter l => { items := Spec.fromItems l }
            | .opt o => { items := Spec.fromOption o }
            | .dflt => {}
            | .ext l => s.n.extend l
            | .extN v => s.n.extend v.asRef
            | .map k => s.n.map k
            | .mutate k => s.n.map k
          ({ s with n := n }, specObsN n)
        | none => (s, ["bad-op"])
      else if op == "o.has" then
        match rest with
        | [x] => match x.toInt? with
          | some x => (s, [line "ohas" (fmtBool (Spec.contains s.o.items x))])
          | none => (s, ["bad-op"])
        | _ => (s, ["bad-op"])
      else if op == "o.cmp" then
        match parseORaw rest with
        | some v =>
          if s.o.canon && s.o.ordered && oomCanon v then
            (s, [line "oeq" (fmtBool (decide (s.o.items = v.asRef))),
                 line "oord" (fmtOrd (Spec.cmpSeq s.o.items v.asRef))])
          else (s, [])
        | none => (s, ["bad-op"])
      else if op == "o.fromn" then
        if rest.isEmpty then
          match Spec.intoOption s.n.items with
          | some _ => ({ s with o := s.n }, "took 1" :: specObsO s.n)
          | none =>
            -- `Many(vec![])` is not the empty sequence's representation: only when determined
            -- (a non-canonical empty value can only be `Many(vec![])`, which is handed over as it is;
            -- the abstract reading says nothing about it, the register just follows)
            if s.n.canon then (s, "took 0" :: specObsO s.o) else ({ s with o := s.n }, [])
        else (s, ["bad-op"])
      else if op.startsWith "o." then
        match parseOOp toks with
        | some oop =>
          match oop with
          | .vec [] => (s, ["panic"])
          | _ =>
            let o : Seq :=
              match oop with
              | .raw v => { items := v.asRef, canon := oomCanon v }
              | .item x => { items := [x] }
              | .dflt => { items := [0] }
              | .vec l => { items := l }
              -- an empty `OneOrMany` is outside the abstract domain: representation undetermined
              | .iter l => { items := l, canon := !l.isEmpty }
              -- extending one item by nothing: the sequence is unchanged, the representation undetermined
              | .ext l => { s.o.extend l with canon := s.o.canon && !(s.o.items.length == 1 && l.isEmpty) }
              | .extO v => { s.o.extend v.asRef with canon := s.o.canon && !(s.o.items.length == 1 && v.asRef.isEmpty) }
              | .map k => s.o.map k
              | .mutate k => s.o.map k
            ({ s with o := o }, specObsO o)
        | none => (s, ["bad-op"])
      else if op == "a.feedended" then
        if rest.isEmpty then (s, ["fe_terminal 1"]) else (s, ["bad-op"])
      else if op.startsWith "a." then
        match parseAOp toks with
        | some aop =>
          let r := aop.applySpec (s.aTerm, ⟨s.aOut, s.aErr.items⟩)
          let ordered : Bool :=
            match aop with
            | .addErrors es => (s.aErr.extend es).ordered
            | .withProcessAndErr es => (s.aErr.extend es).ordered
            | .addOutput _ => s.aErr.ordered
            | _ => true
          let s' := { s with aTerm := r.1, aOut := r.2.outputs, aErr := { items := r.2.errors, ordered := ordered } }
          (s', specObsA s')
        | none => (s, ["bad-op"])
      else if op == "act.c" || op == "act.o" then
        match parseResList rest with
        | some rs =>
          let sent := rs.filterMap fun (i, e) => if e.isNone then some i else none
          (s, [ line "sent" (" ".intercalate (specShape sent :: sent.map toString)),
                line "empty" (fmtBool rs.isEmpty) ] ++ specUnrec (Spec.unrecoverable rs) [])
        | none => (s, ["bad-op"])
      else if op == "act.x" then
        match splitSlash rest with
        | [g0, g1] =>
          match parseResList g0, parseResList g1 with
          | some c, some o =>
            (s, [line "empty" (fmtBool (c.isEmpty && o.isEmpty))]
                  ++ specUnrec (Spec.unrecoverable c) (Spec.unrecoverable o))
          | _, _ => (s, ["bad-op"])
        | _ => (s, ["bad-op"])
      else if op == "act.g" then
        match splitSlash rest with
        | [g0, g1, [rc, ro]] =>
          match parseResList g0, parseResList g1, rc.toNat?, ro.toNat? with
          | some c, some o, some rc, some ro =>
            let all := Spec.unrecoverable c ++ Spec.unrecoverable o
            (s, [line "empty" (fmtBool (c.isEmpty && o.isEmpty && rc == 0 && ro == 0))]
                  ++ specUnrec (Spec.unrecoverable c) (Spec.unrecoverable o)
                  ++ [line "gunrec" (specShape all)])
          | _, _, _, _ => (s, ["bad-op"])
        | _ => (s, ["bad-op"])
      else if op == "eng" || op == "engl" then
        match (if op == "engl" then parseEngl rest else some (deadLink, rest)) with
        | none => (s, ["bad-op"])
        | some (deadLink, rest) =>
        match parseEng rest with
        | some c =>
          -- the failures of the stage that failed, as (cancel side, open side), and their concatenation
          let parts := specErrorParts deadLink c.enabled c.ev c.algoC c.algoO
          let all := specEngineErrors deadLink c.enabled c.ev c.algoC c.algoO
          let outs := specEngineOutputs deadLink c.enabled c.ev c.algoC c.algoO
          -- `errors` (the exact order) is printed exactly where `engine_audit_errors` proves the request order
          -- is kept: not `AuditReorders` (one cancel-side failure, two or more open-side failures not all
          -- equal to it - on the ClosePositions command path or in the generation stage)
          (s, [ line "outputs" (" ".intercalate (specShape outs :: outs.map fmtOut)),
                line "nerr" (toString all.length), line "errbag" (nats (sortNats all)),
                line "terminal" (fmtBool (c.ev.terminal || !all.isEmpty)) ]
              ++ (if Spec.reorders parts.1 parts.2 then []
                  else [line "errors" (" ".intercalate (specShape all :: all.map toString))]))
        | none => (s, ["bad-op"])
      else (s, ["bad-op"])

end BarterModel.Driver.C03N

def main (args : List String) : IO UInt32 :=
  BarterModel.Driver.runMain BarterModel.Driver.C03N.model BarterModel.Driver.C03N.spec args
