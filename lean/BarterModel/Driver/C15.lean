import BarterModel.Driver.Common
import BarterModel.Model.Unrealised
/-!
Line-protocol driver for C15. Ops:
  `init n [x]`                                      n instruments on one exchange / (x in 1..5) instrument k on
                                                    exchange k % x (no C15 clause reads the exchange)
  `init n x <kinds> <on|off> <links> <via>`         configuration shapes: `kinds` non-empty over `s p f o q` (instrument
                                                    kinds / contract-quantity spec), trading state (with `on` the
                                                    harness strategy emits a request per event), `links` non-empty
                                                    over `H C M U` (execution link per exchange), `via` one of
                                                    `proc audit state` (Engine::process / process_with_audit /
                                                    EngineState::update_from_* directly); no C15 clause reads them
  `fill <id> <instr> <time> <B|S> <price> <qty> <fee>`   account trade through `Engine::process`
  `trade <instr> <time> <price> [B|S]`              public trade market event (taker side is not read)
  `l1 <instr> <te> <tl> <bidP> <bidA> <askP> <askA>`  top-of-book market event (both sides)
  `other <instr> <time> [candle|liq|book]`          market event of a kind that carries no price
Observations per instrument `i`: `price<i>`, `pos<i>` (side, entry average, quantity, max quantity,
entry fees), `upnl<i>`. The spec prints `price<i>` and `upnl<i>` only.
Rejected (`bad-op`): fills with `qty <= 0` or `price <= 0` (a position with entry average 0 panics on exit), L1 with `bidA + askA = 0` (Decimal division by zero),
negative amounts. Unknown instrument: `panic` (as `instrument_index_mut` does).
-/
namespace BarterModel.Driver.C15
open BarterModel.Driver BarterModel.Position BarterModel.Stale BarterModel.Unrealised

def parseSide : String → Option Side
  | "B" => some .buy
  | "S" => some .sell
  | _ => none

def parseEv : List String → Option Ev
  | ["fill", id, i, t, sd, p, q, f] =>
    match id.toNat?, i.toNat?, t.toInt?, parseSide sd, parseRat? p, parseRat? q, parseRat? f with
    | some id, some i, some t, some sd, some p, some q, some f =>
      if q ≤ 0 ∨ p ≤ 0 then none else some (.fill ⟨id, i, t, sd, p, q, f⟩)
    | _, _, _, _, _, _, _ => none
  | ["trade", i, t, p] =>
    match i.toNat?, t.toInt?, parseRat? p with
    | some i, some t, some p => some (.market ⟨i, t, .trade p⟩)
    | _, _, _ => none
  | ["l1", i, te, tl, bp, ba, ap, aa] =>
    match i.toNat?, te.toInt?, tl.toInt?, parseRat? bp, parseRat? ba, parseRat? ap, parseRat? aa with
    | some i, some te, some tl, some bp, some ba, some ap, some aa =>
      if ba < 0 ∨ aa < 0 ∨ ba + aa = 0 then none
      else some (.market ⟨i, te, .bookL1 ⟨tl, bp, ba, ap, aa⟩⟩)
    | _, _, _, _, _, _, _ => none
  | ["trade", i, t, p, sd] =>
    match i.toNat?, t.toInt?, parseRat? p, parseSide sd with
    | some i, some t, some p, some _ => some (.market ⟨i, t, .trade p⟩)
    | _, _, _, _ => none
  | ["other", i, t] =>
    match i.toNat?, t.toInt? with
    | some i, some t => some (.market ⟨i, t, .other⟩)
    | _, _ => none
  | ["other", i, t, k] =>
    match i.toNat?, t.toInt? with
    | some i, some t => if ["candle", "liq", "book"].contains k then some (.market ⟨i, t, .other⟩) else none
    | _, _ => none
  | _ => none

/-- non-empty and every character from `alphabet` -/
def overAlphabet (alphabet : String) (s : String) : Bool :=
  !s.isEmpty && s.toList.all fun c => alphabet.toList.contains c

/-- `init n` / `init n x` / `init n x <kinds> <on|off> <links> <via>` with `1 ≤ x ≤ 5` (the harness has five
exchange labels). -/
def parseInit : List String → Option Nat
  | ["init", n] => n.toNat?
  | ["init", n, x] =>
    match n.toNat?, x.toNat? with
    | some n, some x => if 1 ≤ x ∧ x ≤ 5 then some n else none
    | _, _ => none
  | ["init", n, x, kinds, tr, links, via] =>
    match n.toNat?, x.toNat? with
    | some n, some x =>
      if 1 ≤ x ∧ x ≤ 5 ∧ overAlphabet "spfoq" kinds ∧ (tr == "on" || tr == "off") ∧ overAlphabet "HCMU" links
          ∧ (via == "proc" || via == "audit" || via == "state") then some n else none
    | _, _ => none
  | _ => none

def s2s : Side → String
  | .buy => "B"
  | .sell => "S"

def fmtPos : Option Position → String
  | none => "none"
  | some p => s!"{s2s p.side} {fmtRatApprox p.priceEntryAverage} {fmtRat p.quantityAbs} {fmtRat p.quantityAbsMax} {fmtRatApprox p.feesEnter}"

def obs (s : EngineState) : List String :=
  (s.zipIdx.map fun (st, i) =>
    [ s!"price{i} {fmtOptRatApprox (price st.data)}",
      s!"pos{i} {fmtPos st.position.current}",
      s!"upnl{i} {fmtOptRatApprox st.upnl}" ]).flatten

def specObs (s : Spec) : List String :=
  (s.zipIdx.map fun (st, i) =>
    [ s!"price{i} {fmtOptRatApprox (currentPrice st.data)}",
      s!"upnl{i} {fmtOptRatApprox st.upnl}" ]).flatten

def model : Drv EngineState where
  init := EngineState.init 0
  step s toks :=
    match toks with
    | "init" :: _ =>
      match parseInit toks with
      | some n => let s' := EngineState.init n; (s', obs s')
      | none => (s, ["bad-op"])
    | _ =>
      match parseEv toks with
      | none => (s, ["bad-op"])
      | some ev =>
        if ev.instrument < s.length then
          let s' := s.process ev
          (s', obs s')
        else (s, ["panic"])

def spec : Drv Spec where
  init := Spec.init 0
  step s toks :=
    match toks with
    | "init" :: _ =>
      match parseInit toks with
      | some n => let s' := Spec.init n; (s', specObs s')
      | none => (s, ["bad-op"])
    | _ =>
      match parseEv toks with
      | none => (s, ["bad-op"])
      | some ev =>
        if ev.instrument < s.length then
          let s' := s.process ev
          (s', specObs s')
        else (s, ["panic"])

end BarterModel.Driver.C15

def main (args : List String) : IO UInt32 :=
  BarterModel.Driver.runMain BarterModel.Driver.C15.model BarterModel.Driver.C15.spec args
