import BarterModel.Driver.Common
import BarterModel.Model.Position
import BarterModel.Model.TearSheet
/-!
Line-protocol driver for C16.

Ops
* `init n m direct|engine` — `n` instruments, `m` assets; `direct`: a `TradingSummaryGenerator`
  taken from a fresh engine and updated with its own `update_from_*`; `engine`: events go through
  `Engine::process`, the summary is `Engine::trading_summary_generator(..).generate(..)`.
* `initb n m direct|engine L<k> [a total free]…` — configuration-shape family: as `init`, with the
  instrument layout `k ≤ 3` of the harness (how the `n` instruments are spread over exchanges and which assets
  they share; only `n` and `m` matter here) and INITIAL balances handed to `EngineStateBuilder::balances`,
  which applies each as a snapshot at `time_engine_start` (= `bal a 0 total free`) through
  `AssetState::update_from_balance` before the engine (and the generator taken from it) exists.
* `pos i pnl entry qty` — (direct) a `PositionExited` for instrument `i`.
* `rt i B|S entry qty exit feeIn feeOut` — (engine) opening fill + exactly closing fill.
* `bal a t total free` — balance snapshot for asset `a` at exchange time `t` ms.

Observations after every op: for `rt` the closed position (`closed i pnl entry qmax`), then one
`ts i pnl <exact> win <~r|none> pf <~r|none|MAX|MIN>` per instrument and one `as a <total> <free>` /
`as a none` per asset.
-/
namespace BarterModel.Driver.C16
open BarterModel.Driver BarterModel.TearSheet

inductive Mode where
  | direct
  | engine
  deriving DecidableEq

def fmtPF : Option Rat → String
  | none => "none"
  | some r => if r == decimalMax then "MAX" else if r == decimalMin then "MIN" else fmtRatApprox r

def fmtTs (i : Nat) (t : TearSheet) : String :=
  "ts " ++ toString i ++ " pnl " ++ fmtRat t.pnl ++ " win " ++ fmtOptRatApprox t.winRate ++
    " pf " ++ fmtPF t.profitFactor

def fmtAs (a : Nat) (t : TearSheetAsset) : String :=
  match t.balanceEnd with
  | none => "as " ++ toString a ++ " none"
  | some b => "as " ++ toString a ++ " " ++ fmtRat b.total ++ " " ++ fmtRat b.free

def zipIdx {α : Type} (l : List α) : List (Nat × α) := (List.range l.length).zip l

def obs (s : TradingSummary) : List String :=
  (zipIdx s.instruments).map (fun (i, t) => fmtTs i t) ++
  (zipIdx s.assets).map (fun (a, t) => fmtAs a t)

inductive Op where
  | init (n m : Nat) (mode : Mode)
  | initb (n m : Nat) (mode : Mode) (bals : List (Nat × Balance))
  | ev (e : Ev) (closed : Option (Nat × Closed)) (needs : Mode)
  /-- engine mode: a position is opened, FLIPPED by one opposite fill of twice its size (which closes it
  and opens the opposite position in the same step) and the remainder is closed at the same price: two
  closed positions, the instrument ends flat -/
  | flip (i : Nat) (c1 c2 : Closed)

/-- the closed positions of `flip`, computed with the position model of C02 (`PositionManager.update`) -/
def flipClosed (i : Nat) (long : Bool) (entry qty exit feeIn feeOut : Rat) : Option (Closed × Closed) :=
  let side : BarterModel.Position.Side := if long then .buy else .sell
  let opp : BarterModel.Position.Side := if long then .sell else .buy
  let pm0 := BarterModel.Position.PositionManager.init
  let (pm1, _) := pm0.update ⟨0, i, 0, side, entry, qty, feeIn⟩
  let (pm2, x1) := pm1.update ⟨1, i, 1, opp, exit, 2 * qty, feeOut⟩
  let (_, x2) := pm2.update ⟨2, i, 2, side, exit, qty, 0⟩
  match x1, x2 with
  | some a, some b =>
    some (⟨a.pnlRealised, a.priceEntryAverage, a.quantityAbsMax⟩, ⟨b.pnlRealised, b.priceEntryAverage, b.quantityAbsMax⟩)
  | _, _ => none

def parseBals : List String → Option (List (Nat × Balance))
  | [] => some []
  | a :: total :: free :: rest =>
    match a.toNat?, parseRat? total, parseRat? free, parseBals rest with
    | some a, some total, some free, some tl => some ((a, ⟨total, free⟩) :: tl)
    | _, _, _, _ => none
  | _ => none

/-- the initial balances as the snapshots `EngineStateBuilder::build` applies (time = engine start) -/
def initEvs (bals : List (Nat × Balance)) : List Ev := bals.map fun (a, b) => .balance a ⟨0, b⟩

def parseOp : List String → Option Op
  | "initb" :: n :: m :: mode :: layout :: rest =>
    match n.toNat?, m.toNat?, (if mode == "direct" then some Mode.direct
        else if mode == "engine" then some Mode.engine else none),
        (if ["L0", "L1", "L2", "L3"].contains layout then some () else none), parseBals rest with
    | some n, some m, some mode, some (), some bals => some (.initb n m mode bals)
    | _, _, _, _, _ => none
  | ["init", n, m, mode] =>
    match n.toNat?, m.toNat?, (if mode == "direct" then some Mode.direct
        else if mode == "engine" then some Mode.engine else none) with
    | some n, some m, some mode => some (.init n m mode)
    | _, _, _ => none
  | ["pos", i, pnl, entry, qty] =>
    match i.toNat?, parseRat? pnl, parseRat? entry, parseRat? qty with
    | some i, some pnl, some entry, some qty =>
      some (.ev (.position i ⟨pnl, entry, qty⟩) none .direct)
    | _, _, _, _ => none
  | ["rt", i, side, entry, qty, exit, feeIn, feeOut] =>
    match i.toNat?, (if side == "B" then some true else if side == "S" then some false else none),
        parseRat? entry, parseRat? qty, parseRat? exit, parseRat? feeIn, parseRat? feeOut with
    | some i, some long, some entry, some qty, some exit, some feeIn, some feeOut =>
      let c := Closed.ofRoundTrip long entry qty exit feeIn feeOut
      some (.ev (.position i c) (some (i, c)) .engine)
    | _, _, _, _, _, _, _ => none
  | ["flip", i, side, entry, qty, exit, feeIn, feeOut] =>
    match i.toNat?, (if side == "B" then some true else if side == "S" then some false else none),
        parseRat? entry, parseRat? qty, parseRat? exit, parseRat? feeIn, parseRat? feeOut with
    | some i, some long, some entry, some qty, some exit, some feeIn, some feeOut =>
      (flipClosed i long entry qty exit feeIn feeOut).map fun (c1, c2) => .flip i c1 c2
    | _, _, _, _, _, _, _ => none
  | ["bal", a, t, total, free] =>
    match a.toNat?, t.toInt?, parseRat? total, parseRat? free with
    | some a, some t, some total, some free =>
      -- `needs` is irrelevant for balances: both modes accept them
      some (.ev (.balance a ⟨t, ⟨total, free⟩⟩) none .direct)
    | _, _, _, _ => none
  | _ => none

def isBal : Ev → Bool
  | .balance _ _ => true
  | _ => false

def fmtClosed : Option (Nat × Closed) → List String
  | none => []
  | some (i, c) =>
    ["closed " ++ toString i ++ " " ++ fmtRat c.pnlRealised ++ " " ++ fmtRat c.priceEntryAverage ++
      " " ++ fmtRat c.quantityAbsMax]

/-- Would the code panic on this event (unknown key, or zero cost of investment)? -/
def evPanics (n m : Nat) : Ev → Bool
  | .position i p => decide (n ≤ i) || p.panics
  | .balance a _ => decide (m ≤ a)

/-! ### concrete model -/

inductive MSt where
  | none
  | direct (n m : Nat) (g : TradingSummaryGenerator)
  | engine (n m : Nat) (s : EngState)

def model : Drv MSt where
  init := .none
  step s toks :=
    match parseOp toks with
    | none => (s, ["bad-op"])
    | some (.init n m .direct) =>
      let g := TradingSummaryGenerator.init (EngState.init n m)
      (.direct n m g, obs g.generate)
    | some (.init n m .engine) =>
      let e := EngState.init n m
      (.engine n m e, obs (TradingSummaryGenerator.init e).generate)
    | some (.initb n m mode bals) =>
      -- an initial balance for an asset the state does not contain: `AssetStates::asset_mut` panics
      if bals.any (fun (a, _) => decide (m ≤ a)) then (.none, ["panic"]) else
      let e := (EngState.init n m).run (initEvs bals)
      match mode with
      | .direct => let g := TradingSummaryGenerator.init e; (.direct n m g, obs g.generate)
      | .engine => (.engine n m e, obs (TradingSummaryGenerator.init e).generate)
    | some (.ev ev closed needs) =>
      match s with
      | .none => (s, ["bad-op"])
      | .direct n m g =>
        if !isBal ev && needs != .direct then (s, ["bad-op"]) else
        if evPanics n m ev then (s, ["panic"]) else
        let g' := g.step ev
        (.direct n m g', fmtClosed closed ++ obs g'.generate)
      | .engine n m e =>
        if !isBal ev && needs != .engine then (s, ["bad-op"]) else
        if evPanics n m ev then (s, ["panic"]) else
        let e' := e.step ev
        (.engine n m e', fmtClosed closed ++ obs (TradingSummaryGenerator.init e').generate)
    | some (.flip i c1 c2) =>
      match s with
      | .engine n m e =>
        if evPanics n m (.position i c1) || evPanics n m (.position i c2) then (s, ["panic"]) else
        let e' := (e.step (.position i c1)).step (.position i c2)
        (.engine n m e', fmtClosed (some (i, c1)) ++ fmtClosed (some (i, c2)) ++
          obs (TradingSummaryGenerator.init e').generate)
      | _ => (s, ["bad-op"])

/-! ### abstract spec: recomputed from the whole history after every op -/

structure SSt where
  started : Bool
  mode : Mode
  n : Nat
  m : Nat
  evs : List Ev

def specObs (s : SSt) : List String :=
  (List.range s.n).map (fun i => fmtTs i (specTearSheet (historyOf i s.evs))) ++
  (List.range s.m).map (fun a =>
    fmtAs a (match s.mode with
      | .direct => specAssetDirect (balancesOf a s.evs)
      | .engine => specAssetEngine (balancesOf a s.evs)))

def spec : Drv SSt where
  init := ⟨false, .direct, 0, 0, []⟩
  step s toks :=
    match parseOp toks with
    | none => (s, ["bad-op"])
    | some (.init n m mode) =>
      let s' : SSt := ⟨true, mode, n, m, []⟩
      (s', specObs s')
    | some (.initb n m mode bals) =>
      if bals.any (fun (a, _) => decide (m ≤ a)) then (⟨false, .direct, 0, 0, []⟩, ["panic"]) else
      -- the initial balances are the first snapshots of their assets' histories
      let s' : SSt := ⟨true, mode, n, m, initEvs bals⟩
      (s', specObs s')
    | some (.ev ev _ needs) =>
      if !s.started then (s, ["bad-op"]) else
      if !isBal ev && needs != s.mode then (s, ["bad-op"]) else
      if evPanics s.n s.m ev then (s, ["panic"]) else
      let s' := { s with evs := s.evs ++ [ev] }
      (s', specObs s')
    | some (.flip i c1 c2) =>
      -- both legs are closed positions of instrument i: the tear sheet is that of the whole history
      if !s.started || s.mode != .engine then (s, ["bad-op"]) else
      if evPanics s.n s.m (.position i c1) || evPanics s.n s.m (.position i c2) then (s, ["panic"]) else
      let s' := { s with evs := s.evs ++ [.position i c1, .position i c2] }
      (s', specObs s')

end BarterModel.Driver.C16

def main (args : List String) : IO UInt32 :=
  BarterModel.Driver.runMain BarterModel.Driver.C16.model BarterModel.Driver.C16.spec args
