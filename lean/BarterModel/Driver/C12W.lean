import BarterModel.Driver.Common
import BarterModel.Model.ExchangeStream
/-! Line-protocol driver for C12W (ops: see `harness/src/bin/c12w.rs`). -/
namespace BarterModel.Driver.C12W
open BarterModel.Driver BarterModel.ExStream

/-! ### text plumbing (same conventions as the harness) -/

def hexU (n : Nat) : Char := if n < 10 then Char.ofNat (48 + n) else Char.ofNat (55 + n)

def escBytes (bs : List Nat) : String :=
  "=" ++ String.ofList (bs.flatMap fun b =>
    if 0x21 ≤ b ∧ b ≤ 0x7e ∧ b ≠ 0x25 then [Char.ofNat b] else ['%', hexU (b / 16), hexU (b % 16)])

def esc (s : String) : String := escBytes (utf8Bytes s)

def hexVal (c : Char) : Option Nat :=
  if '0' ≤ c ∧ c ≤ '9' then some (c.toNat - 48)
  else if 'a' ≤ c ∧ c ≤ 'f' then some (c.toNat - 87)
  else if 'A' ≤ c ∧ c ≤ 'F' then some (c.toNat - 55)
  else none

def unescGo : List Char → Option (List Nat)
  | [] => some []
  | '%' :: a :: b :: r =>
    match hexVal a, hexVal b, unescGo r with
    | some x, some y, some rest => some ((x * 16 + y) :: rest)
    | _, _, _ => none
  | '%' :: _ => none
  -- a raw non-ASCII character stands for its UTF-8 bytes (the harness reads the token as bytes)
  | c :: r => (unescGo r).map (utf8Bytes (String.singleton c) ++ ·)

/-- `=<esc>` token → string -/
def unesc (tok : String) : Option String :=
  match tok.toList with
  | '=' :: r =>
    match unescGo r with
    | some bs => match utf8Decode bs with
      | .ok cs => some (String.ofList cs)
      | .err _ _ => none
    | none => none
  | _ => none

def unhexGo : List Char → Option (List Nat)
  | [] => some []
  | a :: b :: r =>
    match hexVal a, hexVal b, unhexGo r with
    | some x, some y, some rest => some ((x * 16 + y) :: rest)
    | _, _, _ => none
  | _ => none

def unhex (tok : String) : Option (List Nat) := if tok == "-" then some [] else unhexGo tok.toList

/-! ### the JSON the harness types accept (glue: mirrors `serde_json` on the generated payloads) -/

def isWs (c : Char) : Bool := c == ' ' || c == '\t' || c == '\n' || c == '\r'

def trimWs (cs : List Char) : List Char := ((cs.dropWhile isWs).reverse.dropWhile isWs).reverse

/-- canonical JSON unsigned integer literal -/
def canonUint (ds : List Char) : Option Nat :=
  if ds.isEmpty || !ds.all isDigit then none
  else if ds.length > 1 && ds.head? == some '0' then none
  else some (natOfDigits ds)

/-- `serde_json::from_str::<Vec<u32>>`: elements after the opening bracket -/
def vecElems : Nat → List Char → Option (List Nat)
  | 0, _ => none
  | fuel + 1, cs =>
    let cs := cs.dropWhile isWs
    let (ds, r) := cs.span isDigit
    match canonUint ds with
    | none => none
    | some n =>
      if n > 4294967295 then none else
      match r.dropWhile isWs with
      | ',' :: r' => (vecElems fuel r').map (n :: ·)
      | ']' :: r' => if (r'.dropWhile isWs).isEmpty then some [n] else none
      | _ => none

def parseVecU32 (s : String) : Option (List Nat) :=
  match s.toList.dropWhile isWs with
  | '[' :: r =>
    match r.dropWhile isWs with
    | ']' :: r' => if (r'.dropWhile isWs).isEmpty then some [] else none
    | r' => vecElems (r'.length + 1) r'
  | _ => none

def deVec : De (List Nat) where
  text := parseVecU32
  binary bs := match utf8Decode bs with
    | .ok cs => parseVecU32 (String.ofList cs)
    | .err _ _ => none

/-- one JSON value as the `de.rs` helpers see it -/
def lexJson (s : String) : Json :=
  let cs := trimWs s.toList
  match cs with
  | '"' :: rest =>
    match rest.reverse with
    | '"' :: innerRev =>
      let inner := innerRev.reverse
      if inner.any (fun c => c == '"' || c.toNat < 0x20) then .other
      else if inner.any (· == '\\') then .str inner true
      else .str inner false
    | _ => .other
  | _ => match canonUint cs with
    | some n => .uint n
    | none => .other

/-- well-formed JSON scalars the generator puts into arrays: literals, plain strings, `-?d+(.d+)?` -/
def validScalar (cs : List Char) : Bool :=
  if cs.isEmpty then false
  else if cs == "null".toList || cs == "true".toList || cs == "false".toList then true
  else match lexJson (String.ofList cs) with
    | .str _ _ => true
    | .uint _ => true
    | .other =>
      let body := match cs with
        | '-' :: r => r
        | _ => cs
      let (ip, r) := body.span isDigit
      (canonUint ip).isSome &&
        (match r with
         | [] => true
         | '.' :: fp => !fp.isEmpty && fp.all isDigit
         | _ => false)

def splitOnComma (cs : List Char) : List (List Char) :=
  (String.ofList cs).splitOn "," |>.map String.toList

/-- a JSON array of scalar elements -/
def parseArr (s : String) : Option (List Json) :=
  match trimWs s.toList with
  | '[' :: rest =>
    match rest.reverse with
    | ']' :: innerRev =>
      let inner := innerRev.reverse
      if (trimWs inner).isEmpty then some []
      else
        let pieces := splitOnComma inner
        if pieces.any (fun p => !validScalar (trimWs p)) then none
        else some (pieces.map fun p => lexJson (String.ofList p))
    | _ => none
  | _ => none

/-! ### the scripted transformer and the instantiation of the model -/

inductive TErr where
  | socket (e : SocketError)
  | script (n : Nat)
  deriving DecidableEq, Repr

abbrev Msg := Except WsError WsMessage
abbrev Item := Except TErr Nat

/-- `ScriptT::transform` of the harness -/
def scriptT (acc : Nat) : List Nat → Nat × List Item
  | [] => (acc, [])
  | x :: xs =>
    if x % 7 = 0 then
      let (a, r) := scriptT acc xs
      (a, .error (.script acc) :: r)
    else
      let (a, r) := scriptT (acc + x) xs
      (a, .ok (acc + x) :: r)

def P : Params Msg SocketError (List Nat) Nat Nat TErr where
  parse := parse deVec
  conv := .socket
  transform := scriptT

/-- payload text standing for "the documentation does not say" in the spec driver -/
def unspecified : String := "\x00unspecified"

/-- the stream specification over the *documented* parser: where `specParse` is silent the error
item is marked and the spec driver prints nothing for it -/
def PSpec : Params Msg SocketError (List Nat) Nat Nat TErr :=
  { P with parse := fun m => match specParse deVec m with
      | some r => r
      | none => some (.error (.deserialise unspecified)) }

def isUnspecified : Item → Bool
  | .error (.socket (.deserialise p)) => p == unspecified
  | _ => false

def pollUnspecified : PollRes Item → Bool
  | .ready (some i) => isUnspecified i
  | _ => false

/-- `process_buffered_events` sees parse failures as absent -/
def PQuiet : Params Msg SocketError (List Nat) Nat Nat TErr := quiet P

/-! ### formats -/

def errKinds : List (String × WsError) :=
  [("closed", .connectionClosed), ("already", .alreadyClosed), ("io", .io), ("tls", .tls),
   ("capacity", .capacity), ("proto_sac", .protocol .sendAfterClosing),
   ("proto_rac", .protocol .receivedAfterClosing), ("proto_reset", .protocol .resetWithoutClosingHandshake),
   ("proto_other0", .protocol (.other 0)), ("proto_other1", .protocol (.other 1)),
   ("proto_other2", .protocol (.other 2)), ("proto_other3", .protocol (.other 3)),
   ("wbf", .writeBufferFull), ("utf8", .utf8), ("attack", .attackAttempt), ("url", .url), ("http", .http),
   ("httpfmt", .httpFormat)]

def wsErrorOf (k : String) : Option WsError := (errKinds.find? (·.1 == k)).map (·.2)

def wsErrorKind (e : WsError) : String :=
  match errKinds.find? (·.2 == e) with
  | some (k, _) => k
  | none => "proto_unknown"

def fmtSock : SocketError → String
  | .deserialise p => "deser " ++ esc p
  | .terminated s => "term " ++ esc s
  | .webSocket e => "ws " ++ wsErrorKind e

def fmtItem : Item → String
  | .ok n => "ok " ++ toString n
  | .error (.script n) => "terr " ++ toString n
  | .error (.socket e) => "sock " ++ fmtSock e

def fmtVec (v : List Nat) : String :=
  if v.isEmpty then "-" else ",".intercalate (v.map toString)

def fmtParsed : Parsed (List Nat) → String
  | none => "none"
  | some (.ok v) => "ok " ++ fmtVec v
  | some (.error e) => "err " ++ fmtSock e

def fmtPoll : PollRes Item → String
  | .pending => "pending"
  | .ready none => "none"
  | .ready (some i) => "item " ++ fmtItem i

def colon (s : String) : String := s.map fun c => if c == ' ' then ':' else c

def fmtBuf (b : List Item) : String :=
  if b.isEmpty then "-" else " ".intercalate (b.map fun i => colon (fmtItem i))

/-! ### op parsing -/

def parseMessage : List String → Option WsMessage
  | ["text", s] => (unesc s).map .text
  | ["bin", h] => (unhex h).map .binary
  | ["ping", h] => (unhex h).map .ping
  | ["pong", h] => (unhex h).map .pong
  | ["close", "none"] => some (.close none)
  | ["close", c, r] =>
    match c.toNat?, unesc r with
    | some c, some r => if c < 65536 then some (.close (some ⟨.ofU16 c, r⟩)) else none
    | _, _ => none
  | ["frame", h] => (unhex h).map .frame
  | _ => none

def parseInner : List String → Option (Inner Msg)
  | ["pend"] => some .pending
  | ["err", k] => (wsErrorOf k).map fun e => .item (.error e)
  | t => (parseMessage t).map fun m => .item (.ok m)

def parseBufItem (s : String) : Option Item :=
  match s.toList with
  | 'o' :: ds => (String.ofList ds).toNat?.map .ok
  | 'e' :: ds => (String.ofList ds).toNat?.map fun n => .error (.script n)
  | _ => none

def parseBuf (s : String) : Option (List Item) :=
  if s == "-" then some [] else (s.splitOn ",").mapM parseBufItem

/-! ### model driver -/

structure Live where
  st : St Msg Nat Nat TErr
  /-- transformer state and buffer right after construction (for `collect`) -/
  t0 : Nat
  buffer0 : List Item
  pushed : List (Inner Msg)

structure MSt where
  live : Option Live
  buffered : List Msg

def obsState (s : St Msg Nat Nat TErr) : List String :=
  ["buf " ++ fmtBuf s.buffer, "acc " ++ toString s.transformer,
   "queue " ++ toString s.stream.items.length ++ (if s.stream.ended then " ended" else " open")]

def obsQueue (s : St Msg Nat Nat TErr) : String :=
  "queue " ++ toString s.stream.items.length ++ (if s.stream.ended then " ended" else " open")

/-- poll until `Ready(None)` or `Pending` -/
def drainModel : Nat → St Msg Nat Nat TErr → List String → St Msg Nat Nat TErr × List String
  | 0, s, acc => (s, acc)
  | fuel + 1, s, acc =>
    let (s', r) := pollNext P s
    let acc := acc ++ ["out" ++ toString acc.length ++ " " ++ fmtPoll r]
    match r with
    | .ready (some _) => drainModel fuel s' acc
    | _ => (s', acc)

def fmtOutcomeTime : Outcome Nat → String
  | .ok t => "ok " ++ toString t
  | .err e => "err " ++ e
  | .panic => "panic"

/-- number of trailing zero bits (`fuel` ≥ bit length) -/
def tzNat : Nat → Nat → Nat
  | 0, _ => 0
  | fuel + 1, n => if n != 0 && n % 2 == 0 then 1 + tzNat fuel (n / 2) else 0

/-- the harness prints `big` instead of the exact fraction of a finite `f64` `±m·2^ex` (`m` odd)
when `ex > 60` or `ex < -120` (`f64_exact` in c12w.rs) -/
def f64IsBig (q : Rat) : Bool :=
  if q.den == 1 then tzNat (q.num.natAbs.log2 + 1) q.num.natAbs > 60
  else q.den.log2 > 120

def fmtF64 : F64 → String
  | .finite q => if f64IsBig q then "big" else fmtRat q
  | .inf false => "inf"
  | .inf true => "-inf"
  | .nan => "nan"

def u32Of : Json → Option Nat
  | .uint n => if n ≤ 4294967295 then some n else none
  | _ => none

def fieldNames : List String := ["f0", "f1", "f2", "f3", "f4", "f5"]

/-- ops that do not touch the stream; shared by model and (where the spec decides them) spec -/
def pureOp (toks : List String) : Option (List String) :=
  match toks with
  | "parse" :: "err" :: [k] =>
    (wsErrorOf k).map fun e =>
      let r := fmtParsed (parse deVec (.error e))
      ["parse " ++ r, "helper " ++ r]
  | "parse" :: rest =>
    (parseMessage rest).map fun m =>
      let direct : Parsed (List Nat) := match m with
        | .text t => processText deVec t
        | .binary b => processBinary deVec b
        | .ping p => processPing p
        | .pong p => processPong p
        | .close f => processCloseFrame f
        | .frame f => processFrame f
      let r := parse deVec (.ok m)
      let disp : List String := match r with
        | some (.error e) => match e.display with
          | some d => ["display " ++ esc d]
          | none => []
        | _ => []
      ["parse " ++ fmtParsed r] ++ disp ++ ["helper " ++ fmtParsed direct]
  | ["disc", k] => (wsErrorOf k).map fun e => ["disc " ++ fmtBool (isWebsocketDisconnected e)]
  | ["de_u64_ms", j] => (unesc j).map fun j => ["de " ++ fmtOutcomeTime (deU64EpochMs (lexJson j))]
  | ["de_str_u64_ms", j] => (unesc j).map fun j => ["de " ++ fmtOutcomeTime (deStrU64EpochMs (lexJson j))]
  -- `parseF64Fast` = `parseF64Str` evaluated without computing `10^E` for huge `|E|`
  -- (`Props.C12W.f64_fast_agrees`): a driver must not crash on `"0e99999999999"`
  | ["de_str_f64_ms", j] => (unesc j).map fun j =>
      ["de " ++ fmtOutcomeTime (deStrF64EpochMsWith (parseF64Fast ieee) (lexJson j))]
  | ["de_str_f64_s", j] => (unesc j).map fun j =>
      ["de " ++ fmtOutcomeTime (deStrF64EpochSWith (parseF64Fast ieee) (lexJson j))]
  | ["de_str_u64", j] => (unesc j).map fun j =>
      match deStr parseU64Str (lexJson j) with
      | .ok n => ["v ok " ++ toString n]
      | .err e => ["v err " ++ e]
      | .panic => ["v panic"]
  | ["de_str_f64", j] => (unesc j).map fun j =>
      match deStr (parseF64Fast ieee) (lexJson j) with
      | .ok x => ["v ok " ++ fmtF64 x]
      | .err e => ["v err " ++ e]
      | .panic => ["v panic"]
  | ["dur", s, n] =>
    match s.toNat?, n.toNat? with
    | some s, some n => some ["dt " ++ fmtOutcomeTime (ofDateTime (datetimeUtcFromEpochDuration ⟨s, n⟩))]
    | _, _ => none
  | ["extract", k, j] =>
    match k.toNat?, unesc j with
    | some k, some j =>
      match parseArr j with
      | none => some ["ex err " ++ eJson]
      | some js =>
        match extractAll u32Of (fieldNames.take k) js with
        | .ok (vs, rest) => some ["ex ok " ++ fmtVec vs ++ " rest=" ++ toString rest.length]
        | .error e => some ["ex err " ++ e]
    | _, _ => none
  | ["se", n] => n.toNat?.map fun n =>
      ["se " ++ esc ("[" ++ ",".intercalate ((seElementToVector n).map toString) ++ "]")]
  | _ => none

def msgsOf (l : List (Inner Msg)) : List (Inner Msg) :=
  l.filter fun | .item _ => true | .pending => false

def model : Drv MSt where
  init := ⟨none, []⟩
  step s toks :=
    match toks with
    | "bpush" :: rest =>
      match parseMessage rest with
      | some m => ({ s with buffered := s.buffered ++ [.ok m] }, [])
      | none => (s, ["bad-op"])
    | ["new", a, b] =>
      match a.toNat?, parseBuf b with
      | some acc0, some buf =>
        let (t, pre) := processBuffered P acc0 s.buffered
        let st : St Msg Nat Nat TErr := St.new ⟨[], false⟩ t (pre ++ buf)
        (⟨some ⟨st, t, pre ++ buf, []⟩, []⟩, obsState st)
      | _, _ => (s, ["bad-op"])
    | "push" :: rest =>
      match s.live, parseInner rest with
      | some l, some ev =>
        let st := { l.st with stream := { l.st.stream with items := l.st.stream.items ++ [ev] } }
        ({ s with live := some { l with st := st, pushed := l.pushed ++ [ev] } }, [obsQueue st])
      | _, _ => (s, ["bad-op"])
    | ["end"] =>
      match s.live with
      | some l =>
        let st := { l.st with stream := { l.st.stream with ended := true } }
        ({ s with live := some { l with st := st } }, [obsQueue st])
      | none => (s, ["bad-op"])
    | ["poll"] =>
      match s.live with
      | some l =>
        let (st, r) := pollNext P l.st
        ({ s with live := some { l with st := st } }, ("poll " ++ fmtPoll r) :: obsState st)
      | none => (s, ["bad-op"])
    | ["drain"] =>
      match s.live with
      | some l =>
        let (st, outs) := drainModel 10000 l.st []
        ({ s with live := some { l with st := st } }, outs ++ obsState st)
      | none => (s, ["bad-op"])
    | ["collect"] =>
      match s.live with
      | some l =>
        let fresh : St Msg Nat Nat TErr := St.new ⟨msgsOf l.pushed, true⟩ l.t0 l.buffer0
        let n := fresh.buffer.length + fresh.stream.items.length * 8 + 1
        let items := itemsOf (polls P (n * 8) fresh)
        (s, (items.zipIdx.map fun (i, k) => "col" ++ toString k ++ " " ++ fmtItem i) ++
          ["coln " ++ toString items.length])
      | none => (s, ["bad-op"])
    | _ =>
      match pureOp toks with
      | some lines => (s, lines)
      | none => (s, ["bad-op"])

/-! ### spec driver: everything is recomputed from the history -/

structure SpecSt where
  started : Bool
  buffered : List Msg
  /-- the stream as constructed: transformer state, initial buffer; script = everything pushed so far -/
  st0 : St Msg Nat Nat TErr
  /-- number of polls answered from the determined part of `specPolls` -/
  k : Nat

def specDrain : Nat → Nat → SpecSt → List String → SpecSt × List String
  | 0, _, s, acc => (s, acc)
  | fuel + 1, i, s, acc =>
    let r := specPollAt PSpec s.st0 s.k
    let s' := if s.k < (specPolls PSpec s.st0).length then { s with k := s.k + 1 } else s
    let acc := if pollUnspecified r then acc else acc ++ ["out" ++ toString i ++ " " ++ fmtPoll r]
    match r with
    | .ready (some _) => specDrain fuel (i + 1) s' acc
    | _ => (s', acc)

/-- the parser according to the decision table of the documentation; `none` = the spec is silent -/
def specParseLine (m : Msg) : Option String :=
  (specParse deVec m).map fun r => "parse " ++ fmtParsed r

def decimalOfJsonStr (j : Json) : Option (List Char) :=
  match j with
  | .str cs false => some cs
  | _ => none

/-- empty, or containing a character that occurs nowhere in the documented grammar of
`f64::from_str` (digits, sign, dot, exponent letter, the letters of inf / infinity / nan) -/
def foreignToFloat (cs : List Char) : Bool :=
  cs.isEmpty || cs.any fun c => !(isDigit c || "+-.eEinfatyINFATY".toList.contains c)

/-! #### spec-side reading of a decimal numeral, written from the grammar in the std docs
(`Number ::= (Digit+ | Digit+ '.' Digit* | Digit* '.' Digit+) Exp?`, `Exp ::= 'e' Sign? Digit+`),
independent of the model's `parseNumber` / `parseNumberParts` / `nearestF64` -/

def specDigits (s : String) : Option (List Char) :=
  if s.toList.all isDigit then some s.toList else none

/-- `i`, `i.`, `i.f`, `.f` → (mantissa, number of mantissa digits, number of fraction digits) -/
def specMantissa (s : String) : Option (Nat × Nat × Nat) :=
  match s.splitOn "." with
  | [i] =>
    match specDigits i with
    | some ds => if ds.isEmpty then none else some (specNumeral ds, ds.length, 0)
    | none => none
  | [i, f] =>
    match specDigits i, specDigits f with
    | some a, some b => if a.isEmpty && b.isEmpty then none else some (specNumeral (a ++ b), a.length + b.length, b.length)
    | _, _ => none
  | _ => none

def specExponent (s : String) : Option Int :=
  let (neg, body) : Bool × List Char := match s.toList with
    | '-' :: r => (true, r)
    | '+' :: r => (false, r)
    | r => (false, r)
  if body.isEmpty || !body.all isDigit then none
  else some (if neg then -(specNumeral body : Int) else (specNumeral body : Int))

/-- an UNSIGNED numeral: `(m, D, E)` with value `m · 10^E`, `D` = number of mantissa digits -/
def specDecimal (cs : List Char) : Option (Nat × Nat × Int) :=
  let s := String.ofList (cs.map fun c => if c == 'E' then 'e' else c)
  match s.splitOn "e" with
  | [mant] => (specMantissa mant).map fun (m, d, f) => (m, d, -(f : Int))
  | [mant, ex] =>
    match specMantissa mant, specExponent ex with
    | some (m, d, f), some e => some (m, d, e - (f : Int))
    | _, _ => none
  | _ => none

/-- odd part of a positive number -/
def oddPart : Nat → Nat → Nat
  | 0, n => n
  | fuel + 1, n => if n != 0 && n % 2 == 0 then oddPart fuel (n / 2) else n

/-- is the non-negative rational a binary64 number? (`k·2^x`, `k < 2^53`, `x ≥ -1074`, `< 2^1024`) -/
def specIsBinary64 (q : Rat) : Bool :=
  let n := q.num.toNat
  n == 0 ||
    (oddPart (q.den.log2 + 1) q.den == 1 && q.den.log2 ≤ 1074 &&
     oddPart (n.log2 + 1) n < 2 ^ 53 && q < (2 : Rat) ^ (1024 : Nat))

/-- chrono's last representable second (+262142-12-31T23:59:59Z), spec-side constant -/
def specLastSecond : Nat := 8210266876799

/-- **When the helpers must panic** (the code's `unwrap` inside chrono's `From<SystemTime>`; the
doc comments are silent, the bound is chrono's): the value lies beyond chrono's last instant.
For the `f64` helpers the value is the binary64 nearest to the decimal; at the bound binary64 is
spaced 1 ms (8.2e15 ∈ [2^52, 2^53)) resp. 2^-10 s (8.2e12 ∈ [2^42, 2^43)) and the bound has an even
mantissa, so the decimals that round into the band are exactly those from half a spacing below
the bound upwards. Written by hand from these facts; `nearestF64` is not consulted. -/
def specBeyondMs (q : Rat) : Bool := ((specLastSecond + 1) * 1000 : Nat) - (1 : Rat) / 2 ≤ q
def specBeyondS (q : Rat) : Bool := ((specLastSecond + 1 : Nat) : Rat) - (1 : Rat) / 2048 ≤ q

/-- spec for the time helpers: decided where the documentation (value) or chrono's range (panic)
decides it — a plain decimal numeral (resp. a decimal number that binary64 represents exactly)
inside chrono's range is the instant; a value beyond chrono's last instant is a panic -/
def specDe (op : String) (j : Json) : Option String :=
  let inRange (nanos : Nat) : Option String :=
    if nanos / nanosPerSec ≤ specLastSecond then some ("de ok " ++ toString nanos) else some "de panic"
  let f64Helper (cs : List Char) (beyond : Rat → Bool) (instant : Rat → Nat) : Option String :=
    if foreignToFloat cs then some "de err {fempty|finvalid}" else
    match specDecimal cs with
    | none => none          -- signs, words, malformed numerals: not decided here
    | some (m, d, e) =>
      if m == 0 then some "de ok 0"                        -- zero whatever the exponent
      else if 400 ≤ e then some "de panic"                 -- ≥ 10^400: beyond everything
      else if e + (d : Int) ≤ -400 then none               -- < 10^-400: rounding decides, silent
      else
        let q : Rat := (m : Rat) * (10 : Rat) ^ e
        if beyond q then some "de panic"
        else if specIsBinary64 q then inRange (instant q) else none
  match op with
  | "de_u64_ms" =>
    match j with
    | .uint n => if n ≤ u64Max then inRange (specEpochMs n) else some "de err json"
    | _ => some "de err json"
  | "de_str_u64_ms" =>
    match j with
    | .str cs false =>
      -- std: "an optional + sign followed by only digits; leading and trailing non-digit characters
      -- (including whitespace) represent an error"
      let ds := match cs with
        | '+' :: r => r
        | _ => cs
      if !ds.isEmpty && ds.all isDigit && specNumeral ds ≤ u64Max then inRange (specEpochMs (specNumeral ds))
      else some "de err {empty|digit|overflow}"
    | _ => some "de err json"
  | "de_str_f64_ms" =>
    match j with
    | .str cs false => f64Helper cs specBeyondMs fun q => specEpochMs q.floor.toNat
    | _ => some "de err json"
  | "de_str_f64_s" =>
    match j with
    | .str cs false => f64Helper cs specBeyondS fun q => (roundHalfEven (q * nanosPerSec)).toNat
    | _ => some "de err json"
  | _ => none

def spec : Drv SpecSt where
  init := ⟨false, [], St.new ⟨[], false⟩ 0 [], 0⟩
  step s toks :=
    match toks with
    | "bpush" :: rest =>
      match parseMessage rest with
      | some m => ({ s with buffered := s.buffered ++ [.ok m] }, [])
      | none => (s, ["bad-op"])
    | ["new", a, b] =>
      match a.toNat?, parseBuf b with
      | some acc0, some buf =>
        -- buffered events count as if they had come through the stream, parse failures dropped
        let t := specState PQuiet acc0 s.buffered
        let pre := specOut PQuiet acc0 s.buffered
        (⟨true, [], St.new ⟨[], false⟩ t (pre ++ buf), 0⟩, ["buf " ++ fmtBuf (pre ++ buf)])
      | _, _ => (s, ["bad-op"])
    | "push" :: rest =>
      match s.started, parseInner rest with
      | true, some ev =>
        ({ s with st0 := { s.st0 with stream := { s.st0.stream with items := s.st0.stream.items ++ [ev] } } }, [])
      | _, _ => (s, ["bad-op"])
    | ["end"] =>
      if s.started then ({ s with st0 := { s.st0 with stream := { s.st0.stream with ended := true } } }, [])
      else (s, ["bad-op"])
    | ["poll"] =>
      if s.started then
        let r := specPollAt PSpec s.st0 s.k
        let s' := if s.k < (specPolls PSpec s.st0).length then { s with k := s.k + 1 } else s
        (s', if pollUnspecified r then [] else ["poll " ++ fmtPoll r])
      else (s, ["bad-op"])
    | ["drain"] =>
      if s.started then
        let (s', outs) := specDrain 10000 0 s []
        (s', outs)
      else (s, ["bad-op"])
    | ["collect"] =>
      if s.started then
        let items := s.st0.buffer ++ specOut PSpec s.st0.transformer (messages s.st0.stream.items)
        (s, (items.zipIdx.filterMap fun (i, k) =>
              if isUnspecified i then none else some ("col" ++ toString k ++ " " ++ fmtItem i)) ++
            ["coln " ++ toString items.length])
      else (s, ["bad-op"])
    | "parse" :: "err" :: [k] =>
      match wsErrorOf k with
      | some e => (s, (specParseLine (.error e)).toList)
      | none => (s, ["bad-op"])
    | "parse" :: rest =>
      match parseMessage rest with
      | some m => (s, (specParseLine (.ok m)).toList)
      | none => (s, ["bad-op"])
    | ["disc", k] =>
      match wsErrorOf k with
      | some e => (s, ((specDisconnected e).map fun b => "disc " ++ fmtBool b).toList)
      | none => (s, ["bad-op"])
    | "extract" :: _ | "se" :: _ =>
      -- the documented contract of `extract_next` / `se_element_to_vector` is complete: the spec is the function
      match pureOp toks with
      | some lines => (s, lines)
      | none => (s, ["bad-op"])
    | ["de_str_u64", j] =>
      match unesc j with
      | some j =>
        match lexJson j with
        | .str cs false =>
          let ds := match cs with
            | '+' :: r => r
            | _ => cs
          if !ds.isEmpty && ds.all isDigit && specNumeral ds ≤ u64Max then (s, ["v ok " ++ toString (specNumeral ds)])
          else (s, ["v err {empty|digit|overflow}"])
        | _ => (s, ["v err json"])
      | none => (s, ["bad-op"])
    | ["de_str_f64", j] =>
      match unesc j with
      | some j =>
        match lexJson j with
        | .str cs false => (s, if foreignToFloat cs then ["v err {fempty|finvalid}"] else [])
        | _ => (s, ["v err json"])
      | none => (s, ["bad-op"])
    | [op, j] =>
      if op == "de_u64_ms" || op == "de_str_u64_ms" || op == "de_str_f64_ms" || op == "de_str_f64_s" then
        match unesc j with
        | some j => (s, (specDe op (lexJson j)).toList)
        | none => (s, ["bad-op"])
      else
        match pureOp toks with
        | some _ => (s, [])
        | none => (s, ["bad-op"])
    | _ =>
      match pureOp toks with
      | some _ => (s, [])
      | none => (s, ["bad-op"])

end BarterModel.Driver.C12W

def main (args : List String) : IO UInt32 :=
  BarterModel.Driver.runMain BarterModel.Driver.C12W.model BarterModel.Driver.C12W.spec args
