/-
Line-protocol plumbing shared by every per-property model driver (core Lean only, so that the
drivers link as `lean_exe`).

Protocol (stdin → stdout), identical for the Rust harness (`run`) and for these drivers:
  `case <id>`        resets the state; echoed as `case <id>`
  any other line     one operation; tokens separated by single spaces; the driver prints `@`
                     followed by zero or more observation lines `key tok tok ...`
Rationals are written `n` or `n/d` in lowest terms (`d > 1`); a token starting with `~` is compared
with a tolerance by the orchestrator, every other token literally.
-/
namespace BarterModel.Driver

def fmtRat (r : Rat) : String :=
  if r.den == 1 then toString r.num else toString r.num ++ "/" ++ toString r.den

def fmtRatApprox (r : Rat) : String := "~" ++ fmtRat r

def fmtOptRat : Option Rat → String
  | none => "none"
  | some r => fmtRat r

def fmtOptRatApprox : Option Rat → String
  | none => "none"
  | some r => fmtRatApprox r

def fmtBool (b : Bool) : String := if b then "1" else "0"

def parseInt? (s : String) : Option Int := s.toInt?

def pow10 (n : Nat) : Nat := 10 ^ n

/-- Parses `-12`, `12.50`, `n/d`. Never defaults: malformed ⇒ `none`. -/
def parseRat? (s : String) : Option Rat :=
  match s.splitOn "/" with
  | [n, d] =>
    match n.toInt?, d.toNat? with
    | some n, some d => if d == 0 then none else some (mkRat n d)
    | _, _ => none
  | [x] =>
    match x.splitOn "." with
    | [i] => (i.toInt?).map (fun (z : Int) => (z : Rat))
    | [i, f] =>
      let neg := i.startsWith "-"
      let iabs := if neg then (i.drop 1).toString else i
      match (if iabs.isEmpty then some 0 else iabs.toNat?), (if f.isEmpty then some 0 else f.toNat?) with
      | some ip, some fp =>
        let scale := pow10 f.length
        let v : Rat := mkRat (Int.ofNat (ip * scale + fp)) scale
        some (if neg then -v else v)
      | _, _ => none
    | _ => none
  | _ => none

def parseNat? (s : String) : Option Nat := s.toNat?

def tokens (line : String) : List String :=
  (line.trimAscii.toString.splitOn " ").filter (fun t => !t.isEmpty)

/-- A per-property driver: a state, and a step from one tokenised op line to output lines. -/
structure Drv (σ : Type) where
  init : σ
  step : σ → List String → σ × List String

partial def loop {σ : Type} (d : Drv σ) (h : IO.FS.Stream) (out : IO.FS.Stream) (s : σ) : IO Unit := do
  let line ← h.getLine
  if line.isEmpty then return ()
  let toks := tokens line
  match toks with
  | [] => loop d h out s
  | "case" :: rest =>
    out.putStrLn ("case " ++ " ".intercalate rest)
    loop d h out d.init
  | _ =>
    if (toks.head!).startsWith "#" then loop d h out s else
    let (s', lines) := d.step s toks
    out.putStrLn "@"
    for l in lines do out.putStrLn l
    loop d h out s'

/-- Entry point used by each `Driver/Cxx.lean`: argv[0] selects `model` or `spec`. -/
def runMain {σ τ : Type} (model : Drv σ) (spec : Drv τ) (args : List String) : IO UInt32 := do
  let stdin ← IO.getStdin
  let stdout ← IO.getStdout
  match args with
  | ["model"] => loop model stdin stdout model.init; stdout.flush; return 0
  | ["spec"] => loop spec stdin stdout spec.init; stdout.flush; return 0
  | _ => IO.eprintln "usage: drv (model|spec) < ops"; return 2

end BarterModel.Driver
