import BarterModel.Driver.Common
import BarterModel.Model.Engine
/-!
Shared line-protocol front end for the engine-level drivers (C03, C19).

  `init <on|off> L <link letters H|C|M per exchange> I <ex,base,quote>...`
  `algo <req>...`                      strategy output for the NEXT event only
  `ev shutdown`
  `ev cmd_open <req>...` | `ev cmd_cancel <req>...`
  `ev cancel_orders <filter>` | `ev close_positions <filter>`
  `ev trading <on|off>`
  `ev snap i c q p K a b d` | `ev resp i c ok|err`      (C01 syntax)
  `ev fill i <B|S> qty` | `ev flat i` | `ev price i p` | `ev reduce i` (partial reduction by half)
  `ev other <mktre|accre|bal> <exchange>`   market / account disconnect notice, balance snapshot
requests:  `c:<ex>:<ins>:<cid>[:<order id>]`   `o:<ex>:<ins>:<cid>:<B|S>:<price>:<qty>`
filters :  `none` | `ex:0,1` | `ins:0,2` | `und:0-1,2-1`
The risk manager refuses exactly the requests whose client order id is >= 5000.
-/
namespace BarterModel.Driver.EngineCommon
open BarterModel.Driver BarterModel.Engine BarterModel.Orders

def refuse (k : Key) : Bool := k.cid ≥ 5000

structure St where
  eng : Eng
  algoC : List CancelReq
  algoO : List OpenReq

def St.init : St := ⟨⟨false, [], [], [], 0⟩, [], []⟩

def parseSide : String → Option Side
  | "B" => some .buy
  | "S" => some .sell
  | _ => none

def fmtSide : Side → String
  | .buy => "B"
  | .sell => "S"

inductive PReq where
  | c (r : CancelReq)
  | o (r : OpenReq)

def parseReq (s : String) : Option PReq :=
  match s.splitOn ":" with
  | ["c", ex, ins, cid] =>
    match ex.toNat?, ins.toNat?, cid.toNat? with
    | some ex, some ins, some cid => some (.c ⟨⟨ex, ins, cid⟩, none⟩)
    | _, _, _ => none
  | ["c", ex, ins, cid, id] =>
    match ex.toNat?, ins.toNat?, cid.toNat?, id.toNat? with
    | some ex, some ins, some cid, some id => some (.c ⟨⟨ex, ins, cid⟩, some id⟩)
    | _, _, _, _ => none
  | ["o", ex, ins, cid, side, p, q] =>
    match ex.toNat?, ins.toNat?, cid.toNat?, parseSide side, parseRat? p, parseRat? q with
    | some ex, some ins, some cid, some side, some p, some q => some (.o ⟨⟨ex, ins, cid⟩, side, p, q⟩)
    | _, _, _, _, _, _ => none
  | _ => none

def parseReqs (ts : List String) : Option (List CancelReq × List OpenReq) :=
  ts.foldl (fun acc t =>
    match acc, parseReq t with
    | some (cs, os), some (.c r) => some (cs ++ [r], os)
    | some (cs, os), some (.o r) => some (cs, os ++ [r])
    | _, _ => none) (some ([], []))

def parseNatList (s : String) : Option (List Nat) :=
  (s.splitOn ",").foldl (fun acc t => match acc, t.toNat? with
    | some l, some n => some (l ++ [n])
    | _, _ => none) (some [])

def parseFilter (s : String) : Option Filter :=
  if s == "none" then some .none else
  match s.splitOn ":" with
  | ["ex", l] => (parseNatList l).map .exchanges
  | ["ins", l] => (parseNatList l).map .instruments
  | ["und", l] =>
    ((l.splitOn ",").foldl (fun acc t => match acc, t.splitOn "-" with
      | some l, [a, b] => match a.toNat?, b.toNat? with
        | some a, some b => some (l ++ [(a, b)])
        | _, _ => none
      | _, _ => none) (some [])).map .underlyings
  | _ => none

def fmtCancel (r : CancelReq) : String :=
  s!"c:{r.key.exchange}:{r.key.instrument}:{r.key.cid}" ++
    (match r.id with | some id => s!":{id}" | none => "")

def fmtOpenReq (r : OpenReq) : String :=
  s!"o:{r.key.exchange}:{r.key.instrument}:{r.key.cid}:{fmtSide r.side}:{fmtRat r.price}:{fmtRat r.quantity}"

def fmtReq : Req → String
  | .cnl r => fmtCancel r
  | .opn r => fmtOpenReq r

def fmtErr : SendError → String
  | .index => "index"
  | .terminated => "terminated"
  | .unhealthy => "unhealthy"

def fmtOpen (o : Open) : String := s!"({o.id},{o.t},{fmtRat o.filled})"
def fmtActive : Active → String
  | .inFlight => "F"
  | .opn o => "O" ++ fmtOpen o
  | .cancelInFlight none => "C(-)"
  | .cancelInFlight (some o) => "C" ++ fmtOpen o

def joinOr (l : List String) : String := " ".intercalate l

def parseOState : List String → Option OState
  | ["F", _, _, _] => some (.active .inFlight)
  | ["O", a, b, d] =>
    match a.toNat?, b.toInt?, parseRat? d with
    | some id, some t, some f => some (.active (.opn ⟨id, t, f⟩))
    | _, _, _ => none
  | ["X", _, _, _] => some (.inactive .cancelled)
  | _ => none

def parseInit (toks : List String) : Option Eng :=
  match toks with
  | on :: "L" :: links :: "I" :: instrs =>
    let enabled := on == "on"
    let ls := links.toList.map fun c => if c == 'H' then Link.healthy else if c == 'C' then Link.closed else if c == 'U' then Link.unhealthy else Link.missing
    let is := instrs.foldl (fun acc t => match acc, (t.splitOn ",").map String.toNat? with
      | some l, [some ex, some b, some q] => some (l ++ [(⟨ex, b, q, [], none, none⟩ : Instr)])
      | _, _ => none) (some [])
    is.map fun is => ⟨enabled, ls, [], is, 0⟩
  | _ => none

def parseEvent (toks : List String) : Option Event :=
  match toks with
  | ["shutdown"] => some .shutdown
  | "cmd_open" :: rs => (parseReqs rs).bind fun (cs, os) => if cs.isEmpty then some (.command (.sendOpenRequests os)) else none
  | "cmd_cancel" :: rs => (parseReqs rs).bind fun (cs, os) => if os.isEmpty then some (.command (.sendCancelRequests cs)) else none
  | ["cancel_orders", f] => (parseFilter f).map fun f => .command (.cancelOrders f)
  | ["close_positions", f] => (parseFilter f).map fun f => .command (.closePositions f)
  | ["trading", "on"] => some (.tradingState true)
  | ["trading", "off"] => some (.tradingState false)
  | ["snap", i, c, q, p, k, a, b, d] =>
    match i.toNat?, c.toNat?, parseRat? q, parseRat? p, parseOState [k, a, b, d] with
    | some i, some c, some q, some p, some st => some (.update (.order i (.snapshot ⟨c, q, p, st, 0⟩)))
    | _, _, _, _, _ => none
  | ["resp", i, c, r] =>
    match i.toNat?, c.toNat?, (if r == "ok" then some true else if r == "err" then some false else none) with
    | some i, some c, some ok => some (.update (.order i (.cancelResp c ok)))
    | _, _, _ => none
  | ["fill", i, side, q] =>
    match i.toNat?, parseSide side, parseRat? q with
    | some i, some side, some q => some (.update (.position i side q))
    | _, _, _ => none
  | ["flat", i] => i.toNat?.map fun i => .update (.flat i)
  | ["price", i, p] =>
    match i.toNat?, parseRat? p with
    | some i, some p => some (.update (.price i p))
    | _, _ => none
  -- `other mktre|accre|bal <exchange>`: a disconnect notice / balance snapshot: state outside this model
  | ["other", _, _] => some (.update .other)
  | _ => none

/-- `ev reduce i`: a fill on the opposite side for HALF of the open quantity (a partial reduction: the
position keeps its side, `quantity_abs` halves while `quantity_abs_max` stays). Needs the state, so
it is resolved here; every other event is `parseEvent`. -/
def resolveEvent (e : Eng) (toks : List String) : Option Event :=
  match toks with
  | ["reduce", i] =>
    i.toNat?.map fun i =>
      match e.instruments[i]? with
      | some s => (match s.position with
        | some (side, q) => Event.update (.position i side (q / 2))
        | none => Event.update (.flat i))
      | none => Event.update (.flat i)
  -- `ev fill i side q` with q > 0: an account trade, NETTED against the open position of instrument `i`
  -- (`Engine.fillUpdate` / `netFill`: increase, reduce, close exactly, flip); on a flat instrument this is
  -- `.position i side q` as before
  | ["fill", i, side, q] =>
    match i.toNat?, parseSide side, parseRat? q with
    | some i, some side, some q =>
      if 0 < q then some (Event.update (fillUpdate e i side q)) else parseEvent toks
    | _, _, _ => none
  | _ => parseEvent toks

def Event.instrumentsInRange (n : Nat) : Event → Bool
  | .update (.order i _) => i < n
  | .update (.position i _ _) => i < n
  | .update (.flat i) => i < n
  | .update (.price i _) => i < n
  | _ => true

/-- `ev flat i` on an instrument without a position: the harness has no closing fill to send -/
def isNoopFlat (e : Eng) : Event → Bool
  | .update (.flat i) => match e.instruments[i]? with
    | some s => s.position.isNone
    | none => false
  | _ => false

/-- order snapshots delivered by the harness carry the key of the instrument's own exchange -/
def fixExchange (e : Eng) : Event → Event
  | .update (.order i (.snapshot sn)) =>
    .update (.order i (.snapshot { sn with exchange := (e.instruments[i]?.map (·.exchange)).getD 0 }))
  | ev => ev

def sortCancels (l : List CancelReq) : List CancelReq :=
  (l.toArray.qsort (fun a b => a.key.instrument < b.key.instrument ||
    (a.key.instrument == b.key.instrument && a.key.cid < b.key.cid))).toList

def sendOutLines {α : Type} (pfx : String) (fmt : α → String) (o : SendOut α) : List String :=
  [ s!"{pfx}_sent " ++ joinOr (o.sent.map fmt),
    s!"{pfx}_err " ++ joinOr (o.errors.map fun (r, e) => fmt r ++ "!" ++ fmtErr e) ]

def obsState (e : Eng) : List String :=
  ((e.instruments.zipIdx.map fun (s, i) =>
    let l := (s.orders.toArray.qsort (fun a b => a.1 < b.1)).toList
    [ s!"ord{i} " ++ joinOr (l.map fun (c, o) => s!"{c}:{fmtActive o.state}"),
      (match s.position with
        | none => s!"pos{i} none"
        | some (side, q) => s!"pos{i} {fmtSide side}:{fmtRat q}"),
      (match s.price with
        | none => s!"price{i} none"
        | some p => s!"price{i} {fmtRat p}") ]).flatten) ++
  [ "trading " ++ (if e.enabled then "on" else "off"), s!"disabled_calls {e.disabledCalls}" ]

/-- observations of one processed event: what each link received during this tick, the audit, the
resulting state -/
def obsTick (before after : Eng) (a : Audit) : List String :=
  let newLog := after.log.drop before.log.length
  (before.links.zipIdx.map fun (l, x) =>
    match l with
    | .healthy | .unhealthy => s!"rx{x} " ++ joinOr ((newLog.filter fun r => r.key.exchange == x).map fmtReq)
    | _ => s!"rx{x} -") ++
  (match a.commanded with
    | some c => sendOutLines "cmd_c" fmtCancel c.cancels ++ sendOutLines "cmd_o" fmtOpenReq c.opens
    | none => ["cmd none"]) ++
  (match a.algoInAudit with
    | some g => sendOutLines "algo_c" fmtCancel g.cancels ++ sendOutLines "algo_o" fmtOpenReq g.opens ++
        [ "algo_ref_c " ++ joinOr (g.cancelsRefused.map fmtCancel),
          "algo_ref_o " ++ joinOr (g.opensRefused.map fmtOpenReq) ]
    | none => ["algo none"]) ++
  [ "fatal " ++ fmtBool a.fatal ] ++ obsState after

/-- `cancel_orders` iterates a hash map: canonicalise the order of the requests it generated (the
harness sorts the same way) -/
def canonCancelOrders (ev : Event) (before after : Eng) (a : Audit) : Eng × Audit :=
  match ev, a.commanded with
  | .command (.cancelOrders _), some c =>
    let newLog := after.log.drop before.log.length
    let k := c.cancels.sent.length
    -- the command's cancels are the first k deliveries of the tick
    let cs := sortCancels ((newLog.take k).filterMap fun | .cnl r => some r | _ => none)
    ({ after with log := before.log ++ cs.map Req.cnl ++ newLog.drop k },
     let errs := (c.cancels.errors.toArray.qsort (fun a b => a.1.key.instrument < b.1.key.instrument ||
              (a.1.key.instrument == b.1.key.instrument && a.1.key.cid < b.1.key.cid))).toList
     let c' : ActionOut := { c with cancels := ⟨sortCancels c.cancels.sent, errs⟩ }
     { a with commanded := some c' })
  | _, _ => (after, a)

/-! ### Digest of the event an audit record carries (C10 `rec_ev` / `run_ev`; additive) -/

/-- number of `Underlying`s the harness's `parse_filter` builds for the label pairs of an `und:` filter:
one per exchange that has both assets (an asset exists on an exchange iff one of the exchange's
instruments has it as base or quote), a single placeholder when there is none -/
def undExpansion (e : Eng) (l : List (Nat × Nat)) : Nat :=
  let has := fun (x a : Nat) => e.instruments.any fun s => s.exchange == x && (s.base == a || s.quote == a)
  let n := (l.map fun (b, q) => ((List.range e.links.length).filter fun x => has x b && has x q).length).foldl (· + ·) 0
  if n == 0 then 1 else n

def joinComma (l : List Nat) : String := ",".intercalate (l.map toString)

/-- `engine_proto.rs filter_digest` -/
def filterDigest (e : Eng) : Filter → String
  | .none => "none"
  | .exchanges l => "ex:" ++ joinComma l
  | .instruments l => "ins:" ++ joinComma l
  | .underlyings l => s!"und:{undExpansion e l}"

def fmtOStateDigest : OState → String
  | .active a => fmtActive a
  | .inactive _ => "X"

/-- `engine_proto.rs event_digest`: kind + identifying fields of an event. `pre` is the engine state
BEFORE the event: the model's `.flat i` / `.position i side q` updates stand for the account TRADE the
harness builds against that state (`build_event`): `flat` = opposite side of the open position, full
quantity; a `.position` on an instrument that holds a position = the trade that takes the open position
to the new one (`tradeBetween`: `reduce`, and `fill` netted by `fillUpdate`); otherwise (`fill` on a flat
instrument) the side and quantity as given. -/
def eventDigest (pre : Eng) : Event → String
  | .shutdown => "shutdown"
  | .command (.sendOpenRequests rs) => "cmd_open " ++ joinOr (rs.map fmtOpenReq)
  | .command (.sendCancelRequests rs) => "cmd_cancel " ++ joinOr (rs.map fmtCancel)
  | .command (.cancelOrders f) => "cancel_orders " ++ filterDigest pre f
  | .command (.closePositions f) => "close_positions " ++ filterDigest pre f
  | .tradingState on => "trading " ++ (if on then "on" else "off")
  | .update (.order i (.snapshot sn)) =>
    s!"snap {i} {sn.cid} {fmtRat sn.quantity} {fmtRat sn.price} {fmtOStateDigest sn.state}"
  | .update (.order i (.cancelResp c ok)) => s!"resp {i} {c} " ++ (if ok then "ok" else "err")
  | .update (.order _ _) => "other"
  | .update (.position i side q) =>
    (match (pre.instruments[i]?).bind (·.position) with
      | some (pside, pq) =>
        -- the trade that takes the open position to `(side, q)` (inverse of `netFill`:
        -- Props.C19.netted_trade_is_recovered); same signed quantity: the values as given
        (match tradeBetween (some (pside, pq)) (some (side, q)) with
          | some (ts, tq) => s!"trade {i} {fmtSide ts} {fmtRat tq}"
          | none => s!"trade {i} {fmtSide side} {fmtRat q}")
      | none => s!"trade {i} {fmtSide side} {fmtRat q}")
  | .update (.flat i) =>
    (match (pre.instruments[i]?).bind (·.position) with
      | some (pside, pq) => s!"trade {i} {fmtSide pside.opposite} {fmtRat pq}"
      | none => s!"trade {i} - 0")
  | .update (.price i p) => s!"price {i} {fmtRat p}"
  | .update .other => "other"

/-- `engine_proto.rs output_kinds` on the model's audit: the `Commanded` output is named after the real
`ActionOutput` variant `Engine::action` returns for the command (`SendCancelRequests` and `CancelOrders`
both yield `ActionOutput::CancelOrders`), then `algo` iff the `AlgoOrders` output is in the audit -/
def outputKinds (ev : Event) (a : Audit) : List String :=
  (match a.commanded, ev with
    | some _, .command (.sendCancelRequests _) => ["cmd:cancel_orders"]
    | some _, .command (.cancelOrders _) => ["cmd:cancel_orders"]
    | some _, .command (.sendOpenRequests _) => ["cmd:open_orders"]
    | some _, .command (.closePositions _) => ["cmd:close_positions"]
    | some _, _ => ["cmd:?"]
    | none, _ => []) ++
  (match a.algoInAudit with | some _ => ["algo"] | none => [])

def eventKind : Event → String
  | .shutdown => "shutdown"
  | .command (.sendCancelRequests _) => "cmdCancel"
  | .command (.sendOpenRequests _) => "cmdOpen"
  | .command (.closePositions _) => "closePositions"
  | .command (.cancelOrders _) => "cancelOrders"
  | .tradingState true => "tradingOn"
  | .tradingState false => "tradingOff"
  | .update (.order _ _) => "orderUpdate"
  | .update (.position _ _ _) => "fill"
  | .update (.flat _) => "flat"
  | .update (.price _ _) => "price"
  | .update .other => "other"

/-- branch tags for the evidence histogram (`% ...`, not compared): event kind, trading state before,
which links the tick touched with which outcome, what the generation stage did -/
def tickTags (before : Eng) (ev : Event) (a : Audit) : List String :=
  let gen := match a.generated with
    | none => "notRun"
    | some g => if g.isEmpty then "empty" else if g.fatal then "fatal" else
        (if g.cancelsRefused.isEmpty && g.opensRefused.isEmpty then "sent" else "sentAndRefused")
  let cmd := match a.commanded with
    | none => "none"
    | some c => if c.fatal then "fatal" else if c.cancels.isEmpty && c.opens.isEmpty then "empty" else "sent"
  [ s!"% ev={eventKind ev} enabled={fmtBool before.enabled} cmd={cmd} gen={gen}" ]

def model : Drv St where
  init := St.init
  step s toks :=
    match toks with
    | "init" :: rest =>
      match parseInit rest with
      | some e => (⟨e, [], []⟩, obsState e)
      | none => (s, ["bad-op"])
    | "algo" :: rs =>
      match parseReqs rs with
      | some (cs, os) => ({ s with algoC := cs, algoO := os }, ["algo-set"])
      | none => (s, ["bad-op"])
    | "ev" :: rest =>
      match resolveEvent s.eng rest with
      | none => (s, ["bad-op"])
      | some ev =>
        let ev := fixExchange s.eng ev
        if !(Event.instrumentsInRange s.eng.instruments.length ev) then (⟨s.eng, [], []⟩, ["panic"]) else
        if isNoopFlat s.eng ev then (⟨s.eng, [], []⟩, ["noop"]) else
        let (e', a) := process s.eng ev s.algoC s.algoO refuse
        let (e'', a') := canonCancelOrders ev s.eng e' a
        (⟨e'', [], []⟩, obsTick s.eng e'' a' ++ tickTags s.eng ev a)
    | _ => (s, ["bad-op"])

/-- the spec view: the model's values on the observation keys the property constrains -/
def restrict (keys : List String) (d : Drv St) : Drv St where
  init := d.init
  step s toks :=
    let (s', lines) := d.step s toks
    (s', lines.filter fun l => keys.any fun k => l.startsWith k)

end BarterModel.Driver.EngineCommon
