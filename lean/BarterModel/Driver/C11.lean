import BarterModel.Driver.Common
import BarterModel.Model.Index
/-!
Line-protocol driver for C11. The state of a case is the list of instrument definitions so far.

Ops
* `dec SCALE OFFSET` (harness only: decimal number `n` means `(n - OFFSET) / 10^SCALE`)
* `def E NI NE BI BE QI QE QA <kind> <spec>` add a definition, where
  `<kind>` = `s` | `p SZ SI SE` | `f SZ SI SE EXP` | `o SZ SI SE PUT EXER EXP STRIKE`,
  `<spec>` = `n` | `y PMIN TICK <unit> QMIN QINC NMIN`, `<unit>` = `a UI UE` | `c` | `q`
* `build`            index the definitions in insertion order, print tables and lookups
* `perm p0 p1 ..`    index the definitions in the order `defs[p0], defs[p1], ..`; equal to `build`?
* `engine`           engine-state tables derived from the index
* `engcfg <call> ..` the engine state assembled by this sequence of `EngineStateBuilder` calls:
  `t` (time_engine_start) | `s0` / `s1` (trading_state Disabled / Enabled) |
  `b N (E NI TOTAL FREE){N}` (one `balances` call with N keyed balances)
* `exec e0 e1 ..`    `ExecutionBuilder` with an execution added for each listed exchange
* `execk k0 k1 ..`   the same with the kind of link named per exchange: `m<E>` add_mock, `l<E>` add_live
-/
namespace BarterModel.Driver.C11
open BarterModel.Driver BarterModel.Index

/-! ### parsing -/

def nats? (l : List String) : Option (List Nat) := l.mapM (·.toNat?)

def parseKind : List String → Option (Kind Asset × List String)
  | "s" :: r => some (.spot, r)
  | "p" :: a :: b :: c :: r =>
    match nats? [a, b, c] with
    | some [sz, si, se] => some (.perpetual sz ⟨si, se⟩, r)
    | _ => none
  | "f" :: a :: b :: c :: d :: r =>
    match nats? [a, b, c, d] with
    | some [sz, si, se, e] => some (.future sz ⟨si, se⟩ e, r)
    | _ => none
  | "o" :: a :: b :: c :: d :: e :: f :: g :: r =>
    match nats? [a, b, c, d, e, f, g] with
    | some [sz, si, se, p, x, ex, k] =>
      if p < 2 ∧ x < 3 then some (.option sz ⟨si, se⟩ p x ex k, r) else none
    | _ => none
  | _ => none

def parseUnits : List String → Option (Units Asset × List String)
  | "a" :: a :: b :: r =>
    match nats? [a, b] with
    | some [ui, ue] => some (.asset ⟨ui, ue⟩, r)
    | _ => none
  | "c" :: r => some (.contract, r)
  | "q" :: r => some (.quote, r)
  | _ => none

def parseSpec : List String → Option (Option (Spec Asset) × List String)
  | "n" :: r => some (none, r)
  | "y" :: a :: b :: r =>
    match nats? [a, b], parseUnits r with
    | some [pm, tk], some (u, c :: d :: e :: r') =>
      match nats? [c, d, e] with
      | some [qm, qi, nm] => some (some ⟨pm, tk, u, qm, qi, nm⟩, r')
      | _ => none
    | _, _ => none
  | _ => none

/-- number of `ExchangeId` variants: the harness maps exchange label `k` to the `k`-th variant -/
def nExchanges : Nat := 42
/-- largest name number (the harness prints names with fixed width 3) -/
def maxName : Nat := 999
/-- largest decimal / expiry number an op may carry -/
def maxValue : Nat := 1000000000000000

def assetOk (a : Asset) : Bool := a.nameInternal ≤ maxName && a.nameExchange ≤ maxName

def kindOk : Kind Asset → Bool
  | .spot => true
  | .perpetual s a => s ≤ maxValue && assetOk a
  | .future s a e => s ≤ maxValue && assetOk a && e ≤ maxValue
  | .option s a _ _ e k => s ≤ maxValue && assetOk a && e ≤ maxValue && k ≤ maxValue

def specOk : Option (Spec Asset) → Bool
  | none => true
  | some s => s.priceMin ≤ maxValue && s.tick ≤ maxValue && s.qtyMin ≤ maxValue &&
      s.qtyInc ≤ maxValue && s.notionalMin ≤ maxValue &&
      (match s.unit with | .asset a => assetOk a | _ => true)

/-- what the harness can map to Rust values (it answers `bad-op` otherwise, as this driver does) -/
def defOk (d : Def) : Bool :=
  d.exchange < nExchanges && d.nameInternal ≤ maxName && d.nameExchange ≤ maxName &&
    assetOk d.base && assetOk d.quote && kindOk d.kind && specOk d.spec

/-- plain digits only (the harness' reading; `String.toNat?` alone also accepts `_` separators) -/
def plain (l : List String) : Bool := l.all (fun t => t.all Char.isDigit)

def parseDef (toks : List String) : Option Def :=
  if !plain (toks.filter (fun t => !(t ∈ ["s", "p", "f", "o", "n", "y", "a", "c", "q"]))) then none else
  match toks with
  | e :: ni :: ne :: bi :: be :: qi :: qe :: qa :: r =>
    match nats? [e, ni, ne, bi, be, qi, qe, qa] with
    | some [e, ni, ne, bi, be, qi, qe, qa] =>
      if qa < 2 then
        match parseKind r with
        | some (k, r') =>
          match parseSpec r' with
          | some (s, []) =>
            let d : Def := ⟨e, ni, ne, ⟨bi, be⟩, ⟨qi, qe⟩, qa, k, s⟩
            if defOk d then some d else none
          | _ => none
        | none => none
      else none
    | _ => none
  | _ => none

/-- `dec SCALE OFFSET`: the harness reads the decimals of this case as `(n - OFFSET) / 10^SCALE`
(an injective order-preserving coding for every fixed pair, so nothing changes for the model). -/
def decOpOk (toks : List String) : Bool :=
  match toks with
  | [a, b] =>
    plain toks &&
    (match nats? [a, b] with
     | some [sc, off] => sc ≤ 8 && off ≤ maxValue
     | _ => false)
  | _ => false

/-- the naturals of a `perm` / `exec` op -/
def opNats? (l : List String) : Option (List Nat) := if plain l then nats? l else none

/-! ### printing -/

def n2s (n : Nat) : String := toString n

def assetToks (a : Asset) : List String := [n2s a.nameInternal, n2s a.nameExchange]

def kindToks {A : Type} (f : A → List String) : Kind A → List String
  | .spot => ["s"]
  | .perpetual s a => ["p", n2s s] ++ f a
  | .future s a e => ["f", n2s s] ++ f a ++ [n2s e]
  | .option s a p x e k => ["o", n2s s] ++ f a ++ [n2s p, n2s x, n2s e, n2s k]

def unitToks {A : Type} (f : A → List String) : Units A → List String
  | .asset a => "a" :: f a
  | .contract => ["c"]
  | .quote => ["q"]

def specToks {A : Type} (f : A → List String) : Option (Spec A) → List String
  | none => ["n"]
  | some s => ["y", n2s s.priceMin, n2s s.tick] ++ unitToks f s.unit ++
      [n2s s.qtyMin, n2s s.qtyInc, n2s s.notionalMin]

def instToks {E A : Type} (fe : E → List String) (fa : A → List String) (i : Instrument E A) :
    List String :=
  fe i.exchange ++ [n2s i.nameInternal, n2s i.nameExchange] ++ fa i.base ++ fa i.quote ++
    [n2s i.quoteAsset] ++ kindToks fa i.kind ++ specToks fa i.spec

def defToks (d : Def) : List String := instToks (fun e => [n2s e]) assetToks d

def line (ts : List String) : String := " ".intercalate ts

/-- insertion sort on sort keys, used only to canonicalise printed sets -/
def isort {α : Type} (key : α → List Nat) (l : List α) : List α :=
  l.foldl (fun acc x => (acc.takeWhile (fun y => decide (key y ≤ key x))) ++
    x :: acc.dropWhile (fun y => decide (key y ≤ key x))) []

def exchangeAssetTok (x : ExchangeAsset) : String :=
  n2s x.exchange ++ "." ++ n2s x.asset.nameInternal ++ "." ++ n2s x.asset.nameExchange

def optDefLine (pfx : List String) : Option Def → String
  | some d => line (pfx ++ defToks d)
  | none => line (pfx ++ ["none"])

/-! ### model -/

def resLines (defs : List Def) (f : Def → Option Def) (key : String) : List String :=
  (defs.zipIdx).map (fun (d, i) => optDefLine [key, n2s i] (f d))

def rtExchanges (ii : Indexed) (defs : List Def) : Bool :=
  (List.range ii.exchanges.length).all (fun k =>
    match ii.findExchange k with
    | some e => ii.findExchangeIndex e == some k
    | none => false) &&
  defs.all (fun d =>
    match ii.findExchangeIndex d.exchange with
    | some k => ii.findExchange k == some d.exchange
    | none => false)

def rtAssets (ii : Indexed) (defs : List Def) : Bool :=
  (List.range ii.assets.length).all (fun k =>
    match ii.findAsset k with
    | some a => ii.findAssetIndex a.exchange a.asset.nameInternal == some k
    | none => false) &&
  defs.all (fun d => (defAssets d).all (fun a =>
    match ii.findAssetIndex a.exchange a.asset.nameInternal with
    | some k => ii.findAsset k == some a
    | none => false))

def rtInstruments (ii : Indexed) (defs : List Def) : Bool :=
  (List.range ii.instruments.length).all (fun k =>
    match ii.findInstrument k with
    | some i => ii.findInstrumentIndex i.exchange.value i.nameInternal == some k
    | none => false) &&
  defs.all (fun d =>
    match ii.findInstrumentIndex d.exchange d.nameInternal with
    | some k =>
      match ii.findInstrument k with
      | some i => i.exchange.value == d.exchange && i.nameInternal == d.nameInternal &&
          i.nameExchange == d.nameExchange
      | none => false
    | none => false)

/-- `resx <i> <exchange>`: the instrument found by name for definition `i`, its exchange reference
read back by POSITION through the exchange table (needs no well-formedness at all:
`Props.C11.exchange_resolves_by_name`). -/
def resxLines (defs : List Def) (ii : Indexed) : List String :=
  (defs.zipIdx).map (fun (d, i) =>
    let r : Option Nat :=
      match ii.findInstrumentIndex d.exchange d.nameInternal with
      | some k =>
        match ii.instruments[k]? with
        | some x =>
          match ii.exchanges[x.value.exchange.key]? with
          | some ex => if ex.value = x.value.exchange.value then some ex.value else none
          | none => none
        | none => none
      | none => none
    line ["resx", n2s i, match r with | some e => n2s e | none => "none"])

def buildLines (defs : List Def) (ii : Indexed) : List String :=
  ii.exchanges.map (fun x => line ["ex", n2s x.key, n2s x.value]) ++
  ii.assets.map (fun x => line (["as", n2s x.key, n2s x.value.exchange] ++ assetToks x.value.asset)) ++
  ii.instruments.map (fun x => line (["in", n2s x.key] ++
    instToks (fun (e : Keyed Nat Nat) => [n2s e.key, n2s e.value]) (fun a => [n2s a]) x.value)) ++
  [ line ("kE" :: ii.exchanges.map (fun x => n2s x.key)),
    line ("kA" :: ii.assets.map (fun x => n2s x.key)),
    line ("kI" :: ii.instruments.map (fun x => n2s x.key)),
    line ("setE" :: (isort exchangeKey (ii.exchanges.map (·.value))).map n2s),
    line ("setA" :: (isort ExchangeAsset.sortKey (ii.assets.map (·.value))).map exchangeAssetTok) ] ++
  resLines defs (fun d =>
    match ii.findInstrumentIndex d.exchange d.nameInternal with
    | some k =>
      match ii.instruments[k]? with
      | some x => resolve ii x.value
      | none => none
    | none => none) "res" ++
  resxLines defs ii ++
  [ line ["rt", fmtBool (rtExchanges ii defs), fmtBool (rtAssets ii defs),
      fmtBool (rtInstruments ii defs)] ]

/-- the definition read back through the engine's three tables, positions only -/
def engineRes (ii : Indexed) (d : Def) : Option Def :=
  match ii.findInstrumentIndex d.exchange d.nameInternal with
  | some k =>
    match resolveEngine ii k with
    | some (key, d') => if key = k then some d' else none
    | none => none
  | none => none

def engineLines (defs : List Def) (ii : Indexed) : List String :=
  (instrumentStates ii).zipIdx.map (fun ((name, (key, i)), k) => line (["ins", n2s k, n2s name, n2s key] ++
    instToks (fun (e : Nat) => [n2s e]) (fun (a : Nat) => [n2s a]) i)) ++
  (assetStates ii).zipIdx.map (fun (((e, ni), a), k) => line (["ast", n2s k, n2s e, n2s ni] ++ assetToks a)) ++
  (connectivityStates ii).zipIdx.map (fun ((e, _), k) => line ["con", n2s k, n2s e]) ++
  resLines defs (engineRes ii) "eres" ++
  -- `eresm`: the same read through the accessors the engine itself routes through
  -- (`instrument_index_mut`, `asset_index_mut`, `connectivity_index(_mut)`): positional reads of the
  -- same three tables, so the same function of the model (oracle review C11-M2)
  resLines defs (engineRes ii) "eresm"

def txresLines (defs : List Def) (find : Nat → Option Nat) (tab : List (Nat × Bool)) : List String :=
  (defs.zipIdx).map (fun (d, i) =>
    match find d.exchange with
    | some k =>
      match tab[k]? with
      | some (e, has) => line ["txres", n2s i, n2s e, fmtBool has]
      | none => line ["txres", n2s i, "none"]
    | none => line ["txres", n2s i, "none"])

def permute (defs : List Def) (p : List Nat) : Option (List Def) := p.mapM (fun i => defs[i]?)

/-! ### `engcfg`: set-up shapes of the engine-state builder -/

/-- one call on the `EngineStateBuilder` -/
inductive Call where
  | time
  | trading (on : Bool)
  | balances (bs : List (Nat × Nat × Nat × Nat))

/-- `n` groups `E NI TOTAL FREE` -/
def parseBals : Nat → List String → Option (List (Nat × Nat × Nat × Nat) × List String)
  | 0, r => some ([], r)
  | n + 1, e :: ni :: tot :: free :: r =>
    match opNats? [e, ni, tot, free] with
    | some [e, ni, tot, free] =>
      if e < nExchanges && ni ≤ maxName && tot ≤ maxValue && free ≤ maxValue then
        (parseBals n r).map (fun (bs, r') => ((e, ni, tot, free) :: bs, r'))
      else none
    | _ => none
  | _, _ => none

def parseCallsFuel : Nat → List String → Option (List Call)
  | _, [] => some []
  | 0, _ => none
  | f + 1, "t" :: r => (parseCallsFuel f r).map (Call.time :: ·)
  | f + 1, "s0" :: r => (parseCallsFuel f r).map (Call.trading false :: ·)
  | f + 1, "s1" :: r => (parseCallsFuel f r).map (Call.trading true :: ·)
  | f + 1, "b" :: n :: r =>
    match opNats? [n] with
    | some [n] =>
      if n ≤ maxName then
        match parseBals n r with
        | some (bs, r') => (parseCallsFuel f r').map (Call.balances bs :: ·)
        | none => none
      else none
    | _ => none
  | _, _ => none

def parseCalls (toks : List String) : Option (List Call) := parseCallsFuel toks.length toks

/-- all keyed balances in the order they were handed to the builder -/
def suppliedBalances (calls : List Call) : List (Nat × Nat × Nat × Nat) :=
  calls.flatMap (fun c => match c with | .balances bs => bs | _ => [])

/-- `trading_state`: the last value given, `Disabled` by default -/
def tradingOf (calls : List Call) : Bool :=
  calls.foldl (fun acc c => match c with | .trading on => on | _ => acc) false

/-- the builder keeps the balances in a hash map: the LAST value supplied for a key -/
def balanceOf (bs : List (Nat × Nat × Nat × Nat)) (e ni : Nat) : Option (Nat × Nat) :=
  (bs.reverse.find? (fun b => b.1 == e && b.2.1 == ni)).map (fun b => (b.2.2.1, b.2.2.2))

def balToks : Option (Nat × Nat) → List String
  | some (t, f) => [n2s t, n2s f]
  | none => ["none"]

/-- `engcfg` on the model: `asset_mut` panics on a key the asset table does not hold; otherwise the
tables of `engine`, the trading state, the balance at every position, the balance found for every
supplied key through `find_asset_index` + positional read, and the number of entries with a balance -/
def engcfgLines (defs : List Def) (ii : Indexed) (calls : List Call) : List String :=
  let tab := assetStates ii
  let bs := suppliedBalances calls
  if bs.any (fun b => !(tab.any (fun x => x.1.1 == b.1 && x.1.2 == b.2.1))) then ["panic"] else
  engineLines defs ii ++
  [line ["trd", fmtBool (tradingOf calls)]] ++
  tab.zipIdx.map (fun (((e, ni), _), k) => line (["bal", n2s k, n2s e, n2s ni] ++ balToks (balanceOf bs e ni))) ++
  bs.zipIdx.map (fun (b, j) =>
    match (ii.findAssetIndex b.1 b.2.1).bind (fun k => tab[k]?) with
    | some ((e, ni), _) => line (["balr", n2s j, n2s e, n2s ni] ++ balToks (balanceOf bs e ni))
    | none => line ["balr", n2s j, "unknown"]) ++
  [line ["baln", n2s (tab.filter (fun x => (balanceOf bs x.1.1 x.1.2).isSome)).length]]

/-! ### `execk`: execution links of a named kind -/

/-- `m<E>` / `l<E>` -/
def parseKindTok (t : String) : Option (Bool × Nat) :=
  match t.toList with
  | c :: r =>
    if c == 'm' || c == 'l' then
      match opNats? [String.ofList r] with
      | some [e] => if e < nExchanges then some (c == 'm', e) else none
      | _ => none
    else none
  | [] => none

/-- `add_mock` sets up a `MockExchange` for the exchange first: it supports spot instruments only
and panics otherwise (execution/builder.rs `generate_mock_exchange_instruments`) -/
def mockPanics (defs : List Def) (e : Nat) : Bool :=
  defs.any (fun d => d.exchange == e && !(match d.kind with | .spot => true | _ => false))

/-- the adds in order: `none` = the real code panics, `some none` = an add is refused -/
def execAddKinds (defs : List Def) (ii : Indexed) :
    List (Nat × Nat) → List (Bool × Nat) → Option (Option (List (Nat × Nat)))
  | txs, [] => some (some txs)
  | txs, (mock, e) :: es =>
    if mock && mockPanics defs e then none else
    match execAdd ii txs e with
    | none => some none
    | some txs' => execAddKinds defs ii txs' es

def model : Drv (List Def) where
  init := []
  step defs toks :=
    match toks with
    | "dec" :: r => (defs, if decOpOk r then [] else ["bad-op"])
    | "def" :: r =>
      match parseDef r with
      | some d => let defs' := defs ++ [d]; (defs', [line ["ndefs", n2s defs'.length]])
      | none => (defs, ["bad-op"])
    | ["build"] =>
      match build defs with
      | some ii => (defs, buildLines defs ii)
      | none => (defs, ["panic"])
    | "perm" :: p =>
      match opNats? p with
      | some p =>
        match permute defs p with
        | some defs' =>
          match build defs, build defs' with
          | some a, some b => (defs, [line ["same", fmtBool (decide (a = b))]])
          | _, _ => (defs, ["panic"])
        | none => (defs, ["bad-op"])
      | none => (defs, ["bad-op"])
    | ["engine"] =>
      match build defs with
      | some ii => (defs, engineLines defs ii)
      | none => (defs, ["panic"])
    | "engcfg" :: r =>
      match parseCalls r with
      | some calls =>
        match build defs with
        | some ii => (defs, engcfgLines defs ii calls)
        | none => (defs, ["panic"])
      | none => (defs, ["bad-op"])
    | "exec" :: es =>
      match (opNats? es).filter (·.all (· < nExchanges)) with
      | some es =>
        match build defs with
        | some ii =>
          match execAddAll ii [] es with
          | none => (defs, ["exec err"])
          | some txs =>
            match execBuild ii txs with
            | none => (defs, ["panic"])
            | some tab =>
              (defs, tab.zipIdx.map (fun ((e, has), k) => line ["tx", n2s k, n2s e, fmtBool has]) ++
                txresLines defs ii.findExchangeIndex tab)
        | none => (defs, ["panic"])
      | none => (defs, ["bad-op"])
    | "execk" :: ks =>
      match ks.mapM parseKindTok with
      | some ks =>
        match build defs with
        | some ii =>
          match execAddKinds defs ii [] ks with
          | none => (defs, ["panic"])
          | some none => (defs, ["exec err"])
          | some (some txs) =>
            match execBuild ii txs with
            | none => (defs, ["panic"])
            | some tab =>
              (defs, [line ["nfut", n2s (ks.filter (·.1)).length, n2s ks.length]] ++
                tab.zipIdx.map (fun ((e, has), k) => line ["tx", n2s k, n2s e, fmtBool has]) ++
                txresLines defs ii.findExchangeIndex tab)
        | none => (defs, ["panic"])
      | none => (defs, ["bad-op"])
    | _ => (defs, ["bad-op"])

/-! ### spec: only what the property text fixes, computed without the builder -/

/-- `build` as the property fixes it. Each key is gated by its own hypothesis only (oracle review
C11-M1; `Props.C11.resolve_by_name_weak`, `rt_exchanges`, `rt_assets`, `rt_instruments_weak`,
`exchange_resolves_by_name`): the `IndexedInstruments` clauses need names unique per exchange. -/
def specBuildLines (defs : List Def) : List String :=
  let wfA := decide (WFAssets defs)
  let wfN := decide (WFNamesPerExchange defs)
  let bit := fun (b : Bool) => if b then "1" else "{0|1}"
  let es := specExchanges defs
  let as := specAssets defs
  let is := specInstruments defs
  [ line ("kE" :: (List.range es.length).map n2s),
    line ("kA" :: (List.range as.length).map n2s),
    line ("kI" :: (List.range is.length).map n2s),
    line ("setE" :: (isort exchangeKey es).map n2s),
    line ("setA" :: (isort ExchangeAsset.sortKey as).map exchangeAssetTok) ] ++
  (if wfA && wfN then resLines defs some "res" else []) ++
  (defs.zipIdx).map (fun (d, i) => line ["resx", n2s i, n2s d.exchange]) ++
  [line ["rt", "1", bit wfA, bit wfN]]

/-- `engine`: the engine's name-keyed tables need names unique over the whole collection -/
def specEngineLines (defs : List Def) : List String :=
  if decide (WFInstruments defs) then resLines defs some "eres" ++ resLines defs some "eresm" else []

/-- `engcfg` as the property fixes it: whatever the order of the builder calls, the tables still
resolve (`eres` / `eresm`, under the hypotheses of `engine`), the trading state is the last one given
(`Disabled` by default), and - assets well-formed, every key an exchange-asset of the collection - the
entry with the index of asset `(E, NI)` holds exactly the balance supplied (last) for `(E, NI)`, and no
other entry holds one. Silent when a key is outside the collection (the builder panics there). -/
def specEngcfgLines (defs : List Def) (calls : List Call) : List String :=
  let bs := suppliedBalances calls
  let as := specAssets defs
  if bs.any (fun b => !(as.any (fun a => a.exchange == b.1 && a.asset.nameInternal == b.2.1))) then [] else
  specEngineLines defs ++
  [line ["trd", fmtBool (tradingOf calls)]] ++
  (if decide (WFAssets defs) then
    bs.zipIdx.map (fun (b, j) => line (["balr", n2s j, n2s b.1, n2s b.2.1] ++ balToks (balanceOf bs b.1 b.2.1))) ++
    [line ["baln", n2s (specDistinct (bs.map (fun b => (b.1, b.2.1)))).length]]
  else [])

def spec : Drv (List Def) where
  init := []
  step defs toks :=
    -- (the well-formedness checks are quadratic in the collection: only `build` / `engine` run them)
    match toks with
    | "dec" :: r => (defs, if decOpOk r then [] else ["bad-op"])
    | "def" :: r =>
      match parseDef r with
      | some d => let defs' := defs ++ [d]; (defs', [line ["ndefs", n2s defs'.length]])
      | none => (defs, ["bad-op"])
    | ["build"] => (defs, specBuildLines defs)
    | "perm" :: p =>
      match opNats? p with
      | some p =>
        match permute defs p with
        | some defs' =>
          -- the property only speaks about reorderings of the same collection
          if (defs.all (· ∈ defs')) && (defs'.all (· ∈ defs)) then (defs, [line ["same", "1"]])
          else (defs, [])
        | none => (defs, ["bad-op"])
      | none => (defs, ["bad-op"])
    | ["engine"] => (defs, specEngineLines defs)
    | "engcfg" :: r =>
      match parseCalls r with
      | some calls => (defs, specEngcfgLines defs calls)
      | none => (defs, ["bad-op"])
    | "exec" :: es =>
      match (opNats? es).filter (·.all (· < nExchanges)) with
      | some es =>
        let known := specExchanges defs
        if es.all (· ∈ known) && decide (specDistinct es = es) then
          (defs, (defs.zipIdx).map (fun (d, i) =>
            line ["txres", n2s i, n2s d.exchange, fmtBool (decide (d.exchange ∈ es))]))
        else (defs, [])
      | none => (defs, ["bad-op"])
    | "execk" :: ks =>
      match ks.mapM parseKindTok with
      | some ks =>
        -- the kind of link does not matter to the table: a transmitter exactly where one was added
        -- (silent where the real code refuses or - a mock for a non-spot exchange - panics)
        let es := ks.map (·.2)
        let known := specExchanges defs
        if es.all (· ∈ known) && decide (specDistinct es = es) &&
            !(ks.any (fun k => k.1 && mockPanics defs k.2)) then
          (defs, (defs.zipIdx).map (fun (d, i) =>
            line ["txres", n2s i, n2s d.exchange, fmtBool (decide (d.exchange ∈ es))]))
        else (defs, [])
      | none => (defs, ["bad-op"])
    | _ => (defs, ["bad-op"])

end BarterModel.Driver.C11

def main (args : List String) : IO UInt32 :=
  BarterModel.Driver.runMain BarterModel.Driver.C11.model BarterModel.Driver.C11.spec args
