import BarterModel.Driver.Common
import BarterModel.Model.Streams
/-!
Line-protocol driver for C12.

Reconnecting stream ops (state: policy, mode, script so far):
  `policy <initial> <mult> <max>`                 (no observation)
  `mode events | handler | forward <n> | forward inf`   (no observation)
  `mode hfwd <n> | hfwd inf`  events → with_error_handler → forward_to: the handler run cut by the receiver
  `mode duo same|diff`, `bpolicy <initial> <mult> <max>`, `bconn …` (no observation): a SECOND pipeline with its
        own policy and script, alive on the same runtime and merged with the first by `merge()`. Neither side
        ever ends, so a `conn` op prints the first pipeline's run (`ev`/`evn`/`fin`) and then the second's run
        on ITS script and policy with the keys `bev`/`bevn`/`bfin` — each exactly what it is alone
        (the stream key and the origin are labels: they do not occur in the model).
  `conn fail`  |  `conn ok <elem>* [hang]`   with `<elem>` = `i<x>` item, `e<id>` non-terminal error,
        `T<id>` terminal error, `d<ms>` latency. Appends one `init` outcome to the script and prints
        the whole run of the composed stream on the script so far:
           `ev att <t>` | `ev item <x> <t>` | `ev err <id> <t>` | `ev notice <t>` | `ev handled <id> <t>`
           `fin init-pending | init-error | pending | ended`
Merge ops: `l <x>`, `r <x>` (send; `closed` if that sender was dropped, `gone` if the merged stream has ended and so dropped its receivers), `lend`, `rend` (drop sender),
  `poll` (`out pending | L <x> | R <x> | end`), `drain` (poll until pending/end: the `out` lines,
  then `gotL …`, `gotR …`, `dfin pending|end`).
-/
namespace BarterModel.Driver.C12
open BarterModel.Driver BarterModel.Streams

inductive Mode where
  | events
  | handler
  | forward (cap : Option Nat)
  /-- events → with_error_handler → forward_to -/
  | hfwd (cap : Option Nat)
  /-- two pipelines alive at once, merged (`same`: equal stream key and origin) -/
  | duo (same : Bool)
  deriving Repr, Inhabited

/-- `i3`, `e4`, `T5`, `d20` -/
def parseElem (s : String) : Option Elem :=
  let body := (s.drop 1).toString
  match s.front, body.toNat? with
  | 'i', some n => some (.item n)
  | 'e', some n => some (.error n false)
  | 'T', some n => some (.error n true)
  | 'd', some n => some (.delay n)
  | _, _ => none

def parseElems : List String → Option (List Elem × Bool)
  | [] => some ([], false)
  | ["hang"] => some ([], true)
  | t :: r =>
    match parseElem t, parseElems r with
    | some e, some (es, h) => some (e :: es, h)
    | _, _ => none

def parseConn : List String → Option Conn
  | ["fail"] => some .initFail
  | "ok" :: r => (parseElems r).map fun (es, h) => .initOk es h
  | _ => none

def fmtFin : Fin → String
  | .initPending => "fin init-pending"
  | .initError => "fin init-error"
  | .pending => "fin pending"
  | .ended => "fin ended"

def fmtEff (t : Nat) : Eff → Option String
  | .attempt => some s!"ev att {t}"
  | .handled e => some s!"ev handled {e} {t}"
  | .sleep _ => none
  | .delay _ => none

def fmtEvRes (t : Nat) : Event Res → String
  | .reconnecting => s!"ev notice {t}"
  | .item (.ok x) => s!"ev item {x} {t}"
  | .item (.err e) => s!"ev err {e.id} {t}"

def fmtEvNat (t : Nat) : Event Nat → String
  | .reconnecting => s!"ev notice {t}"
  | .item x => s!"ev item {x} {t}"

/-- The trace of a run: one `ev` line per observable step, then `evn <count>` — the number of `ev`
lines, stated explicitly so that the SPEC says where the trace ends (oracle review C12-M1: surplus
events after the prescribed trace, e.g. behind a still-open connection, fail `evn`) — then `fin`. -/
def fmtRun {α : Type} (f : Nat → α → String) (r : Run α) : List String :=
  let evs := (stamps 0 r.steps).filterMap fun (t, s) =>
    match s with
    | .yield a => some (f t a)
    | .eff e => fmtEff t e
  evs ++ [s!"evn {evs.length}", fmtFin r.fin]

structure St where
  policy : Policy
  mode : Mode
  script : List Conn
  merge : MergeSt
  bpolicy : Policy := ⟨125, 2, 60000⟩
  bscript : List Conn := []
  deriving Inhabited

def St.init : St := { policy := ⟨125, 2, 60000⟩, mode := .events, script := [], merge := MergeSt.init }

/-- the ops of the set-up shapes (configuration audit), shared by both sides: new state or `none` = bad-op -/
def cfgMode : List String → Option Mode
  | ["mode", "hfwd", "inf"] => some (.hfwd none)
  | ["mode", "hfwd", n] => n.toNat?.map fun n => .hfwd (some n)
  | ["mode", "duo", "same"] => some (.duo true)
  | ["mode", "duo", "diff"] => some (.duo false)
  | _ => none

def parsePolicy (i m mx : String) : Option Policy :=
  match i.toNat?, m.toNat?, mx.toNat? with
  | some i, some m, some mx => some ⟨i, m, mx⟩
  | _, _, _ => none

def fmtMOut : MOut → String
  | .pending => "pending"
  | .item true x => s!"L {x}"
  | .item false x => s!"R {x}"
  | .ended => "end"

def fmtMObs : MObs → List String
  | .accepted _ _ => []
  | .closed => ["closed"]
  | .gone => ["gone"]
  | .ack => []
  | .out o => ["out " ++ fmtMOut o]

/-- poll until pending / end (at most `fuel` polls; `fuel` = everything queued + 2 suffices) -/
def drainModel : Nat → MergeSt → List MOut → MergeSt × List MOut
  | 0, st, acc => (st, acc.reverse)
  | fuel + 1, st, acc =>
    let (st', o) := st.poll
    match o with
    | .item _ _ => drainModel fuel st' (o :: acc)
    | _ => (st', (o :: acc).reverse)

def drainLines (outs : List MOut) : List String :=
  let gl := outs.filterMap fun o => match o with | .item true x => some (toString x) | _ => none
  let gr := outs.filterMap fun o => match o with | .item false x => some (toString x) | _ => none
  let fin := match outs.getLast? with | some .ended => "end" | _ => "pending"
  outs.map (fun o => "out " ++ fmtMOut o) ++
    ["gotL " ++ " ".intercalate gl, "gotR " ++ " ".intercalate gr, "dfin " ++ fin]

def runMode (mode : Mode) (p : Policy) (script : List Conn) (bp : Policy) (bscript : List Conn) : List String :=
  match mode with
  | .events => fmtRun fmtEvRes (runEvents p script)
  | .handler => fmtRun fmtEvNat (runHandler p script)
  | .forward cap => fmtRun fmtEvRes (runForward cap p script)
  | .hfwd cap => fmtRun fmtEvNat (runWith (fun s => forwardTo cap (withErrorHandler s)) p script)
  | .duo _ => fmtRun fmtEvRes (runEvents p script) ++ (fmtRun fmtEvRes (runEvents bp bscript)).map ("b" ++ ·)

def model : Drv St where
  init := St.init
  step s toks :=
    match toks with
    | ["policy", i, m, mx] =>
      match i.toNat?, m.toNat?, mx.toNat? with
      | some i, some m, some mx => ({ s with policy := ⟨i, m, mx⟩ }, [])
      | _, _, _ => (s, ["bad-op"])
    | ["mode", "events"] => ({ s with mode := .events }, [])
    | ["mode", "handler"] => ({ s with mode := .handler }, [])
    | ["mode", "forward", "inf"] => ({ s with mode := .forward none }, [])
    | ["mode", "forward", n] =>
      match n.toNat? with
      | some n => ({ s with mode := .forward (some n) }, [])
      | none => (s, ["bad-op"])
    | ["mode", "hfwd", _] | ["mode", "duo", _] =>
      match cfgMode toks with
      | some m => ({ s with mode := m }, [])
      | none => (s, ["bad-op"])
    | ["bpolicy", i, m, mx] =>
      match parsePolicy i m mx with
      | some p => ({ s with bpolicy := p }, [])
      | none => (s, ["bad-op"])
    | "bconn" :: r =>
      match parseConn r with
      | some c => ({ s with bscript := s.bscript ++ [c] }, [])
      | none => (s, ["bad-op"])
    | "conn" :: r =>
      match parseConn r with
      | some c =>
        let s' := { s with script := s.script ++ [c] }
        (s', runMode s'.mode s'.policy s'.script s'.bpolicy s'.bscript)
      | none => (s, ["bad-op"])
    | [side, x] =>
      match (if side == "l" then some true else if side == "r" then some false else none), x.toNat? with
      | some left, some x =>
        let (m', o) := s.merge.step (.send left x)
        ({ s with merge := m' }, fmtMObs o)
      | _, _ => (s, ["bad-op"])
    | ["lend"] => ({ s with merge := (s.merge.step (.close true)).1 }, [])
    | ["rend"] => ({ s with merge := (s.merge.step (.close false)).1 }, [])
    | ["poll"] =>
      let (m', o) := s.merge.step (.poll s.merge.aFirst)
      ({ s with merge := m' }, fmtMObs o)
    | ["drain"] =>
      let (m', outs) := drainModel (s.merge.a.queue.length + s.merge.b.queue.length + 2) s.merge []
      ({ s with merge := m' }, drainLines outs)
    | _ => (s, ["bad-op"])

/-! ### spec side -/

structure SpecSt where
  policy : Policy
  mode : Mode
  script : List Conn
  /-- every configuration the property allows after the history so far -/
  cfgs : List MCfg
  bpolicy : Policy := ⟨125, 2, 60000⟩
  bscript : List Conn := []
  deriving Inhabited

/-- handler, then a receiver that takes `cap` items: the handler trace cut as `specForward` cuts the event
trace (handled errors are effects, not items: they do not count, and still happen before the cut) -/
def specHFwd (cap : Option Nat) (p : Policy) (script : List Conn) : Run (Event Nat) :=
  let r := specHandler p script
  match cap, r.fin with
  | some n, .pending =>
    let (t, c) := cutAfter n r.steps
    ⟨t, if c then .ended else .pending⟩
  | _, _ => r

def specMode (mode : Mode) (p : Policy) (script : List Conn) (bp : Policy) (bscript : List Conn) : List String :=
  match mode with
  | .events => fmtRun fmtEvRes (specEvents p script)
  | .handler => fmtRun fmtEvNat (specHandler p script)
  | .forward cap => fmtRun fmtEvRes (specForward cap p script)
  | .hfwd cap => fmtRun fmtEvNat (specHFwd cap p script)
  | .duo _ => fmtRun fmtEvRes (specEvents p script) ++ (fmtRun fmtEvRes (specEvents bp bscript)).map ("b" ++ ·)

def dedup {α : Type} [DecidableEq α] (l : List α) : List α :=
  l.foldl (fun acc x => if acc.contains x then acc else acc ++ [x]) []

def unanimous {α : Type} [DecidableEq α] : List α → Option α
  | [] => none
  | x :: r => if r.all (· == x) then some x else none

/-- A branch of a drain: configuration, items taken from left / right, and how it stopped. -/
structure Branch where
  cfg : MCfg
  gotL : List Nat
  gotR : List Nat
  fin : Option MOut
  deriving DecidableEq, Inhabited

/-- Level-by-level exploration of every allowed drain. Returns the unanimous prefix of outputs and
the stopped branches. -/
def specDrain : Nat → List Branch → Bool → List MOut → List Branch → List MOut × List Branch
  | 0, running, _, outs, stopped => (outs.reverse, stopped ++ running)
  | fuel + 1, running, agree, outs, stopped =>
    if running.isEmpty then (outs.reverse, stopped) else
    let next : List (Branch × MOut) := running.flatMap fun b =>
      b.cfg.allowed.map fun (c, o) =>
        match o with
        | .item true x => ({ b with cfg := c, gotL := b.gotL ++ [x] }, o)
        | .item false x => ({ b with cfg := c, gotR := b.gotR ++ [x] }, o)
        | _ => ({ b with cfg := c, fin := some o }, o)
    let u := if agree then unanimous (next.map (·.2)) else none
    let outs' := match u with | some o => o :: outs | none => outs
    let nb := dedup (next.map (·.1))
    specDrain fuel (nb.filter (·.fin.isNone)) u.isSome outs' (stopped ++ nb.filter (·.fin.isSome))

def spec : Drv SpecSt where
  init := { policy := ⟨125, 2, 60000⟩, mode := .events, script := [], cfgs := [MCfg.init] }
  step s toks :=
    match toks with
    | ["policy", i, m, mx] =>
      match i.toNat?, m.toNat?, mx.toNat? with
      | some i, some m, some mx => ({ s with policy := ⟨i, m, mx⟩ }, [])
      | _, _, _ => (s, ["bad-op"])
    | ["mode", "events"] => ({ s with mode := .events }, [])
    | ["mode", "handler"] => ({ s with mode := .handler }, [])
    | ["mode", "forward", "inf"] => ({ s with mode := .forward none }, [])
    | ["mode", "forward", n] =>
      match n.toNat? with
      | some n => ({ s with mode := .forward (some n) }, [])
      | none => (s, ["bad-op"])
    | ["mode", "hfwd", _] | ["mode", "duo", _] =>
      match cfgMode toks with
      | some m => ({ s with mode := m }, [])
      | none => (s, ["bad-op"])
    | ["bpolicy", i, m, mx] =>
      match parsePolicy i m mx with
      | some p => ({ s with bpolicy := p }, [])
      | none => (s, ["bad-op"])
    | "bconn" :: r =>
      match parseConn r with
      | some c => ({ s with bscript := s.bscript ++ [c] }, [])
      | none => (s, ["bad-op"])
    | "conn" :: r =>
      match parseConn r with
      | some c =>
        let s' := { s with script := s.script ++ [c] }
        (s', specMode s'.mode s'.policy s'.script s'.bpolicy s'.bscript)
      | none => (s, ["bad-op"])
    | [side, x] =>
      match (if side == "l" then some true else if side == "r" then some false else none), x.toNat? with
      | some left, some x =>
        -- whether the sender is gone does not depend on the branch
        let closed := s.cfgs.any fun c => if left then c.lClosed else c.rClosed
        if closed then (s, ["closed"]) else
        ({ s with cfgs := s.cfgs.map (·.send left x) }, [])
      | _, _ => (s, ["bad-op"])
    | ["lend"] => ({ s with cfgs := s.cfgs.map (·.close true) }, [])
    | ["rend"] => ({ s with cfgs := s.cfgs.map (·.close false) }, [])
    | ["poll"] =>
      let next := s.cfgs.flatMap (·.allowed)
      let lines := match unanimous (next.map (·.2)) with
        | some o => ["out " ++ fmtMOut o]
        | none => []
      ({ s with cfgs := dedup (next.map (·.1)) }, lines)
    | ["drain"] =>
      let fuel := (s.cfgs.foldl (fun m c => max m (c.l.length + c.r.length)) 0) + 2
      let (outs, stopped) := specDrain fuel (s.cfgs.map fun c => ⟨c, [], [], none⟩) true [] []
      let fmtL (l : List Nat) := " ".intercalate (l.map toString)
      let lines := outs.map (fun o => "out " ++ fmtMOut o) ++
        (match unanimous (stopped.map (·.gotL)) with | some l => ["gotL " ++ fmtL l] | none => []) ++
        (match unanimous (stopped.map (·.gotR)) with | some l => ["gotR " ++ fmtL l] | none => []) ++
        (match unanimous (stopped.map (·.fin)) with
          | some (some .ended) => ["dfin end"] | some (some .pending) => ["dfin pending"] | _ => [])
      ({ s with cfgs := dedup (stopped.map (·.cfg)) }, lines)
    | _ => (s, ["bad-op"])

end BarterModel.Driver.C12

def main (args : List String) : IO UInt32 :=
  BarterModel.Driver.runMain BarterModel.Driver.C12.model BarterModel.Driver.C12.spec args
