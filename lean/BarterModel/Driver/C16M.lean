import BarterModel.Driver.Common
import BarterModel.Model.Metrics
/-!
Line-protocol driver for the sub-check C16M (risk-adjusted metrics and interval scaling).

Tokens: an interval is `D` (`Daily`), `A252`, `A365` or `ms:<int>` (a `TimeDelta` of that many
milliseconds); a metric value in an op is a decimal or `MAX` / `MIN` (`Decimal::MAX` / `MIN`); a
metric value in an observation is `MAX`, `MIN` or `~n/d`.

Ops
* `name <iv>`                                  `TimeInterval::name` and `interval().num_seconds()`
* `calc sharpe|sortino|calmar <rf> <mean> <risk> <iv>`   `X::calculate`
* `calc ror <mean> <iv>`                       `RateOfReturn::calculate`
* `scale sharpe|sortino|calmar|ror <value> <from> <to>`  `X { value, interval: from }.scale(to)`
* `cs sharpe|sortino|calmar <rf> <mean> <risk> <from> <to>`  `X::calculate(..).scale(to)` (as `generate` does)
* `init <t0>`                                  `TearSheetGenerator::init` (ms)
* `pos <t_exit> <pnl> <entry> <qty>`           `TearSheetGenerator::update_from_position`
* `gen <rf> <iv>`                              `TearSheetGenerator::generate`

Observations
* `name`: `name <words..>`, `secs <int>`
* `calc` / `scale` / `cs`: `v <value>`, `iv <iv>`
* `init`, `pos`: `st now <ms> cnt <n> <nLoss> mean <~> sd <~> lsd <~>`
* `gen`: `period <secs>`, `pnl <exact>`, `ror <value>`, `sharpe <value>`, `sortino <value>`,
  `calmar <value>`, `ddmax <~|none>`, `win <~|none>`, `pf <~|none|MAX|MIN>`
-/
namespace BarterModel.Driver.C16M
open BarterModel.Driver BarterModel BarterModel.Metrics

def fmtIv : Interval → String
  | .daily => "D"
  | .annual252 => "A252"
  | .annual365 => "A365"
  | .delta ms => "ms:" ++ toString ms

def parseIv? (s : String) : Option Interval :=
  if s == "D" then some .daily
  else if s == "A252" then some .annual252
  else if s == "A365" then some .annual365
  else match s.splitOn ":" with
    | ["ms", n] => n.toInt?.map .delta
    | _ => none

def fmtVal (r : Rat) : String :=
  if r == decimalMax then "MAX" else if r == decimalMin then "MIN" else fmtRatApprox r

def fmtOptVal : Option Rat → String
  | none => "none"
  | some r => fmtVal r

def parseVal? (s : String) : Option Rat :=
  if s == "MAX" then some decimalMax else if s == "MIN" then some decimalMin else parseRat? s

inductive Kind where
  | sharpe | sortino | calmar | ror
  deriving DecidableEq

def parseKind? (s : String) : Option Kind :=
  if s == "sharpe" then some .sharpe else if s == "sortino" then some .sortino
  else if s == "calmar" then some .calmar else if s == "ror" then some .ror else none

/-- The root the drivers plug in for `Decimal::sqrt` (√ truncated to 30 places, C17). -/
def root : Rat → Rat := DataSet.sqrtApprox

def obsMetric (m : Metric) : List String := ["v " ++ fmtVal m.value, "iv " ++ fmtIv m.interval]

inductive Op where
  | name (iv : Interval)
  | calc (k : Kind) (rf mean risk : Rat) (iv : Interval)
  | calcRor (mean : Rat) (iv : Interval)
  | scale (k : Kind) (v : Rat) (src dst : Interval)
  | cs (k : Kind) (rf mean risk : Rat) (src dst : Interval)
  | init (t0 : Int)
  | pos (p : Exit)
  | gen (rf : Rat) (iv : Interval)

def parseOp : List String → Option Op
  | ["name", iv] => (parseIv? iv).map .name
  | ["calc", "ror", mean, iv] =>
    match parseRat? mean, parseIv? iv with
    | some mean, some iv => some (.calcRor mean iv)
    | _, _ => none
  | ["calc", k, rf, mean, risk, iv] =>
    match parseKind? k, parseRat? rf, parseRat? mean, parseRat? risk, parseIv? iv with
    | some k, some rf, some mean, some risk, some iv =>
      if k == .ror then none else some (.calc k rf mean risk iv)
    | _, _, _, _, _ => none
  | ["scale", k, v, src, dst] =>
    match parseKind? k, parseVal? v, parseIv? src, parseIv? dst with
    | some k, some v, some src, some dst => some (.scale k v src dst)
    | _, _, _, _ => none
  | ["cs", k, rf, mean, risk, src, dst] =>
    match parseKind? k, parseRat? rf, parseRat? mean, parseRat? risk, parseIv? src, parseIv? dst with
    | some k, some rf, some mean, some risk, some src, some dst =>
      if k == .ror then none else some (.cs k rf mean risk src dst)
    | _, _, _, _, _, _ => none
  | ["init", t0] => t0.toInt?.map .init
  | ["pos", t, pnl, entry, qty] =>
    match t.toInt?, parseRat? pnl, parseRat? entry, parseRat? qty with
    | some t, some pnl, some entry, some qty => some (.pos ⟨t, ⟨pnl, entry, qty⟩⟩)
    | _, _, _, _ => none
  | ["gen", rf, iv] =>
    match parseRat? rf, parseIv? iv with
    | some rf, some iv => some (.gen rf iv)
    | _, _ => none
  | _ => none

/-! ### concrete model -/

def calcOf (k : Kind) (rf mean risk : Rat) (iv : Interval) : Metric :=
  match k with
  | .sharpe => SharpeRatio.calculate rf mean risk iv
  | .sortino => SortinoRatio.calculate rf mean risk iv
  | .calmar => CalmarRatio.calculate rf mean risk iv
  | .ror => RateOfReturn.calculate mean iv

def scaleOf (k : Kind) (m : Metric) (dst : Interval) : Metric :=
  match k with
  | .sharpe => SharpeRatio.scale root m dst
  | .sortino => SortinoRatio.scale root m dst
  | .calmar => CalmarRatio.scale root m dst
  | .ror => RateOfReturn.scale m dst

/-! branch tags (`% ...` lines are not observations; they feed the evidence's branch histogram) -/

def calcTag (k : Kind) (rf mean risk : Rat) : String :=
  if k == .ror then "ror" else
  if risk == 0 then
    (if k == .sharpe then "sharpe-zero-risk"
     else if rf < mean then "zero-risk-pos" else if mean < rf then "zero-risk-neg" else "zero-risk-eq")
  else if risk < 0 then "ratio-neg-risk" else "ratio"

def scaleTag (k : Kind) (v : Rat) (src dst : Interval) : String :=
  let law : Rat → Rat := if k == .ror then id else root
  let prod := v * law (periods src dst)
  (if src.secs == 0 then "zero-current" else if dst.secs == 0 then "zero-target"
   else if src.interval % 1000 == 0 && dst.interval % 1000 == 0 then "whole" else "truncated") ++ "/" ++
  (if v == decimalMax then "MAX" else if v == decimalMin then "MIN" else "finite") ++ "/" ++
  (if decimalMax < prod then "overflow-pos" else if prod < decimalMin then "overflow-neg" else "fits")

def obsState (g : Gen) : List String :=
  ["st now " ++ toString g.timeEngineNow ++ " cnt " ++ fmtRat g.total.count ++ " " ++
    fmtRat g.losses.count ++ " mean " ++ fmtRatApprox g.total.mean ++ " sd " ++
    fmtRatApprox g.total.dispersion.stdDev ++ " lsd " ++ fmtRatApprox g.losses.dispersion.stdDev]

def fmtPF : Option Rat → String
  | none => "none"
  | some r => fmtVal r

def obsSheet (period : Int) (s : Sheet) : List String :=
  [ "period " ++ toString period,
    "pnl " ++ fmtRat s.pnl,
    "ror " ++ fmtVal s.pnlReturn.value,
    "sharpe " ++ fmtVal s.sharpeRatio.value,
    "sortino " ++ fmtVal s.sortinoRatio.value,
    "calmar " ++ fmtVal s.calmarRatio.value,
    "ddmax " ++ fmtOptRatApprox (s.drawdowns.max.map (·.value)),
    "win " ++ fmtOptRatApprox s.winRate,
    "pf " ++ fmtPF s.profitFactor ]

def model : Drv (Option Gen) where
  init := none
  step s toks :=
    match parseOp toks with
    | none => (s, ["bad-op"])
    | some (.name iv) => (s, ["name " ++ iv.name, "secs " ++ toString (numSeconds iv.interval)])
    | some (.calc k rf mean risk iv) =>
      (s, obsMetric (calcOf k rf mean risk iv) ++ ["% calc " ++ calcTag k rf mean risk])
    | some (.calcRor mean iv) => (s, obsMetric (RateOfReturn.calculate mean iv))
    | some (.scale k v src dst) =>
      (s, obsMetric (scaleOf k ⟨v, src⟩ dst) ++ ["% scale " ++ scaleTag k v src dst])
    | some (.cs k rf mean risk src dst) =>
      let m := calcOf k rf mean risk src
      (s, obsMetric (scaleOf k m dst) ++
        ["% cs " ++ calcTag k rf mean risk ++ " " ++ scaleTag k m.value src dst])
    | some (.init t0) => let g := Gen.init t0; (some g, obsState g)
    | some (.pos p) =>
      match s with
      | none => (s, ["bad-op"])
      | some g =>
        -- the model's checked update (`Metrics.Gen.updateChecked`): `none` = the code panics
        match g.updateChecked root p with
        | none => (s, ["panic"])
        | some g' => (some g', obsState g')
    | some (.gen rf iv) =>
      match s with
      | none => (s, ["bad-op"])
      | some g =>
        let (g', sheet) := g.generate root rf iv
        let p := g.tradingPeriod
        let dd := (g.sheet.generate.2.max.map (·.value)).getD 0
        (some g', obsSheet (numSeconds p.interval) sheet ++
          [ "% gen sharpe " ++ calcTag .sharpe rf g.total.mean g.total.dispersion.stdDev ++ " " ++
              scaleTag .sharpe (SharpeRatio.calculate rf g.total.mean g.total.dispersion.stdDev p).value p iv,
            "% gen sortino " ++ calcTag .sortino rf g.total.mean g.losses.dispersion.stdDev ++ " " ++
              scaleTag .sortino (SortinoRatio.calculate rf g.total.mean g.losses.dispersion.stdDev p).value p iv,
            "% gen calmar " ++ calcTag .calmar rf g.total.mean dd ++ " " ++
              scaleTag .calmar (CalmarRatio.calculate rf g.total.mean dd p).value p iv ])

/-! ### abstract spec: recomputed from the inputs / the whole history, extended values -/

def toExt (r : Rat) : Ext :=
  if r == decimalMax then .posInf else if r == decimalMin then .negInf else .fin r

def wholeSeconds (i : Interval) : Bool := i.interval % 1000 == 0

/-- The spec speaks about a scaled value only where the documentation does: a finite value, interval
lengths the code can see exactly (whole seconds), a result that a `Decimal` can hold. -/
def specScaled (k : Kind) (v : Ext) (src dst : Interval) : Option String :=
  match v with
  | .fin _ =>
    if wholeSeconds src && wholeSeconds dst then
      match (if k == .ror then specScaleLinear v src dst else specScaleSqrt root v src dst) with
      | some e => if e.representable then some (fmtVal e.toDecimal) else none
      | none => none
    else none
  | _ => none

def specCalc (k : Kind) (rf mean risk : Rat) : Ext :=
  match k with
  | .sharpe => specSharpe rf mean risk
  | .sortino => specSortino rf mean risk
  | .calmar => specCalmar rf mean risk
  | .ror => .fin mean

structure SSt where
  start : Int
  ps : List Exit

def specName : Interval → List String
  | .daily => ["name Daily", "secs 86400"]
  | .annual252 => ["name Annual(252)", "secs " ++ toString (252 * 86400)]
  | .annual365 => ["name Annual(365)", "secs " ++ toString (365 * 86400)]
  | .delta _ => []

def keyed (key : String) : Option String → List String
  | some v => [key ++ " " ++ v]
  | none => []

def specGen (s : SSt) (rf : Rat) (iv : Interval) : List String :=
  let period := specTradingPeriod s.start s.ps
  -- C18 documents drawdowns for curves whose running maxima are positive only
  let positive : Bool := decide (Drawdown.PositivePeaks (specCurve s.ps))
  let ddmax := (Drawdown.specMax (Drawdown.reported (specCurve s.ps))).map (·.value)
  let m := specMetrics root rf s.ps (ddmax.getD 0)
  let ts := TearSheet.specTearSheet (s.ps.map (·.closed))
  (if wholeSeconds period then ["period " ++ toString (period.interval / 1000)] else []) ++
  [ "pnl " ++ fmtRat ts.pnl ] ++
  keyed "ror" (specScaled .ror m.pnlReturn period iv) ++
  keyed "sharpe" (specScaled .sharpe m.sharpe period iv) ++
  keyed "sortino" (specScaled .sortino m.sortino period iv) ++
  (if positive then keyed "calmar" (specScaled .calmar m.calmar period iv) ++
    [ "ddmax " ++ fmtOptRatApprox ddmax ] else []) ++
  [ "win " ++ fmtOptRatApprox ts.winRate,
    "pf " ++ fmtPF ts.profitFactor ]

def spec : Drv (Option SSt) where
  init := none
  step s toks :=
    match parseOp toks with
    | none => (s, ["bad-op"])
    | some (.name iv) => (s, specName iv)
    | some (.calc k rf mean risk iv) =>
      (s, ["v " ++ fmtVal (specCalc k rf mean risk).toDecimal, "iv " ++ fmtIv iv])
    | some (.calcRor mean iv) => (s, ["v " ++ fmtVal mean, "iv " ++ fmtIv iv])
    | some (.scale k v src dst) => (s, keyed "v" (specScaled k (toExt v) src dst) ++ ["iv " ++ fmtIv dst])
    | some (.cs k rf mean risk src dst) =>
      (s, keyed "v" (specScaled k (specCalc k rf mean risk) src dst) ++ ["iv " ++ fmtIv dst])
    | some (.init t0) => (some ⟨t0, []⟩, [])
    | some (.pos p) =>
      match s with
      | none => (s, ["bad-op"])
      | some st =>
        -- the return of a position without a cost of investment is undefined: the spec expects the
        -- panic (same predicate as the model's: `Metrics.Exit.panics`; this line is a copy, not an
        -- independent oracle)
        if p.panics then (s, ["panic"]) else (some { st with ps := st.ps ++ [p] }, [])
    | some (.gen rf iv) =>
      match s with
      | none => (s, ["bad-op"])
      | some st => (s, specGen st rf iv)

end BarterModel.Driver.C16M

def main (args : List String) : IO UInt32 :=
  BarterModel.Driver.runMain BarterModel.Driver.C16M.model BarterModel.Driver.C16M.spec args
