import BarterModel.Driver.Common
import BarterModel.Model.MockClient
/-!
Line-protocol driver for C08C (the MockExecution client and its protocol with the simulated exchange).

Configuration phase
  `cfg <latency_ms> <fee> <cap> <n> <bal>*n <k> <base:quote>*k`   (`bal` is `x` or `total:free`)
  `shape <m|b|k> <tok>*k`   directly after `cfg`: exchange id + instrument kinds (`shapeOk`; syntax checked, content ignored)
  `grp <instr>`   `ord <instr> <strategy> <cid> <B|S> <M|L> <price> <qty> <tif> <state…>`
  `start <workers>`   |   `dcancel`
Running phase (`<t>`, `<since>`: milliseconds within chrono's `DateTime<Utc>` range, else `bad-op`)
  `clock <t>`  `call <w> open <instr> <B|S> <M|L> <price> <qty> <strategy> <cid> <tif>`
  `call <w> snap|balances|orders`  `call <w> trades <since>`  `call <w> cancel <instr> <strategy> <cid>`
  `abandon <w>`  `exch off|on|stop`  `adv <ms>`  `sub`  `poll <s>`
-/
namespace BarterModel.Driver.C08C
open BarterModel.Driver BarterModel.MockExchange BarterModel.MockClient

def side2s : Side → String
  | .buy => "B"
  | .sell => "S"

def kind2s : Kind → String
  | .market => "M"
  | .limit => "L"

def parseSide : String → Option Side
  | "B" => some .buy
  | "S" => some .sell
  | _ => none

def parseKind : String → Option Kind
  | "M" => some .market
  | "L" => some .limit
  | _ => none

def parseBal (s : String) : Option (Rat × Rat) :=
  match s.splitOn ":" with
  | [x] => (parseRat? x).map fun r => (r, r)
  | [t, f] =>
    match parseRat? t, parseRat? f with
    | some t, some f => some (t, f)
    | _, _ => none
  | _ => none

def parseInstr (s : String) : Option Instr :=
  match s.splitOn ":" with
  | [b, q] =>
    match b.toNat?, q.toNat? with
    | some b, some q => some ⟨b, q⟩
    | _, _ => none
  | _ => none

def allSome {α : Type} : List (Option α) → Option (List α)
  | [] => some []
  | none :: _ => none
  | some a :: rest => (allSome rest).map (a :: ·)

def parseTif (s : String) : Option Nat :=
  match s.toNat? with
  | some n => if n < 5 then some n else none
  | none => none

/-- `<latency_ms> <fee> <cap> <n> <bal>*n <k> <base:quote>*k` -/
def parseCfg : List String → Option XCfg
  | lat :: fee :: cap :: n :: rest =>
    match lat.toNat?, parseRat? fee, cap.toNat?, n.toNat? with
    | some lat, some fee, some cap, some n =>
      if cap = 0 then none else
      if rest.length < n + 1 then none else
      match allSome ((rest.take n).map parseBal), (rest.drop n) with
      | some bals, k :: irest =>
        match k.toNat? with
        | some k =>
          if irest.length ≠ k then none else
          match allSome (irest.map parseInstr) with
          | some is => some { base := { latency := lat, fee := fee, init := bals, instruments := is }, cap := cap, groups := [] }
          | none => none
        | none => none
      | _, _ => none
    | _, _, _, _ => none
  | _ => none

def parseOpenMeta : List String → Option (Nat × Int × Rat)
  | [id, time, filled] =>
    match id.toNat?, time.toInt?, parseRat? filled with
    | some id, some time, some filled => some (id, time, filled)
    | _, _, _ => none
  | _ => none

def parseOState : List String → Option OState
  | "O" :: rest => (parseOpenMeta rest).map fun (id, time, filled) => .open id time filled
  | ["C", id, time] =>
    match id.toNat?, time.toInt? with
    | some id, some time => some (.cancelled id time)
    | _, _ => none
  | ["F"] => some .openInFlight
  | ["X"] => some .fullyFilled
  | ["E"] => some .expired
  | ["R"] => some .openFailed
  | ["K"] => some (.cancelInFlight none)
  | "K" :: rest => (parseOpenMeta rest).map fun m => .cancelInFlight (some m)
  | _ => none

/-- `<instr> <strategy> <cid> <B|S> <M|L> <price> <qty> <tif> <state…>` -/
def parseOrd : List String → Option InitOrd
  | i :: st :: cid :: sd :: kd :: p :: q :: tif :: state =>
    match i.toNat?, st.toNat?, cid.toNat?, parseSide sd, parseKind kd, parseRat? p, parseRat? q, parseTif tif,
          parseOState state with
    | some i, some st, some cid, some sd, some kd, some p, some q, some tif, some state =>
      some ⟨⟨i, st, cid, sd, kd, p, q, tif⟩, state⟩
    | _, _, _, _, _, _, _, _, _ => none
  | _ => none

/-- A time the harness can turn into a `DateTime<Utc>` (`Utc.timestamp_millis_opt`): chrono's range
`[minTime, maxTime]`; anything else is not an input (`bad-op` on both sides). -/
def parseTime (s : String) : Option Int :=
  match s.toInt? with
  | some t => if minTime ≤ t ∧ t ≤ maxTime then some t else none
  | none => none

def parseCall : List String → Option Call
  | ["open", i, sd, kd, p, q, st, cid, tif] =>
    match i.toNat?, parseSide sd, parseKind kd, parseRat? p, parseRat? q, st.toNat?, cid.toNat?, parseTif tif with
    | some i, some sd, some kd, some p, some q, some st, some cid, some tif =>
      some (.open { instr := i, strategy := st, cid := cid, side := sd, price := p, qty := q, kind := kd } tif)
    | _, _, _, _, _, _, _, _ => none
  | ["snap"] => some .snap
  | ["balances"] => some .balances
  | ["orders"] => some .orders
  | ["trades", since] => (parseTime since).map .trades
  | ["cancel", i, st, cid] =>
    match i.toNat?, st.toNat?, cid.toNat? with
    | some i, some st, some cid => some (.cancel i st cid)
    | _, _, _ => none
  | _ => none

def parseOp : List String → Option Op
  | ["clock", t] => (parseTime t).map .clock
  | "call" :: w :: rest =>
    match w.toNat?, parseCall rest with
    | some w, some c => some (.call w c)
    | _, _ => none
  | ["abandon", w] => w.toNat?.map .abandon
  | ["exch", "off"] => some .exchOff
  | ["exch", "on"] => some .exchOn
  | ["exch", "stop"] => some .exchStop
  | ["adv", ms] => ms.toNat?.map .adv
  | ["sub"] => some .sub
  | ["poll", s] => s.toNat?.map .poll
  | _ => none

/-! ### formatting -/

def fmtTrade (tr : Trade) : String :=
  s!"{tr.id} {tr.orderId} {tr.instr} {tr.strategy} {side2s tr.side} {fmtRat tr.price} {fmtRat tr.qty} {fmtRat tr.fees} {tr.time}"

def fmtHead (h : OrdHead) : String :=
  s!"{h.instr} {h.strategy} {h.cid} {side2s h.side} {fmtRat h.price} {fmtRat h.qty} {kind2s h.kind} {h.tif}"

def fmtOpenOrd (o : OpenOrd) : String := s!"O {fmtHead o.head} {o.id} {o.time} {fmtRat o.filled}"

def fmtSnapOrd : SnapOrd → String
  | .open o => fmtOpenOrd o
  | .cancelled o => s!"C {fmtHead o.head} {o.id} {o.time}"

def balLines (p : String) (bs : List Bal) : List String :=
  (bs.zipIdx).map fun (b, a) => s!"{p}bal {a} {fmtRat b.total} {fmtRat b.free} {b.time}"

def groupLines (p : String) (gs : List (Nat × List SnapOrd)) : List String :=
  s!"{p}instruments {gs.length}" ::
    gs.flatMap fun (i, g) => s!"{p}grp {i} {g.length}" :: g.map fun o => s!"{p}ord {fmtSnapOrd o}"

def eventLine : Event → String
  | .balance a b => s!"ev B {a} {fmtRat b.total} {fmtRat b.free} {b.time}"
  | .trade tr => s!"ev T {fmtTrade tr}"

def errLine (p : String) : Err → String
  | .kindUnsupported => s!"{p}err kind"
  | .instrumentInvalid i => s!"{p}err instrument {i}"
  | .balanceInsufficient a av rq => s!"{p}err insufficient {a} {fmtRat av} {fmtRat rq}"

def echoLine (p : String) (r : Req) (tif : Nat) : String :=
  s!"{p}echo {r.instr} {r.strategy} {r.cid} {side2s r.side} {fmtRat r.price} {fmtRat r.qty} {kind2s r.kind} {tif}"

def doneLines (d : Done) : List String :=
  let p := s!"w{d.worker}."
  s!"{p}done {d.call} {d.elapsed}" ::
  match d.what, d.out with
  | .open r tif, .answered (.order (.accepted f)) =>
    [s!"{p}resp ok", echoLine p r tif, s!"{p}open {f.id} {fmtRat f.filled} {f.time}"]
  | .open r tif, .answered (.order (.rejected e)) => [s!"{p}resp rejected", echoLine p r tif, errLine p e]
  | .open r tif, .offline => [s!"{p}resp offline", echoLine p r tif, s!"{p}err offline"]
  | .snap, .answered (.snapshot bs gs) => s!"{p}resp snapshot" :: balLines p bs ++ groupLines p gs
  | .balances, .answered (.balances bs) => [s!"{p}resp balances", s!"{p}balances {bs.length}"] ++ balLines p bs
  | .orders, .answered (.ordersOpen os) =>
    [s!"{p}resp orders", s!"{p}orders {os.length}"] ++ os.map fun o => s!"{p}ord {fmtOpenOrd o}"
  | .trades _, .answered (.trades ts) =>
    [s!"{p}resp trades", s!"{p}trades {ts.length}"] ++ ts.map fun tr => s!"{p}trade {fmtTrade tr}"
  | .cancel i st cid, .offline => [s!"{p}resp offline", s!"{p}cecho {i} {st} {cid}", s!"{p}err offline"]
  | .snap, .offline | .balances, .offline | .orders, .offline | .trades _, .offline =>
    [s!"{p}resp offline", s!"{p}err offline"]
  | _, _ => [s!"{p}resp mismatch"]

def pendingLine (ws : List (Option Pending)) : String :=
  "pending " ++ " ".intercalate (ws.map fun w => match w with | some p => toString p.call | none => "-")

def insertDone (d : Done) : List Done → List Done
  | [] => [d]
  | x :: xs => if d.worker < x.worker then d :: x :: xs else x :: insertDone d xs

def sortDone (ds : List Done) : List Done := ds.foldr insertDone []

def pollLines : Option PollObs → List String
  | none => []
  | some o => o.evs.map eventLine ++ [if o.ended then "stream end" else "stream pending"]

inductive MSt where
  | idle
  | config (c : XCfg)
  | running (s : Sys)
  | dead

def addGroup (c : XCfg) (i : Nat) : XCfg := { c with groups := c.groups ++ [(i, [])] }

def addOrd (c : XCfg) (o : InitOrd) : Option XCfg :=
  match c.groups.reverse with
  | (i, os) :: before => some { c with groups := (before.reverse) ++ [(i, os ++ [o])] }
  | [] => none

/-- One instrument token of the `shape` op: `<s|p|f|o><q|b><digit><u|t|c>[+]` (kind, quoting, settlement
asset, contract size, spec present). -/
def shapeTokOk (t : String) : Bool :=
  match t.toList with
  | [k, q, s, c] | [k, q, s, c, '+'] =>
    (k == 's' || k == 'p' || k == 'f' || k == 'o') && (q == 'q' || q == 'b') && s.isDigit &&
      (c == 'u' || c == 't' || c == 'c')
  | _ => false

/-- `shape <m|b|k> <tok>*k` directly after `cfg` (before any `grp`): the exchange id the mock stands for and
the kind / quoting / settlement asset / contract size / spec of every instrument handed to
`MockExchange::new`. The exchange reads `underlying` only and passes its exchange id through: the syntax
is checked, the content ignored. -/
def shapeOk (c : XCfg) : List String → Bool
  | e :: toks =>
    (e == "m" || e == "b" || e == "k") && c.groups.isEmpty && toks.length == c.base.instruments.length &&
      toks.all shapeTokOk
  | [] => false

def model : Drv MSt where
  init := .idle
  step st toks :=
    match st, toks with
    | .idle, "cfg" :: rest =>
      match parseCfg rest with
      | some c => (.config c, [])
      | none => (st, ["bad-op"])
    | .config c, "shape" :: rest => (st, if shapeOk c rest then [] else ["bad-op"])
    | .config c, ["grp", i] =>
      match i.toNat? with
      | some i => (.config (addGroup c i), [])
      | none => (st, ["bad-op"])
    | .config c, "ord" :: rest =>
      match (parseOrd rest).bind (addOrd c) with
      | some c => (.config c, [])
      | none => (st, ["bad-op"])
    | .config _, ["dcancel"] => (.dead, ["panic"])
    | .config c, ["start", w] =>
      match w.toNat? with
      | some w =>
        let x := XState.init c
        (.running (Sys.init c w), balLines "" x.base.balances ++ groupLines "" x.groups)
      | none => (st, ["bad-op"])
    | .running s, toks =>
      match (parseOp toks).bind s.step with
      | some (s', obs) =>
        (.running s', pollLines obs ++ (sortDone s'.out).flatMap doneLines ++ [s!"now {s'.now}", pendingLine s'.workers])
      | none => (st, ["bad-op"])
    | _, _ => (st, ["bad-op"])

/-! ### specification driver -/

inductive SSt where
  | idle
  | config (c : XCfg)
  | running (s : Spec.SSys)
  | dead

def ledgerLines (p : String) (l : List (Rat × Rat)) (time : Int) : List String :=
  (l.zipIdx).map fun (b, a) => s!"{p}bal {a} {fmtRat b.1} {fmtRat b.2} {time}"

/-- The specification speaks only about well-formed configurations (C08) whose client order ids
identify the configured orders. -/
def inScope (c : XCfg) : Bool :=
  c.base.wf && decide (((Spec.initialOpen c).map (·.head.cid)).Nodup) &&
    decide (((Spec.initialCancelled c).map (·.head.cid)).Nodup)

def sdoneLines (d : Spec.SDone) : List String :=
  let p := s!"w{d.worker}."
  s!"{p}done {d.call} {d.elapsed}" ::
  match d.ending with
  | .failed => [s!"{p}resp offline", s!"{p}err offline"]
  | .answered (.filled id time qty _ _ _) => [s!"{p}resp ok", s!"{p}open {id} {fmtRat qty} {time}"]
  | .answered .rejected => [s!"{p}resp rejected"]
  | .answered (.balances l time) => [s!"{p}resp balances", s!"{p}balances {l.length}"] ++ ledgerLines p l time
  | .answered (.snapshot l time gs) => s!"{p}resp snapshot" :: ledgerLines p l time ++ groupLines p gs
  | .answered (.orders os) => [s!"{p}resp orders", s!"{p}orders {os.length}"] ++ os.map fun o => s!"{p}ord {fmtOpenOrd o}"
  | .answered (.trades ts) => [s!"{p}resp trades", s!"{p}trades {ts.length}"] ++ ts.map fun tr => s!"{p}trade {fmtTrade tr}"
  | .answered .unsupported => [s!"{p}resp offline"]

def spec : Drv SSt where
  init := .idle
  step st toks :=
    match st, toks with
    | .idle, "cfg" :: rest =>
      match parseCfg rest with
      | some c => (.config c, [])
      | none => (st, ["bad-op"])
    | .config c, "shape" :: rest => (st, if shapeOk c rest then [] else ["bad-op"])
    | .config c, ["grp", i] =>
      match i.toNat? with
      | some i => (.config (addGroup c i), [])
      | none => (st, ["bad-op"])
    | .config c, "ord" :: rest =>
      match (parseOrd rest).bind (addOrd c) with
      | some c => (.config c, [])
      | none => (st, ["bad-op"])
    | .config _, ["dcancel"] => (.dead, [])
    | .config c, ["start", w] =>
      match w.toNat? with
      | some w =>
        if inScope c then
          (.running (Spec.SSys.init c w),
           ledgerLines "" (MockExchange.Spec.ledger c.base []) 0 ++
             groupLines "" (Spec.groups ((Spec.byCid (·.head.cid) (Spec.initialOpen c)).map .open ++
               (Spec.byCid (·.head.cid) (Spec.initialCancelled c)).map .cancelled)))
        else (.dead, [])
      | none => (st, ["bad-op"])
    | .running s, toks =>
      match (parseOp toks).bind s.step with
      | some (s', ds, obs) =>
        (.running s', pollLines obs ++ ds.flatMap sdoneLines ++ [s!"now {s'.now}", pendingLine s'.workers])
      | none => (st, ["bad-op"])
    | .dead, _ => (st, [])
    | _, _ => (st, ["bad-op"])

end BarterModel.Driver.C08C

def main (args : List String) : IO UInt32 :=
  BarterModel.Driver.runMain BarterModel.Driver.C08C.model BarterModel.Driver.C08C.spec args
