import BarterModel.Driver.Common
import BarterModel.Model.Drawdown
/-!
Line-protocol driver for C18.

First op of a case selects what is driven:
  `raw`            `DrawdownGenerator::default()` + default Max/Mean generators (fed as the tear sheets do)
  `rawinit v t`    `DrawdownGenerator::init(Timed(v,t))` + default Max/Mean generators
  `asset v t`      `TearSheetAssetGenerator::init` (balance total `v` at `t`)
  `instr t`        `TearSheetGenerator::init(t)`
then
  `pt v t`         raw: `update(Timed(v,t))`; asset: `update_from_balance(total v, time t)`
  `pos d t`        instr: `update_from_position(pnl_realised d, time_exit t)`
  `asset v t f`, `pt v t f` (asset only), `pos d t te`: optional 4th token = the balance's `free`
                   amount / the position's `time_enter`; both are irrelevant to the drawdowns (which
                   follow `total` / `time_exit`), so the drivers only check that the token parses
  `gen`            generate on a clone (the first `generate` after the history so far)
  `gen!`           generate on the generator itself (tear sheets only; mutates mean/max)

Observations (`dd` = `~value time_start time_end` or `none`):
  `emit dd` (raw only: the value `update` returned), `state peak ~drawdown_max time_peak time_now`,
  `cur dd`, `count n`, `max dd`, `mean ~depth ms`; for gen: `g_cur`, `g_count`, `g_max`, `g_mean`.
-/
namespace BarterModel.Driver.C18
open BarterModel.Driver BarterModel.Drawdown

inductive Mode
  | unset | raw | asset | instr
deriving DecidableEq

def fmtDD : Option Drawdown → String
  | none => "none"
  | some d => fmtRatApprox d.value ++ " " ++ toString d.timeStart ++ " " ++ toString d.timeEnd

def fmtMean : Option MeanDrawdown → String
  | none => "none"
  | some m => fmtRatApprox m.meanDrawdown ++ " " ++ toString m.meanDrawdownMs

def fmtOptInt : Option Int → String
  | none => "none"
  | some t => toString t

def fmtState (g : Gen) : String :=
  "state " ++ fmtOptRat g.peak ++ " " ++ fmtRatApprox g.drawdownMax ++ " " ++ fmtOptInt g.timePeak
    ++ " " ++ toString g.timeNow

/-- observations after an update of the generators -/
def obsSheet (s : Sheet) : List String :=
  [ fmtState s.gen,
    "cur " ++ fmtDD s.gen.generate,
    "count " ++ toString s.mean.count,
    "max " ++ fmtDD s.max.generate,
    "mean " ++ fmtMean s.mean.generate ]

def obsReport (r : Report) (count : Nat) : List String :=
  [ "g_cur " ++ fmtDD r.current,
    "g_count " ++ toString count,
    "g_max " ++ fmtDD r.max,
    "g_mean " ++ fmtMean r.mean ]

structure MSt where
  mode : Mode
  pnl : Rat
  sheet : Sheet

def parsePt (v t : String) : Option Pt :=
  match parseRat? v, parseInt? t with
  | some v, some t => some ⟨t, v⟩
  | _, _ => none

/-- `v t f` with an ignored (but well-formed) free balance `f` -/
def parsePtFree (v t f : String) : Option Pt :=
  match parseRat? f with
  | some _ => parsePt v t
  | none => none

/-- `d t te` with an ignored (but well-formed) enter time `te` -/
def parsePtEnter (d t te : String) : Option Pt :=
  match parseInt? te with
  | some _ => parsePt d t
  | none => none

def model : Drv MSt where
  init := ⟨.unset, 0, Sheet.default⟩
  step s toks :=
    match s.mode, toks with
    | .unset, ["raw"] =>
      let s' : MSt := ⟨.raw, 0, Sheet.default⟩
      (s', obsSheet s'.sheet)
    | .unset, ["rawinit", v, t] =>
      match parsePt v t with
      | some p => let s' : MSt := ⟨.raw, 0, ⟨Gen.init p, MeanGen.default, MaxGen.default⟩⟩; (s', obsSheet s'.sheet)
      | none => (s, ["bad-op"])
    | .unset, ["asset", v, t] =>
      match parsePt v t with
      | some p => let s' : MSt := ⟨.asset, 0, Sheet.initAsset p⟩; (s', obsSheet s'.sheet)
      | none => (s, ["bad-op"])
    | .unset, ["asset", v, t, f] =>
      match parsePtFree v t f with
      | some p => let s' : MSt := ⟨.asset, 0, Sheet.initAsset p⟩; (s', obsSheet s'.sheet)
      | none => (s, ["bad-op"])
    | .unset, ["instr", t] =>
      match parseInt? t with
      | some _ => let s' : MSt := ⟨.instr, InstrSheet.init.pnlRaw, InstrSheet.init.sheet⟩; (s', obsSheet s'.sheet)
      | none => (s, ["bad-op"])
    | .raw, ["pt", v, t] =>
      match parsePt v t with
      | some p =>
        let (sh, e) := s.sheet.update p
        ({ s with sheet := sh }, ("emit " ++ fmtDD e) :: obsSheet sh)
      | none => (s, ["bad-op"])
    | .asset, ["pt", v, t] =>
      match parsePt v t with
      | some p =>
        let (sh, _) := s.sheet.update p
        ({ s with sheet := sh }, obsSheet sh)
      | none => (s, ["bad-op"])
    | .asset, ["pt", v, t, f] =>
      match parsePtFree v t f with
      | some p =>
        let (sh, _) := s.sheet.update p
        ({ s with sheet := sh }, obsSheet sh)
      | none => (s, ["bad-op"])
    | .instr, ["pos", d, t] =>
      match parsePt d t with
      | some p =>
        let (is, _) := (InstrSheet.mk s.pnl s.sheet).update p.t p.v
        ({ s with pnl := is.pnlRaw, sheet := is.sheet }, obsSheet is.sheet)
      | none => (s, ["bad-op"])
    | .instr, ["pos", d, t, te] =>
      match parsePtEnter d t te with
      | some p =>
        let (is, _) := (InstrSheet.mk s.pnl s.sheet).update p.t p.v
        ({ s with pnl := is.pnlRaw, sheet := is.sheet }, obsSheet is.sheet)
      | none => (s, ["bad-op"])
    | .raw, ["gen"] => (s, ["g_cur " ++ fmtDD s.sheet.gen.generate])
    | .asset, ["gen"] | .instr, ["gen"] =>
      let (sh, r) := s.sheet.generate
      (s, obsReport r sh.mean.count)
    | .asset, ["gen!"] | .instr, ["gen!"] =>
      let (sh, r) := s.sheet.generate
      ({ s with sheet := sh }, obsReport r sh.mean.count ++ obsSheet sh)
    | _, _ => (s, ["bad-op"])

/-- Spec state: the curve fed so far (in order), nothing else. `dirty` is set by `gen!`: the
property speaks about the first `generate` after an update history, so after a mutating generate
the mean/max keys are no longer constrained (`cur`/`emit` still are). -/
structure SSt where
  mode : Mode
  pnl : Rat
  pts : List Pt
  dirty : Bool

def specObs (s : SSt) (prevCompleted : Nat) (emit : Bool) : List String :=
  if ¬ PositivePeaks s.pts then [] else
  let dc := decompose s.pts
  (if emit then ["emit " ++ fmtDD (dc.1.drop prevCompleted).head?] else []) ++
  ["cur " ++ fmtDD dc.2] ++
  (if s.dirty then [] else
    [ "count " ++ toString dc.1.length,
      "max " ++ fmtDD (specMax dc.1),
      "mean " ++ fmtMean (specMean dc.1) ])

def specGen (s : SSt) (full : Bool) : List String :=
  if ¬ PositivePeaks s.pts then [] else
  let dc := decompose s.pts
  let rep := reported s.pts
  ["g_cur " ++ fmtDD dc.2] ++
  (if s.dirty || !full then [] else
    [ "g_count " ++ toString rep.length,
      "g_max " ++ fmtDD (specMax rep),
      "g_mean " ++ fmtMean (specMean rep) ])

def spec : Drv SSt where
  init := ⟨.unset, 0, [], false⟩
  step s toks :=
    let push (s : SSt) (p : Pt) (emit : Bool) : SSt × List String :=
      let prev := (decompose s.pts).1.length
      let s' := { s with pts := s.pts ++ [p] }
      (s', specObs s' prev emit)
    match s.mode, toks with
    | .unset, ["raw"] => let s' : SSt := ⟨.raw, 0, [], false⟩; (s', specObs s' 0 false)
    | .unset, ["rawinit", v, t] =>
      match parsePt v t with
      | some p => let s' : SSt := ⟨.raw, 0, [p], false⟩; (s', specObs s' 0 false)
      | none => (s, ["bad-op"])
    | .unset, ["asset", v, t] =>
      match parsePt v t with
      | some p => let s' : SSt := ⟨.asset, 0, [p], false⟩; (s', specObs s' 0 false)
      | none => (s, ["bad-op"])
    | .unset, ["asset", v, t, f] =>
      match parsePtFree v t f with
      | some p => let s' : SSt := ⟨.asset, 0, [p], false⟩; (s', specObs s' 0 false)
      | none => (s, ["bad-op"])
    | .unset, ["instr", t] =>
      match parseInt? t with
      | some _ => let s' : SSt := ⟨.instr, 0, [], false⟩; (s', specObs s' 0 false)
      | none => (s, ["bad-op"])
    | .raw, ["pt", v, t] =>
      match parsePt v t with
      | some p => push s p true
      | none => (s, ["bad-op"])
    | .asset, ["pt", v, t] =>
      match parsePt v t with
      | some p => push s p false
      | none => (s, ["bad-op"])
    | .asset, ["pt", v, t, f] =>
      match parsePtFree v t f with
      | some p => push s p false
      | none => (s, ["bad-op"])
    | .instr, ["pos", d, t] =>
      match parsePt d t with
      | some p =>
        -- the PnL curve is the cumulative realised PnL
        let pnl := s.pnl + p.v
        push { s with pnl := pnl } ⟨p.t, pnl⟩ false
      | none => (s, ["bad-op"])
    | .instr, ["pos", d, t, te] =>
      match parsePtEnter d t te with
      | some p =>
        -- the PnL curve is the cumulative realised PnL, timed by the exit
        let pnl := s.pnl + p.v
        push { s with pnl := pnl } ⟨p.t, pnl⟩ false
      | none => (s, ["bad-op"])
    | .raw, ["gen"] => (s, specGen s false)
    | .asset, ["gen"] | .instr, ["gen"] => (s, specGen s true)
    | .asset, ["gen!"] | .instr, ["gen!"] =>
      let out := specGen s true
      let s' := { s with dirty := true }
      (s', out ++ specObs s' 0 false)
    | _, _ => (s, ["bad-op"])

/-! ### `sum` mode (configuration-shape family)

`sum <t0> <x|n> I <e:b:q>... B <e:a:v>...` : ONE `TradingSummaryGenerator` initialised from an `EngineState`
over the listed spot instruments (label `k` = position in the line) and the assets they name (label `e:a`,
numbered `a<j>` in order of first appearance); an asset with an entry in `B` holds the builder's balance
`v` at `time_engine_start = t0` (fed through `update_from_balance` into a DEFAULT sheet), the others start
from `default()`. `x` / `n`: updates addressed by index / by name (irrelevant to the drawdowns).
Then `bal e:a v t [f]` (balance snapshot of one asset), `cls k d t [te]` (closed position of one
instrument), `gen [d|a252|a365]`, `gen! [..]` (generate of the whole summary on a clone / itself).
Every key is an independent copy of the single-sheet drivers above: after every op the block of every key
is printed, each line prefixed `a<j>.` / `i<k>.`. -/

structure SumSt (σ : Type) where
  on : Bool
  base : σ
  assets : List (String × σ)
  instrs : List σ

def pre (p : String) (ls : List String) : List String := ls.map fun l => p ++ "." ++ l

def parseTriple (s : String) : Option (Nat × Nat × String) :=
  match s.splitOn ":" with
  | [e, a, v] =>
    match e.toNat?, a.toNat? with
    | some e, some a => some (e, a, v)
    | _, _ => none
  | _ => none

def addNew (l : List String) (x : String) : List String := if l.contains x then l else l ++ [x]

/-- asset labels in order of first appearance; `none` when an instrument token is malformed -/
def sumAssets : List String → Option (List String)
  | [] => some []
  | t :: ts =>
    match parseTriple t with
    | some (e, b, q) =>
      match q.toNat? with
      | some q =>
        if e ≥ 5 || b == q then none else
        match sumAssets ts with
        | some rest =>
          let l := addNew (addNew [] s!"{e}:{b}") s!"{e}:{q}"
          some (l ++ rest.filter fun x => !l.contains x)
        | none => none
      | none => none
    | none => none

/-- the `B` entries: label, value; each asset known, at most once, value a decimal -/
def sumInits (assets : List String) : List String → Option (List (String × String))
  | [] => some []
  | t :: ts =>
    match parseTriple t with
    | some (e, a, v) =>
      match sumInits assets ts, parseRat? v with
      | some rest, some _ =>
        let l := s!"{e}:{a}"
        if assets.contains l && !(rest.any fun x => x.1 == l) then some ((l, v) :: rest) else none
      | _, _ => none
    | none => none

structure SumCfg where
  t0 : String
  assets : List String
  ninstr : Nat
  inits : List (String × String)

def parseSum : List String → Option SumCfg
  | t0 :: km :: "I" :: rest =>
    if (parseInt? t0).isNone || !(km == "x" || km == "n") then none else
    let insts := rest.takeWhile (· != "B")
    match rest.dropWhile (· != "B") with
    | "B" :: bals =>
      if insts.isEmpty || insts.length > 8 then none else
      match sumAssets insts with
      | some assets =>
        match sumInits assets bals with
        | some inits => some ⟨t0, assets, insts.length, inits⟩
        | none => none
      | none => none
    | _ => none
  | _ => none

def ivOk : List String → Bool
  | [] | ["d"] | ["a252"] | ["a365"] => true
  | _ => false

/-- lift a single-sheet driver `d` to the multi-key mode: `mkAsset` / `mkInstr` are the states of a fresh
asset / instrument key, `obs` the observation block of a key outside its own update. -/
def liftSum {σ : Type} (d : Drv σ) (mkAsset mkInstr : σ) (obs : σ → List String) : Drv (SumSt σ) where
  init := ⟨false, d.init, [], []⟩
  step s toks :=
    let all (s : SumSt σ) : List String :=
      (s.assets.zipIdx.flatMap fun (a, j) => pre s!"a{j}" (obs a.2)) ++
      (s.instrs.zipIdx.flatMap fun (i, k) => pre s!"i{k}" (obs i))
    if !s.on then
      match toks with
      | "sum" :: rest =>
        match parseSum rest with
        | some c =>
          let assets := c.assets.map fun l =>
            match c.inits.find? (·.1 == l) with
            | some (_, v) => (l, (d.step mkAsset ["pt", v, c.t0]).1)
            | none => (l, mkAsset)
          let s' : SumSt σ := ⟨true, s.base, assets, List.replicate c.ninstr mkInstr⟩
          (s', all s')
        | none => (s, ["bad-op"])
      | _ =>
        let (b, o) := d.step s.base toks
        ({ s with base := b }, o)
    else
      let bal (l v t : String) (f : Option String) : SumSt σ × List String :=
        if !(s.assets.any (·.1 == l)) || (parseRat? v).isNone || (parseInt? t).isNone
            || (match f with | some f => (parseRat? f).isNone | none => false) then (s, ["bad-op"]) else
        let s' := { s with assets := s.assets.map fun a => if a.1 == l then (a.1, (d.step a.2 ["pt", v, t]).1) else a }
        (s', all s')
      let cls (k v t : String) (te : Option String) : SumSt σ × List String :=
        match k.toNat? with
        | some k =>
          if k ≥ s.instrs.length || (parseRat? v).isNone || (parseInt? t).isNone
              || (match te with | some x => (parseInt? x).isNone | none => false) then (s, ["bad-op"]) else
          let s' := { s with instrs := s.instrs.zipIdx.map fun (i, n) => if n == k then (d.step i ["pos", v, t]).1 else i }
          (s', all s')
        | none => (s, ["bad-op"])
      match toks with
      | ["bal", l, v, t] => bal l v t none
      | ["bal", l, v, t, f] => bal l v t (some f)
      | ["cls", k, v, t] => cls k v t none
      | ["cls", k, v, t, te] => cls k v t (some te)
      | "gen" :: iv =>
        if !ivOk iv then (s, ["bad-op"]) else
        (s, (s.assets.zipIdx.flatMap fun (a, j) => pre s!"a{j}" (d.step a.2 ["gen"]).2) ++
            (s.instrs.zipIdx.flatMap fun (i, k) => pre s!"i{k}" (d.step i ["gen"]).2))
      | "gen!" :: iv =>
        if !ivOk iv then (s, ["bad-op"]) else
        -- the report of every key first, then every key's sheet after the mutating generate
        let ra := s.assets.map fun a => (a.1, d.step a.2 ["gen!"])
        let ri := s.instrs.map fun i => d.step i ["gen!"]
        let s' := { s with assets := ra.map fun a => (a.1, a.2.1), instrs := ri.map (·.1) }
        let rep (o : List String) : List String := o.filter (·.startsWith "g_")
        (s', (ra.zipIdx.flatMap fun (a, j) => pre s!"a{j}" (rep a.2.2)) ++
             (ri.zipIdx.flatMap fun (i, k) => pre s!"i{k}" (rep i.2)) ++ all s')
      | _ => (s, ["bad-op"])

def modelSum : Drv (SumSt MSt) :=
  liftSum model ⟨.asset, 0, Sheet.default⟩ ⟨.instr, InstrSheet.init.pnlRaw, InstrSheet.init.sheet⟩
    (fun m => obsSheet m.sheet)

def specSum : Drv (SumSt SSt) :=
  liftSum spec ⟨.asset, 0, [], false⟩ ⟨.instr, 0, [], false⟩ (fun s => specObs s 0 false)

end BarterModel.Driver.C18

def main (args : List String) : IO UInt32 :=
  BarterModel.Driver.runMain BarterModel.Driver.C18.modelSum BarterModel.Driver.C18.specSum args
