import BarterModel.Driver.Common
import BarterModel.Model.Drawdown
/-!
Line-protocol driver for C18.

First op of a case selects what is driven:
  `raw`            `DrawdownGenerator::default()` + default Max/Mean generators (fed as the tear sheets do)
  `rawinit v t`    `DrawdownGenerator::init(Timed(v,t))` + default Max/Mean generators
  `asset v t`      `TearSheetAssetGenerator::init` (balance total `v` at `t`)
  `instr t`        `TearSheetGenerator::init(t)`
then
  `pt v t`         raw: `update(Timed(v,t))`; asset: `update_from_balance(total v, time t)`
  `pos d t`        instr: `update_from_position(pnl_realised d, time_exit t)`
  `asset v t f`, `pt v t f` (asset only), `pos d t te`: optional 4th token = the balance's `free`
                   amount / the position's `time_enter`; both are irrelevant to the drawdowns (which
                   follow `total` / `time_exit`), so the drivers only check that the token parses
  `gen`            generate on a clone (the first `generate` after the history so far)
  `gen!`           generate on the generator itself (tear sheets only; mutates mean/max)

Observations (`dd` = `~value time_start time_end` or `none`):
  `emit dd` (raw only: the value `update` returned), `state peak ~drawdown_max time_peak time_now`,
  `cur dd`, `count n`, `max dd`, `mean ~depth ms`; for gen: `g_cur`, `g_count`, `g_max`, `g_mean`.
-/
namespace BarterModel.Driver.C18
open BarterModel.Driver BarterModel.Drawdown

inductive Mode
  | unset | raw | asset | instr
deriving DecidableEq

def fmtDD : Option Drawdown → String
  | none => "none"
  | some d => fmtRatApprox d.value ++ " " ++ toString d.timeStart ++ " " ++ toString d.timeEnd

def fmtMean : Option MeanDrawdown → String
  | none => "none"
  | some m => fmtRatApprox m.meanDrawdown ++ " " ++ toString m.meanDrawdownMs

def fmtOptInt : Option Int → String
  | none => "none"
  | some t => toString t

def fmtState (g : Gen) : String :=
  "state " ++ fmtOptRat g.peak ++ " " ++ fmtRatApprox g.drawdownMax ++ " " ++ fmtOptInt g.timePeak
    ++ " " ++ toString g.timeNow

/-- observations after an update of the generators -/
def obsSheet (s : Sheet) : List String :=
  [ fmtState s.gen,
    "cur " ++ fmtDD s.gen.generate,
    "count " ++ toString s.mean.count,
    "max " ++ fmtDD s.max.generate,
    "mean " ++ fmtMean s.mean.generate ]

def obsReport (r : Report) (count : Nat) : List String :=
  [ "g_cur " ++ fmtDD r.current,
    "g_count " ++ toString count,
    "g_max " ++ fmtDD r.max,
    "g_mean " ++ fmtMean r.mean ]

structure MSt where
  mode : Mode
  pnl : Rat
  sheet : Sheet

def parsePt (v t : String) : Option Pt :=
  match parseRat? v, parseInt? t with
  | some v, some t => some ⟨t, v⟩
  | _, _ => none

/-- `v t f` with an ignored (but well-formed) free balance `f` -/
def parsePtFree (v t f : String) : Option Pt :=
  match parseRat? f with
  | some _ => parsePt v t
  | none => none

/-- `d t te` with an ignored (but well-formed) enter time `te` -/
def parsePtEnter (d t te : String) : Option Pt :=
  match parseInt? te with
  | some _ => parsePt d t
  | none => none

def model : Drv MSt where
  init := ⟨.unset, 0, Sheet.default⟩
  step s toks :=
    match s.mode, toks with
    | .unset, ["raw"] =>
      let s' : MSt := ⟨.raw, 0, Sheet.default⟩
      (s', obsSheet s'.sheet)
    | .unset, ["rawinit", v, t] =>
      match parsePt v t with
      | some p => let s' : MSt := ⟨.raw, 0, ⟨Gen.init p, MeanGen.default, MaxGen.default⟩⟩; (s', obsSheet s'.sheet)
      | none => (s, ["bad-op"])
    | .unset, ["asset", v, t] =>
      match parsePt v t with
      | some p => let s' : MSt := ⟨.asset, 0, Sheet.initAsset p⟩; (s', obsSheet s'.sheet)
      | none => (s, ["bad-op"])
    | .unset, ["asset", v, t, f] =>
      match parsePtFree v t f with
      | some p => let s' : MSt := ⟨.asset, 0, Sheet.initAsset p⟩; (s', obsSheet s'.sheet)
      | none => (s, ["bad-op"])
    | .unset, ["instr", t] =>
      match parseInt? t with
      | some _ => let s' : MSt := ⟨.instr, InstrSheet.init.pnlRaw, InstrSheet.init.sheet⟩; (s', obsSheet s'.sheet)
      | none => (s, ["bad-op"])
    | .raw, ["pt", v, t] =>
      match parsePt v t with
      | some p =>
        let (sh, e) := s.sheet.update p
        ({ s with sheet := sh }, ("emit " ++ fmtDD e) :: obsSheet sh)
      | none => (s, ["bad-op"])
    | .asset, ["pt", v, t] =>
      match parsePt v t with
      | some p =>
        let (sh, _) := s.sheet.update p
        ({ s with sheet := sh }, obsSheet sh)
      | none => (s, ["bad-op"])
    | .asset, ["pt", v, t, f] =>
      match parsePtFree v t f with
      | some p =>
        let (sh, _) := s.sheet.update p
        ({ s with sheet := sh }, obsSheet sh)
      | none => (s, ["bad-op"])
    | .instr, ["pos", d, t] =>
      match parsePt d t with
      | some p =>
        let (is, _) := (InstrSheet.mk s.pnl s.sheet).update p.t p.v
        ({ s with pnl := is.pnlRaw, sheet := is.sheet }, obsSheet is.sheet)
      | none => (s, ["bad-op"])
    | .instr, ["pos", d, t, te] =>
      match parsePtEnter d t te with
      | some p =>
        let (is, _) := (InstrSheet.mk s.pnl s.sheet).update p.t p.v
        ({ s with pnl := is.pnlRaw, sheet := is.sheet }, obsSheet is.sheet)
      | none => (s, ["bad-op"])
    | .raw, ["gen"] => (s, ["g_cur " ++ fmtDD s.sheet.gen.generate])
    | .asset, ["gen"] | .instr, ["gen"] =>
      let (sh, r) := s.sheet.generate
      (s, obsReport r sh.mean.count)
    | .asset, ["gen!"] | .instr, ["gen!"] =>
      let (sh, r) := s.sheet.generate
      ({ s with sheet := sh }, obsReport r sh.mean.count ++ obsSheet sh)
    | _, _ => (s, ["bad-op"])

/-- Spec state: the curve fed so far (in order), nothing else. `dirty` is set by `gen!`: the
property speaks about the first `generate` after an update history, so after a mutating generate
the mean/max keys are no longer constrained (`cur`/`emit` still are). -/
structure SSt where
  mode : Mode
  pnl : Rat
  pts : List Pt
  dirty : Bool

def specObs (s : SSt) (prevCompleted : Nat) (emit : Bool) : List String :=
  if ¬ PositivePeaks s.pts then [] else
  let dc := decompose s.pts
  (if emit then ["emit " ++ fmtDD (dc.1.drop prevCompleted).head?] else []) ++
  ["cur " ++ fmtDD dc.2] ++
  (if s.dirty then [] else
    [ "count " ++ toString dc.1.length,
      "max " ++ fmtDD (specMax dc.1),
      "mean " ++ fmtMean (specMean dc.1) ])

def specGen (s : SSt) (full : Bool) : List String :=
  if ¬ PositivePeaks s.pts then [] else
  let dc := decompose s.pts
  let rep := reported s.pts
  ["g_cur " ++ fmtDD dc.2] ++
  (if s.dirty || !full then [] else
    [ "g_count " ++ toString rep.length,
      "g_max " ++ fmtDD (specMax rep),
      "g_mean " ++ fmtMean (specMean rep) ])

def spec : Drv SSt where
  init := ⟨.unset, 0, [], false⟩
  step s toks :=
    let push (s : SSt) (p : Pt) (emit : Bool) : SSt × List String :=
      let prev := (decompose s.pts).1.length
      let s' := { s with pts := s.pts ++ [p] }
      (s', specObs s' prev emit)
    match s.mode, toks with
    | .unset, ["raw"] => let s' : SSt := ⟨.raw, 0, [], false⟩; (s', specObs s' 0 false)
    | .unset, ["rawinit", v, t] =>
      match parsePt v t with
      | some p => let s' : SSt := ⟨.raw, 0, [p], false⟩; (s', specObs s' 0 false)
      | none => (s, ["bad-op"])
    | .unset, ["asset", v, t] =>
      match parsePt v t with
      | some p => let s' : SSt := ⟨.asset, 0, [p], false⟩; (s', specObs s' 0 false)
      | none => (s, ["bad-op"])
    | .unset, ["asset", v, t, f] =>
      match parsePtFree v t f with
      | some p => let s' : SSt := ⟨.asset, 0, [p], false⟩; (s', specObs s' 0 false)
      | none => (s, ["bad-op"])
    | .unset, ["instr", t] =>
      match parseInt? t with
      | some _ => let s' : SSt := ⟨.instr, 0, [], false⟩; (s', specObs s' 0 false)
      | none => (s, ["bad-op"])
    | .raw, ["pt", v, t] =>
      match parsePt v t with
      | some p => push s p true
      | none => (s, ["bad-op"])
    | .asset, ["pt", v, t] =>
      match parsePt v t with
      | some p => push s p false
      | none => (s, ["bad-op"])
    | .asset, ["pt", v, t, f] =>
      match parsePtFree v t f with
      | some p => push s p false
      | none => (s, ["bad-op"])
    | .instr, ["pos", d, t] =>
      match parsePt d t with
      | some p =>
        -- the PnL curve is the cumulative realised PnL
        let pnl := s.pnl + p.v
        push { s with pnl := pnl } ⟨p.t, pnl⟩ false
      | none => (s, ["bad-op"])
    | .instr, ["pos", d, t, te] =>
      match parsePtEnter d t te with
      | some p =>
        -- the PnL curve is the cumulative realised PnL, timed by the exit
        let pnl := s.pnl + p.v
        push { s with pnl := pnl } ⟨p.t, pnl⟩ false
      | none => (s, ["bad-op"])
    | .raw, ["gen"] => (s, specGen s false)
    | .asset, ["gen"] | .instr, ["gen"] => (s, specGen s true)
    | .asset, ["gen!"] | .instr, ["gen!"] =>
      let out := specGen s true
      let s' := { s with dirty := true }
      (s', out ++ specObs s' 0 false)
    | _, _ => (s, ["bad-op"])

end BarterModel.Driver.C18

def main (args : List String) : IO UInt32 :=
  BarterModel.Driver.runMain BarterModel.Driver.C18.model BarterModel.Driver.C18.spec args
