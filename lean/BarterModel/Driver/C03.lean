import BarterModel.Driver.EngineCommon
/-! C03 driver. The property determines uniquely, from the requests and the link table: what each
link receives (`rx*`), what is reported sent / failed (with error kind) / refused (`cmd_*`,
`algo_*` when no fatal algo error hides the output), whether the tick is fatal, the in-flight marks
(`ord*`) and the trading state; the spec view is the model restricted to those keys (the model is
proved to satisfy the property in Props/C03.lean). -/
open BarterModel.Driver BarterModel.Driver.EngineCommon
def main (args : List String) : IO UInt32 :=
  runMain model (restrict ["rx", "cmd", "algo", "fatal", "ord", "trading", "panic", "bad-op"] model) args
