import BarterModel.Driver.EngineCommon
/-! C19 driver. The property determines uniquely, from the engine state and the filter: the requests
each execution link receives during the command's tick (`rx*`), what the command reports as sent /
failed (`cmd_c_*`, `cmd_o_*`), and every instrument's order table afterwards (`ord*`: orders of
instruments outside the filter untouched, addressed orders of matching instruments cancel-in-flight).
Positions and prices of every instrument are printed after every tick (`pos*`, `price*`: a command leaves them untouched). The spec view is the
model restricted to those keys (the model is proved to satisfy the property in Props/C19.lean). -/
open BarterModel.Driver BarterModel.Driver.EngineCommon
def main (args : List String) : IO UInt32 :=
  runMain model (restrict ["rx", "cmd", "ord", "pos", "price", "panic", "bad-op"] model) args
