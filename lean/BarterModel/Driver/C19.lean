import BarterModel.Driver.EngineCommon
/-! C19 driver. The property determines uniquely, from the engine state and the filter: the requests
each execution link receives during the command's tick (`rx*`), what the command reports as sent /
failed (`cmd_c_*`, `cmd_o_*`), and every instrument's order table afterwards (`ord*`: orders of
instruments outside the filter untouched, addressed orders of matching instruments cancel-in-flight).
Positions and prices of every instrument are printed after every tick (`pos*`, `price*`: a command leaves them untouched). The spec view is the
model restricted to those keys (the model is proved to satisfy the property in Props/C19.lean).

Configuration shapes (C19's own set-up op, interpreted here and in `harness/src/bin/c19.rs` before the shared
protocol takes over): `cfg K <letters> V <direct|system>` before `init`.
* `K`: one letter of `S P p F O` per instrument of the following `init` line - the instrument KIND the engine is
  built with (spot / perpetual / perpetual quoted in base and settled in a third asset / future / option). The
  engine model has no instrument kind: filters, orders, positions and both commands are the same for every kind,
  so the letters only have to be well-formed and as many as the instruments.
* `V system`: every `cancel_orders` / `close_positions` command is also issued through a real `System` handle;
  the event that reaches the engine's feed must be that very command: `sysfeed <event digest>` and `syseq 1`
  precede the tick's observations. -/
open BarterModel.Driver BarterModel.Driver.EngineCommon

structure CSt where
  s : St
  kinds : Option String
  sys : Bool
  /-- a `cfg` line was seen and no `init` yet: `ev` / `algo` are rejected (`bad-op`) -/
  pending : Bool

def kindsOk (k : String) : Bool := k.toList.all fun c => "SPpFO".toList.contains c

def withCfg (d : Drv St) : Drv CSt where
  init := ⟨d.init, none, false, false⟩
  step c toks :=
    let pass (c : CSt) : CSt × List String :=
      let (s', o) := d.step c.s toks
      ({ c with s := s' }, o)
    match toks with
    | ["cfg", "K", k, "V", v] =>
      if kindsOk k && (v == "direct" || v == "system") then (⟨c.s, some k, v == "system", true⟩, ["cfg-set"])
      else (c, ["bad-op"])
    | "cfg" :: _ => (c, ["bad-op"])
    | "init" :: rest =>
      match c.kinds with
      | some k =>
        -- `<on|off> L <letters> I <defs...>`
        if rest.length < 4 || k.length != rest.length - 4 then (c, ["bad-op"]) else pass { c with kinds := none, pending := false }
      | none => pass { c with pending := false }
    | "ev" :: _ | "algo" :: _ =>
      if c.pending then (c, ["bad-op"]) else
      match toks with
      | ["ev", cmd, f] =>
        let (c', o) := pass c
        if c.sys && (cmd == "cancel_orders" || cmd == "close_positions") && o != ["bad-op"] then
          match resolveEvent c.s.eng [cmd, f] with
          | some ev => (c', ["sysfeed " ++ eventDigest c.s.eng (fixExchange c.s.eng ev), "syseq 1"] ++ o)
          | none => (c', o)
        else (c', o)
      | _ => pass c
    | _ => pass c

def main (args : List String) : IO UInt32 :=
  runMain (withCfg model) (withCfg (restrict ["rx", "cmd", "ord", "pos", "price", "panic", "bad-op", "sys", "cfg"] model)) args
