import BarterModel.Driver.EngineCommon
import BarterModel.Model.Audit
import BarterModel.Model.Channels
/-!
C10C driver. One case uses one or more of the sections below (each section has its own state).

channel            `chan` | `send H V` | `sink H V` | `nextwait H V` | `clone H` | `droptx H` | `tostream` | `next` |
                   `poll` | `droprx` | `wrap H` | `wrapoff` | `dsend V` | `disable` | `dropd`
                   (H = transmitter handle id, handle 0 is created by `chan`, `clone` creates the next id;
                   `wrap H` moves handle H into a `ChannelTxDroppable`; `dropd` drops that `ChannelTxDroppable`
                   whatever its state — afterwards another handle may be wrapped)
flaky transmitter  `flaky M` | `flakyoff` | `fsend V` | `fdisable`          (send fails iff M divides V)
merge              `merge` | `ml V` | `mr V` | `mcl` | `mcr` | `mpoll` |
                   `mrun W NL NR CL CR SEED`   (runtime run, W workers; set-valued observation)
indexed stream     `index` | `ipush V` | `iclose` | `ipoll`                  (index fails iff 3 divides V)
snapshot           `snap V K` | `snapupd S U...`
producer/consumer  `prod V0` | `pupd U` | `precv` | `pdroprx` | `pdisable` | `pdroptx` (the producer's transmitter is dropped)
engine run loops   `init ...` | `algo ...` | `ev ...` (EngineCommon syntax) | `rundrop sync|async K` |
                   `runprod sync|async R`  (the run closure of `SystemBuilder::init`: runner, `engine.shutdown()`,
                   `audit_tx` dropped; the consumer reads one record before every R-th `feed.next()` (R = 0: never)
                   and, once the closure has returned, reads to the end of the stream)
-/
namespace BarterModel.Driver.C10C
open BarterModel.Driver BarterModel.Driver.EngineCommon BarterModel.Engine BarterModel.Orders
open BarterModel.Audit BarterModel.Chan

/-! ### formatting -/

def fmtPollNat : Poll Nat → String
  | .pending => "pending"
  | .item x => s!"item {x}"
  | .done => "done"

def fmtTag (p : Bool × Nat) : String := (if p.1 then "L:" else "R:") ++ toString p.2

def fmtPollTag : Poll (Bool × Nat) → String
  | .pending => "pending"
  | .item x => fmtTag x
  | .done => "done"

def fmtD : Option DState → String
  | none => "-"
  | some .active => "A"
  | some .disabled => "D"

def joinC (l : List Nat) : String := if l.isEmpty then "-" else ",".intercalate (l.map toString)

def fmtOutcome (p : List Nat × List Nat) : String := "L:" ++ joinC p.1 ++ "/R:" ++ joinC p.2

/-! ### channel section -/

structure ChSt where
  c : Chan Nat
  /-- live raw transmitter handles -/
  handles : List Nat
  nextHandle : Nat
  d : Option DState
  deriving Inhabited

def chanLine (c : Chan Nat) : String := s!"chan {c.queue.length} {c.senders} {fmtBool c.rxAlive}"

def ChSt.obs (s : ChSt) : List String := [chanLine s.c, "dstate " ++ fmtD s.d]

def chStep (s : Option ChSt) (toks : List String) : Option (Option ChSt × List String) :=
  match toks, s with
  | ["chan"], _ =>
    let s' : ChSt := ⟨Chan.new, [0], 1, none⟩
    some (some s', s'.obs)
  | [op, h, v], some s =>
    match h.toNat?, v.toNat? with
    | some h, some v =>
      if !(s.handles.contains h) then none else
      if op == "send" then
        let r := s.c.send v
        let s' := { s with c := r.1 }
        some (some s', ("sent " ++ if r.2 then "ok" else "err") :: s'.obs)
      else if op == "sink" then
        let r := s.c.sinkSend v
        let s' := { s with c := r.1 }
        some (some s', ("sent " ++ if r.2 then "ok" else "err") :: s'.obs)
      else if op == "nextwait" then
        -- `next()` while another thread sends `v` a little later
        if !s.c.rxAlive then none else
        match s.c.iterNext with
        | (c1, .spins) =>
          -- the call cannot return before the send; then it returns what was sent
          let c2 := (c1.send v).1
          let r := c2.iterNext
          let s' := { s with c := r.1 }
          let l := match r.2 with | .some x => s!"next some {x}" | .none => "next none" | .spins => "next spins"
          some (some s', "waited 1" :: l :: s'.obs)
        | (c1, .some x) =>
          let s' := { s with c := (c1.send v).1 }
          some (some s', "waited 0" :: s!"next some {x}" :: s'.obs)
        | (_, .none) => none
      else none
    | _, _ => none
  | ["clone", h], some s =>
    match h.toNat? with
    | some h =>
      if !(s.handles.contains h) then none else
      let s' := { s with c := s.c.cloneTx, handles := s.handles ++ [s.nextHandle], nextHandle := s.nextHandle + 1 }
      some (some s', s!"handle {s.nextHandle}" :: s'.obs)
    | none => none
  | ["droptx", h], some s =>
    match h.toNat? with
    | some h =>
      if !(s.handles.contains h) then none else
      let s' := { s with c := s.c.dropTx, handles := s.handles.filter (· != h) }
      some (some s', s'.obs)
    | none => none
  | ["tostream"], some s => if s.c.rxAlive then some (some s, s.obs) else none
  | ["next"], some s =>
    if !s.c.rxAlive then none else
    let r := s.c.iterNext
    let s' := { s with c := r.1 }
    let l := match r.2 with | .some x => s!"next some {x}" | .none => "next none" | .spins => "next spins"
    some (some s', l :: s'.obs)
  | ["poll"], some s =>
    if !s.c.rxAlive then none else
    let r := s.c.pollNext
    let s' := { s with c := r.1 }
    some (some s', ("poll " ++ fmtPollNat r.2) :: s'.obs)
  | ["droprx"], some s =>
    if !s.c.rxAlive then none else
    let s' := { s with c := s.c.dropRx }
    some (some s', s'.obs)
  | ["wrap", h], some s =>
    match h.toNat? with
    | some h =>
      if !(s.handles.contains h) || s.d.isSome then none else
      let s' := { s with handles := s.handles.filter (· != h), d := some DState.new }
      some (some s', s'.obs)
    | none => none
  | ["wrapoff"], some s =>
    if s.d.isSome then none else
    let s' := { s with d := some DState.newDisabled }
    some (some s', s'.obs)
  | ["dsend", v], some s =>
    match v.toNat?, s.d with
    | some v, some d =>
      let r := dsend chanTx d s.c v
      let s' := { s with d := some r.1, c := r.2 }
      some (some s', s'.obs)
    | _, _ => none
  | ["disable"], some s =>
    match s.d with
    | some d =>
      let r := ddisable (chanTx (α := Nat)) d s.c
      let s' := { s with d := some r.1, c := r.2 }
      some (some s', s'.obs)
    | none => none
  | ["dropd"], some s =>
    match s.d with
    | some d =>
      let s' := { s with d := none, c := ddrop (chanTx (α := Nat)) d s.c }
      some (some s', s'.obs)
    | none => none
  | _, _ => none

/-- spec state of the channel section: the log-with-cursor stream, raw handles, the droppable's switch -/
structure ChSpec where
  ch : SpecChan Nat
  handles : List Nat
  nextHandle : Nat
  live : Option Bool
  deriving Inhabited

def ChSpec.obs (s : ChSpec) : List String :=
  [ s!"chan {s.ch.unread.length} {s.ch.senders} {fmtBool s.ch.listening}",
    "dstate " ++ (match s.live with | none => "-" | some true => "A" | some false => "D") ]

def chSpecStep (s : Option ChSpec) (toks : List String) : Option (Option ChSpec × List String) :=
  match toks, s with
  | ["chan"], _ =>
    let s' : ChSpec := ⟨SpecChan.new, [0], 1, none⟩
    some (some s', s'.obs)
  | [op, h, v], some s =>
    match h.toNat?, v.toNat? with
    | some h, some v =>
      if !(s.handles.contains h) then none else
      if op == "send" || op == "sink" then
        let r := s.ch.send v
        let s' := { s with ch := r.1 }
        some (some s', ("sent " ++ if r.2 then "ok" else "err") :: s'.obs)
      else if op == "nextwait" then
        if !s.ch.listening then none else
        match s.ch.read with
        | (c1, .pending) =>
          -- nothing to read yet: the reader has to wait for the item, and gets it
          let r := (c1.send v).1.read
          let s' := { s with ch := r.1 }
          let l := match r.2 with | .item x => s!"next some {x}" | .done => "next none" | .pending => "next spins"
          some (some s', "waited 1" :: l :: s'.obs)
        | (c1, .item x) =>
          let s' := { s with ch := (c1.send v).1 }
          some (some s', "waited 0" :: s!"next some {x}" :: s'.obs)
        | (_, .done) => none
      else none
    | _, _ => none
  | ["clone", h], some s =>
    match h.toNat? with
    | some h =>
      if !(s.handles.contains h) then none else
      let s' := { s with ch := { s.ch with senders := s.ch.senders + 1 }, handles := s.handles ++ [s.nextHandle],
                         nextHandle := s.nextHandle + 1 }
      some (some s', s!"handle {s.nextHandle}" :: s'.obs)
    | none => none
  | ["droptx", h], some s =>
    match h.toNat? with
    | some h =>
      if !(s.handles.contains h) then none else
      let s' := { s with ch := { s.ch with senders := s.ch.senders - 1 }, handles := s.handles.filter (· != h) }
      some (some s', s'.obs)
    | none => none
  | ["tostream"], some s => if s.ch.listening then some (some s, s.obs) else none
  | ["next"], some s =>
    if !s.ch.listening then none else
    let r := s.ch.read
    let s' := { s with ch := r.1 }
    -- an iterator cannot say "nothing yet": it keeps looking
    let l := match r.2 with | .item x => s!"next some {x}" | .done => "next none" | .pending => "next spins"
    some (some s', l :: s'.obs)
  | ["poll"], some s =>
    if !s.ch.listening then none else
    let r := s.ch.read
    let s' := { s with ch := r.1 }
    some (some s', ("poll " ++ fmtPollNat r.2) :: s'.obs)
  | ["droprx"], some s =>
    if !s.ch.listening then none else
    let s' := { s with ch := { s.ch with listening := false } }
    some (some s', s'.obs)
  | ["wrap", h], some s =>
    match h.toNat? with
    | some h =>
      if !(s.handles.contains h) || s.live.isSome then none else
      let s' := { s with handles := s.handles.filter (· != h), live := some true }
      some (some s', s'.obs)
    | none => none
  | ["wrapoff"], some s =>
    if s.live.isSome then none else
    let s' := { s with live := some false }
    some (some s', s'.obs)
  | ["dsend", v], some s =>
    match v.toNat?, s.live with
    | some v, some live =>
      let t := (⟨s.ch, live, false⟩ : SpecSys Nat).step (.dsend v)
      let s' := { s with ch := t.ch, live := some t.live }
      some (some s', s'.obs)
    | _, _ => none
  | ["disable"], some s =>
    match s.live with
    | some live =>
      let t := (⟨s.ch, live, false⟩ : SpecSys Nat).step .disable
      let s' := { s with ch := t.ch, live := some t.live }
      some (some s', s'.obs)
    | none => none
  | ["dropd"], some s =>
    match s.live with
    | some live =>
      -- a transmitter that is dropped releases its hold on the stream iff it still had one
      let t := (⟨s.ch, live, false⟩ : SpecSys Nat).step .dropTx
      let s' := { s with ch := t.ch, live := none }
      some (some s', s'.obs)
    | none => none
  | _, _ => none

/-! ### flaky transmitter section -/

structure FlSt where
  m : Nat
  d : DState
  w : List Nat × Nat
  deriving Inhabited

def FlSt.obs (s : FlSt) : List String :=
  [ "dstate " ++ fmtD (some s.d), "flog " ++ joinC s.w.1, s!"fdrops {s.w.2}" ]

def bad (m : Nat) (x : Nat) : Bool := x % m == 0

def flStep (s : Option FlSt) (toks : List String) : Option (Option FlSt × List String) :=
  match toks, s with
  | ["flaky", m], _ =>
    match m.toNat? with
    | some m => if m == 0 then none else let s' : FlSt := ⟨m, .active, ([], 0)⟩; some (some s', s'.obs)
    | none => none
  | ["flakyoff"], _ => let s' : FlSt := ⟨1, .disabled, ([], 0)⟩; some (some s', s'.obs)
  | ["fsend", v], some s =>
    match v.toNat? with
    | some v =>
      let r := dsend (flakyTx (bad s.m)) s.d s.w v
      let s' := { s with d := r.1, w := r.2 }
      some (some s', s'.obs)
    | none => none
  | ["fdisable"], some s =>
    let r := ddisable (flakyTx (bad s.m)) s.d s.w
    let s' := { s with d := r.1, w := r.2 }
    some (some s', s'.obs)
  | _, _ => none

/-- spec of the flaky section: the log is the offered items up to (not including) the first bad one,
as long as the transmitter started enabled and had not been disabled by hand before -/
structure FlSpec where
  m : Nat
  on : Bool
  log : List Nat
  drops : Nat
  deriving Inhabited

def FlSpec.obs (s : FlSpec) : List String :=
  [ "dstate " ++ (if s.on then "A" else "D"), "flog " ++ joinC s.log, s!"fdrops {s.drops}" ]

def flSpecStep (s : Option FlSpec) (toks : List String) : Option (Option FlSpec × List String) :=
  match toks, s with
  | ["flaky", m], _ =>
    match m.toNat? with
    | some m => if m == 0 then none else let s' : FlSpec := ⟨m, true, [], 0⟩; some (some s', s'.obs)
    | none => none
  | ["flakyoff"], _ => let s' : FlSpec := ⟨1, false, [], 0⟩; some (some s', s'.obs)
  | ["fsend", v], some s =>
    match v.toNat? with
    | some v =>
      let s' := if !s.on then s else if bad s.m v then { s with on := false, drops := s.drops + 1 }
                else { s with log := s.log ++ [v] }
      some (some s', s'.obs)
    | none => none
  | ["fdisable"], some s =>
    let s' := if s.on then { s with on := false, drops := s.drops + 1 } else s
    some (some s', s'.obs)
  | _, _ => none

/-! ### merge section -/

def mrunLine (toks : List String) : Option String :=
  match toks with
  | [_, _, nl, nr, cl, cr, _] =>
    match nl.toNat?, nr.toNat?, cl.toNat?, cr.toNat? with
    | some nl, some nr, some cl, some cr =>
      if cl == 0 && cr == 0 then none else
      let l := (List.range nl).map (· + 1)
      let r := (List.range nr).map (· + 101)
      let outs := allowedOutcomes l r (cl != 0) (cr != 0)
      some ("mout {" ++ "|".intercalate (outs.map fmtOutcome) ++ "}")
    | _, _, _, _ => none
  | _ => none

def mgStep (s : Option (MRun Nat)) (toks : List String) : Option (Option (MRun Nat) × List String) :=
  match toks, s with
  | ["merge"], _ => some (some MRun.init, [])
  | [op, v], some r =>
    match v.toNat? with
    | some v =>
      if op == "ml" || op == "mr" then
        let left := op == "ml"
        if r.closed left then none else
        let r' := r.step (.send left v)
        let ok := (r'.acc left).length != (r.acc left).length
        some (some r', [ "msend " ++ (if ok then "ok" else "err") ])
      else none
    | none => none
  | ["mcl"], some r => if r.closedL then none else some (some (r.step (.close true)), [])
  | ["mcr"], some r => if r.closedR then none else some (some (r.step (.close false)), [])
  | ["mpoll"], some r =>
    let r' := r.step .poll
    some (some r', [ "mpoll " ++ (match r'.last with | some p => fmtPollTag p | none => "?") ])
  | "mrun" :: _, _ => (mrunLine toks).map fun l => (s, [l, "mend 1"])
  | _, _ => none

/-- spec of the merge section: the set of poll results the doc comment allows in the current
configuration (head of either input; the end when an ended input is used up; pending only when there
is nothing to hand over). The CONFIGURATION — what each input accepted, what has been handed over, whether
the stream has ended — is the MODEL's (`r.step .poll` below; a spec-mode driver never sees the
implementation's output, so it cannot follow the observed result): the set therefore judges a poll
correctly as long as implementation and model have agreed so far, i.e. at the first deviating poll, which
is the one the check reports. `msend` (does a send still succeed) is a copy of the model and is not
printed in spec mode: correspondence-only. -/
def mgSpecStep (s : Option (MRun Nat)) (toks : List String) : Option (Option (MRun Nat) × List String) :=
  match toks, s with
  | ["mpoll"], some r =>
    let r' := r.step .poll
    let ql := (r.acc true).drop (outOf true r.out).length
    let qr := (r.acc false).drop (outOf false r.out).length
    let allowed : List String :=
      if r.ended then ["done"] else
      let li := match ql with | x :: _ => [fmtTag (true, x)] | [] => []
      let ri := match qr with | x :: _ => [fmtTag (false, x)] | [] => []
      let le := if ql.isEmpty && r.closedL then ["done"] else []
      let re := if qr.isEmpty && r.closedR then ["done"] else []
      let all := li ++ ri ++ le ++ re
      if all.isEmpty then ["pending"] else all
    -- one token per alternative: `mpoll {L:1|done}`
    some (some r', [ "mpoll {" ++ "|".intercalate allowed ++ "}" ])
  | "mrun" :: _, _ => (mrunLine toks).map fun l => (s, [l, "mend 1"])
  | _, _ =>
    match mgStep s toks with
    | some (s', _) => some (s', [])
    | none => none

/-! ### indexed stream section -/

def indexFn (x : Nat) : Except Nat Nat := if x % 3 == 0 then .error x else .ok (x * 10 + 1)

def fmtIx : Poll (Except Nat Nat) → String
  | .pending => "pending"
  | .done => "done"
  | .item (.ok v) => s!"item ok:{v}"
  | .item (.error e) => s!"item err:{e}"

def ixStep (s : Option (Chan Nat)) (toks : List String) : Option (Option (Chan Nat) × List String) :=
  match toks, s with
  | ["index"], _ => some (some Chan.new, [])
  | ["ipush", v], some c =>
    match v.toNat? with
    | some v => if c.senders == 0 then none else some (some (c.send v).1, [])
    | none => none
  | ["iclose"], some c => if c.senders == 0 then none else some (some c.dropTx, [])
  | ["ipoll"], some c =>
    let r := (Strm.indexed indexFn Chan.pollNext) c
    some (some r.1, ["ipoll " ++ fmtIx r.2])
  | _, _ => none

/-- spec: the k-th thing the indexed stream yields is the index of the k-th thing pushed -/
def ixSpecStep (s : Option (SpecChan Nat)) (toks : List String) : Option (Option (SpecChan Nat) × List String) :=
  match toks, s with
  | ["index"], _ => some (some SpecChan.new, [])
  | ["ipush", v], some c =>
    match v.toNat? with
    | some v => if c.senders == 0 then none else some (some (c.send v).1, [])
    | none => none
  | ["iclose"], some c => if c.senders == 0 then none else some (some { c with senders := 0 }, [])
  | ["ipoll"], some c =>
    let r := c.read
    let p : Poll (Except Nat Nat) := match r.2 with | .item x => .item (indexFn x) | .done => .done | .pending => .pending
    some (some r.1, ["ipoll " ++ fmtIx p])
  | _, _ => none

/-! ### snapshot section -/

def snStep (toks : List String) : Option (List String) :=
  match toks with
  | ["snap", v, k] =>
    match v.toNat?, k.toNat? with
    | some v, some k =>
      let s : Snapshot Nat := ⟨v⟩
      some [ s!"value {s.value}", s!"asref {s.asRef.value}", s!"map {(s.map (· + k)).value}",
             s!"mapmap {((s.map (· + k)).map (· * 2)).value}" ]
    | _, _ => none
  | "snapupd" :: sv :: us =>
    match sv.toNat?, us.mapM String.toNat? with
    | some sv, some us =>
      let su : SnapUpdates (Snapshot Nat) (List Nat) := ⟨⟨sv⟩, us⟩
      some [ s!"su {su.snapshot.value} " ++ joinC su.updates ]
    | _, _ => none
  | _ => none

/-! ### producer / consumer section -/

def applyFn (s u : Nat) : Nat := (s * 3 + u) % 1000003

structure PrSt where
  snapshot : Nat
  p : Producer Nat Nat

def PrSt.obs (s : PrSt) : List String :=
  [ s!"pstate {s.p.state}", s!"preplica {replay applyFn ⟨s.snapshot, s.p.sys.got⟩}", s!"pgot {s.p.sys.got.length}",
    "dstate " ++ fmtD (if s.p.sys.gone then none else some s.p.sys.d), "pend " ++ fmtBool s.p.sys.sawEnd ]

def prOp (toks : List String) : Option (Op Nat) :=
  match toks with
  | ["pupd", u] => u.toNat?.map .dsend
  | ["precv"] => some .recv
  | ["pdroprx"] => some .dropRx
  | ["pdisable"] => some .disable
  | ["pdroptx"] => some .dropTx
  | _ => none

def prStep (s : Option PrSt) (toks : List String) : Option (Option PrSt × List String) :=
  match toks, s with
  | ["prod", v], _ =>
    match v.toNat? with
    | some v => let s' : PrSt := ⟨v, ⟨v, Sys.init .active⟩⟩; some (some s', s'.obs)
    | none => none
  | _, some s =>
    match prOp toks with
    | some op =>
      if (op == .recv || op == .dropRx) && !s.p.sys.c.rxAlive then none else
      -- the transmitter is gone: nothing can be sent, disabled or dropped any more
      if (op != .recv && op != .dropRx) && s.p.sys.gone then none else
      let s' := { s with p := s.p.step applyFn op }
      some (some s', s'.obs)
    | none => none
  | _, none => none

/-- spec: producer state = fold of everything produced; replica = `specReplay` at the number of updates read -/
structure PrSpec where
  snapshot : Nat
  produced : List Nat
  sys : SpecSys Nat
  /-- the producer's transmitter has been dropped -/
  gone : Bool := false
  deriving Inhabited

def PrSpec.obs (s : PrSpec) : List String :=
  [ s!"pstate {s.produced.foldl applyFn s.snapshot}",
    s!"preplica {specReplay applyFn s.snapshot s.produced s.sys.ch.cursor}", s!"pgot {s.sys.ch.cursor}",
    "dstate " ++ (if s.gone then "-" else if s.sys.live then "A" else "D"), "pend " ++ fmtBool s.sys.sawEnd ]

def prSpecStep (s : Option PrSpec) (toks : List String) : Option (Option PrSpec × List String) :=
  match toks, s with
  | ["prod", v], _ =>
    match v.toNat? with
    | some v => let s' : PrSpec := ⟨v, [], SpecSys.init true, false⟩; some (some s', s'.obs)
    | none => none
  | _, some s =>
    match prOp toks with
    | some op =>
      if (op == .recv || op == .dropRx) && !s.sys.ch.listening then none else
      if (op != .recv && op != .dropRx) && s.gone then none else
      let produced := match op with | .dsend u => s.produced ++ [u] | _ => s.produced
      let s' := { s with produced := produced, sys := s.sys.step op, gone := s.gone || op == .dropTx }
      some (some s', s'.obs)
    | none => none
  | _, none => none

/-! ### engine run loops -/

structure EnSt where
  init : Eng
  eng : EngA
  algoC : List CancelReq
  algoO : List OpenReq
  history : List (Event × Ask)

def emptyEng : Eng := ⟨false, [], [], [], 0⟩

def obsAny (pfx : String) (e : Eng) : List String :=
  ((e.instruments.zipIdx.map fun (s, i) =>
    let l := (s.orders.toArray.qsort (fun a b => a.1 < b.1)).toList
    [ s!"{pfx}ord{i} " ++ joinOr (l.map fun (c, o) => s!"{c}:{fmtActive o.state}"),
      (match s.position with
        | none => s!"{pfx}pos{i} none"
        | some (side, q) => s!"{pfx}pos{i} {fmtSide side}:{fmtRat q}"),
      (match s.price with
        | none => s!"{pfx}price{i} none"
        | some p => s!"{pfx}price{i} {fmtRat p}") ]).flatten) ++
  [ s!"{pfx}trading " ++ (if e.enabled then "on" else "off") ]

def lastKind : Tick → String
  | .feedEnded _ => "feed-ended"
  | .process _ ev a => if a.fatal then "fatal" else match ev with | .shutdown => "shutdown" | _ => "other"

def runDropFrom (start : EngA) (history : List (Engine.Event × Audit.Ask)) (k : Nat) : List String :=
  let s : EnSt := ⟨emptyEng, ⟨emptyEng, 0⟩, [], [], history⟩
  let a := runAudited auditRunner worldTx (dropEnv k) 0 start .active (Chan.new, []) s.history
  -- whatever is still queued is read after the run
  let got := a.world.2 ++ a.world.1.queue
  let n := runPlain auditRunner start s.history
  let off := runAudited auditRunner worldTx (fun _ w => w) 0 start .disabled (Chan.new, []) s.history
  [ "recv_seqs " ++ joinOr (got.map fun t => toString t.seq),
    "recv_terminal " ++ joinOr (got.map fun t => fmtBool t.terminal),
    "tx_state " ++ fmtD (some a.tx),
    "run_last " ++ lastKind a.shutdown,
    s!"end_seq {a.engine.seq}" ] ++
  obsAny "a_" a.engine.eng ++
  [ "plain_last " ++ lastKind n.2, s!"plain_end_seq {n.1.seq}" ] ++ obsAny "n_" n.1.eng ++
  [ "off_last " ++ lastKind off.shutdown, s!"off_end_seq {off.engine.seq}", "off_tx_state " ++ fmtD (some off.tx),
    s!"off_recv {(off.world.2 ++ off.world.1.queue).length}" ] ++
  [ "same_state 1" ]

def runDrop (s : EnSt) (k : Nat) : List String := runDropFrom ⟨s.init, 1⟩ s.history k

/-- (configuration shape) the first part of `rundrop2 mode J K`: events 0..J through the runner WITHOUT audit
on the engine whose snapshot consumed number 0; result: the engine it leaves, its last record, the number of
events it consumed (one per number it used, minus the one of a feed-ended record) -/
def preRun (s : EnSt) (j : Nat) : EngA × Tick × Nat :=
  let r := runPlain auditRunner ⟨s.init, 1⟩ (s.history.take j)
  let fe := match r.2 with | .feedEnded _ => 1 | _ => 0
  (r.1, r.2, r.1.seq - 1 - fe)

/-- `rundrop2`: audit off, then on, on the same engine: the second snapshot takes the next number, the audited
run goes on one after it with the rest of the feed -/
def runDrop2 (s : EnSt) (j k : Nat) : List String :=
  let (e1, l1, c1) := preRun s j
  [ "pre_last " ++ lastKind l1, s!"pre_end_seq {e1.seq}", s!"snap2_seq {e1.seq}" ] ++
  runDropFrom ⟨e1.eng, e1.seq + 1⟩ (s.history.drop c1) k

/-- spec of `rundrop`: the engine's end state, last record and sequence counter do not depend on the audit
channel at all; the consumer holds exactly the first records, in order, up to the drop -/
def runDropSpecFrom (start : EngA) (history : List (Engine.Event × Audit.Ask)) (k : Nat) : List String :=
  let s : EnSt := ⟨emptyEng, ⟨emptyEng, 0⟩, [], [], history⟩
  let n := runPlain auditRunner start s.history
  let ticks := runTicks auditRunner start s.history
  let got := ticks.take k
  [ "recv_seqs " ++ joinOr (got.map fun t => toString t.seq),
    "tx_state " ++ (if k < ticks.length then "D" else "A"),
    "run_last " ++ lastKind n.2, s!"end_seq {n.1.seq}" ] ++ obsAny "a_" n.1.eng ++
  [ "off_last " ++ lastKind n.2, s!"off_end_seq {n.1.seq}", "off_tx_state D", "off_recv 0", "same_state 1" ]

def runDropSpec (s : EnSt) (k : Nat) : List String := runDropSpecFrom ⟨s.init, 1⟩ s.history k

/-- spec of `rundrop2`: the un-audited first run uses one number per event it processes (and one for a
feed-ended record), the second snapshot the next one, and the audited run is `rundrop` from there -/
def runDrop2Spec (s : EnSt) (j k : Nat) : List String :=
  let (e1, l1, c1) := preRun s j
  [ "pre_last " ++ lastKind l1, s!"pre_end_seq {e1.seq}", s!"snap2_seq {e1.seq}" ] ++
  runDropSpecFrom ⟨e1.eng, e1.seq + 1⟩ (s.history.drop c1) k

/-! #### `runprod`: the run closure of `SystemBuilder::init` -/

def sortStrings (l : List String) : List String := (l.toArray.qsort (· < ·)).toList

def fmtXReq : XReq Req → String
  | .order r => fmtReq r
  | .shutdown => "shutdown"

/-- one execution link as the harness can see it: `C` (receiver dropped: nothing observable), `M` (no
transmitter), otherwise what the receiver holds: number of order requests, number of `Shutdown`s, whether
the last item is a `Shutdown`, and the order requests sorted (`cancel_orders` iterates a hash map) -/
def xlinkLine (pfx : String) (links : List Link) (x : Nat) (w : Option (XW Req)) : String :=
  let kind := match links[x]? with
    | some .healthy => "H" | some .closed => "C" | some .unhealthy => "U" | _ => "M"
  match w with
  | none => s!"{pfx}xlink{x} {kind}"
  | some w =>
    if !w.c.rxAlive then s!"{pfx}xlink{x} {kind}" else
    let q := w.c.queue
    let orders := q.filter fun r => r != .shutdown
    let nsd := (q.filter fun r => r == .shutdown).length
    let last := match q.getLast? with | some .shutdown => "S" | some _ => "R" | none => "-"
    s!"{pfx}xlink{x} {kind} n={orders.length} S={nsd} last={last} reqs=" ++
      (if orders.isEmpty then "-" else ",".intercalate (sortStrings (orders.map fmtXReq)))

/-- queue length of every observable execution receiver -/
def xlens (ws : List (Option (XW Req))) : String :=
  joinOr (ws.map fun w => match w with
    | some w => if w.c.rxAlive then toString w.c.queue.length else "-"
    | none => "-")

def prodCons (r : Nat) (k : Nat) : List (Op Tick) := if r != 0 && k % r == 0 then [.recv] else []

def runProd (s : EnSt) (rd : Nat) : List String :=
  let start : EngA := ⟨s.init, 1⟩
  let linksOf : EngA → List (Option (XW Req)) := fun a => linkWorlds a.eng
  let r := runClosure auditRunner sysTx (consumerEnv (prodCons rd)) xwTx linksOf start (Sys.init .active) s.history
  -- the audit transmitter + receiver system when the closure has returned
  let sys0 : Sys Tick := { r.world with d := r.tx, gone := true }
  let during := sys0.got.length
  -- the consumer reads on: as many reads as there are queued records, then one more
  let sys1 := sys0.run (List.replicate sys0.c.queue.length .recv)
  let sys2 := sys1.step .recv
  let p := plainClosure auditRunner xwTx linksOf start s.history
  [ s!"prod_during {during}",
    "prod_seqs " ++ joinOr (sys2.got.map fun t => toString t.seq),
    "prod_terminal " ++ joinOr (sys2.got.map fun t => fmtBool t.terminal),
    "prod_early_end " ++ fmtBool sys1.sawEnd,
    "prod_end " ++ fmtBool sys2.sawEnd,
    "prod_tx " ++ fmtD (some r.tx),
    "prod_last " ++ lastKind r.shutdown,
    s!"prod_end_seq {r.engine.seq}",
    -- the execution receivers when the terminal record is handed to `audit_tx`: no `Shutdown` yet
    "at_terminal " ++ xlens (linksOf r.engine) ] ++
  (r.links.zipIdx.map fun (w, x) => xlinkLine "" s.init.links x w) ++
  [ "plain_last " ++ lastKind p.2.1 ] ++
  (p.2.2.zipIdx.map fun (w, x) => xlinkLine "plain_" s.init.links x w)

/-- spec of `runprod`, written from the texts (run.rs doc comments, `SyncShutdown`, builder.rs), not from
the channel model: a consumer that keeps listening gets EVERY record of the run in order, the last one is
terminal and the only terminal one, and only then the end of the stream; every exchange with a live
execution channel has received the order requests of the run and then exactly one `Shutdown`, which was
not there yet when the terminal record was sent; the same without audit. -/
def runProdSpec (s : EnSt) : List String :=
  let start : EngA := ⟨s.init, 1⟩
  let n := runPlain auditRunner start s.history
  let ticks := runTicks auditRunner start s.history
  let reqsOf := fun (x : Nat) => sortStrings ((n.1.eng.log.filter fun r => r.key.exchange == x).map fmtReq)
  let link := fun (pfx : String) (x : Nat) (l : Link) =>
    match l with
    | .healthy =>
      let rs := reqsOf x
      s!"{pfx}xlink{x} H n={rs.length} S=1 last=S reqs=" ++ (if rs.isEmpty then "-" else ",".intercalate rs)
    | .unhealthy => s!"{pfx}xlink{x} U n=0 S=0 last=- reqs=-"
    | .closed => s!"{pfx}xlink{x} C"
    | .missing => s!"{pfx}xlink{x} M"
  [ "prod_seqs " ++ joinOr (ticks.map fun t => toString t.seq),
    "prod_terminal " ++ joinOr ((List.replicate (ticks.length - 1) "0") ++ ["1"]),
    "prod_early_end 0", "prod_end 1", "prod_tx A",
    "prod_last " ++ lastKind n.2, s!"prod_end_seq {n.1.seq}",
    "at_terminal " ++ joinOr (s.init.links.zipIdx.map fun (l, x) =>
      match l with | .healthy => toString (reqsOf x).length | .unhealthy => "0" | _ => "-") ] ++
  (s.init.links.zipIdx.map fun (l, x) => link "" x l) ++
  [ "plain_last " ++ lastKind n.2 ] ++
  (s.init.links.zipIdx.map fun (l, x) => link "plain_" x l)

def enStep (s : Option EnSt) (toks : List String) : Option (Option EnSt × List String) :=
  match toks, s with
  | "init" :: rest, _ =>
    match parseInit rest with
    | some e => some (some ⟨e, ⟨e, 1⟩, [], [], []⟩, [ "seq 0" ] ++ obsAny "" e)
    | none => none
  | "algo" :: rs, some s =>
    match parseReqs rs with
    | some (cs, os) => some (some { s with algoC := cs, algoO := os }, ["algo-set"])
    | none => none
  | "ev" :: rest, some s =>
    match resolveEvent s.eng.eng rest with
    | none => none
    | some ev =>
      let ev := fixExchange s.eng.eng ev
      if !(Event.instrumentsInRange s.eng.eng.instruments.length ev) then
        some (some { s with algoC := [], algoO := [] }, ["panic"]) else
      if isNoopFlat s.eng.eng ev then some (some { s with algoC := [], algoO := [] }, ["noop"]) else
      let ask : Ask := ⟨s.algoC, s.algoO, refuse⟩
      let (ea, tick) := processWithAudit s.eng ev ask
      let audit := match tick with | .process _ _ a => a | .feedEnded _ => ⟨none, none, none, false⟩
      let (eng', _) := canonCancelOrders ev s.eng.eng ea.eng audit
      let s' : EnSt := { s with eng := ⟨eng', ea.seq⟩, algoC := [], algoO := [], history := s.history ++ [(ev, ask)] }
      some (some s', [ s!"seq {tick.seq}", "terminal " ++ fmtBool tick.terminal ] ++ obsAny "" eng')
  | _, _ => none

/-! ### the drivers -/

structure St where
  ch : Option ChSt := none
  fl : Option FlSt := none
  mg : Option (MRun Nat) := none
  ix : Option (Chan Nat) := none
  pr : Option PrSt := none
  en : Option EnSt := none

def chOps : List String := ["chan", "send", "sink", "nextwait", "clone", "droptx", "tostream", "next", "poll", "droprx", "wrap",
  "wrapoff", "dsend", "disable", "dropd"]
def flOps : List String := ["flaky", "flakyoff", "fsend", "fdisable"]
def mgOps : List String := ["merge", "ml", "mr", "mcl", "mcr", "mpoll", "mrun"]
def ixOps : List String := ["index", "ipush", "iclose", "ipoll"]
def snOps : List String := ["snap", "snapupd"]
def prOps : List String := ["prod", "pupd", "precv", "pdroprx", "pdisable", "pdroptx"]
def enOps : List String := ["init", "algo", "ev"]

def model : Drv St where
  init := {}
  step s toks :=
    let op := toks.headD ""
    let bad : St × List String := (s, ["bad-op"])
    if chOps.contains op then
      match chStep s.ch toks with | some (c, l) => ({ s with ch := c }, l) | none => bad
    else if flOps.contains op then
      match flStep s.fl toks with | some (c, l) => ({ s with fl := c }, l) | none => bad
    else if mgOps.contains op then
      match mgStep s.mg toks with | some (c, l) => ({ s with mg := c }, l) | none => bad
    else if ixOps.contains op then
      match ixStep s.ix toks with | some (c, l) => ({ s with ix := c }, l) | none => bad
    else if snOps.contains op then
      match snStep toks with | some l => (s, l) | none => bad
    else if prOps.contains op then
      match prStep s.pr toks with | some (c, l) => ({ s with pr := c }, l) | none => bad
    else if enOps.contains op then
      match enStep s.en toks with | some (c, l) => ({ s with en := c }, l) | none => bad
    else
      match toks, s.en with
      | ["rundrop", mode, k], some e =>
        match k.toNat? with
        | some k => if mode == "sync" || mode == "async" then (s, runDrop e k) else bad
        | none => bad
      | ["rundrop2", mode, j, k], some e =>
        match j.toNat?, k.toNat? with
        | some j, some k => if mode == "sync" || mode == "async" then (s, runDrop2 e j k) else bad
        | _, _ => bad
      | ["runprod", mode, r], some e =>
        match r.toNat? with
        | some r => if mode == "sync" || mode == "async" then (s, runProd e r) else bad
        | none => bad
      | _, _ => bad

structure SpecSt where
  ch : Option ChSpec := none
  fl : Option FlSpec := none
  mg : Option (MRun Nat) := none
  ix : Option (SpecChan Nat) := none
  pr : Option PrSpec := none
  en : Option EnSt := none

def spec : Drv SpecSt where
  init := {}
  step s toks :=
    let op := toks.headD ""
    let bad : SpecSt × List String := (s, ["bad-op"])
    if chOps.contains op then
      match chSpecStep s.ch toks with | some (c, l) => ({ s with ch := c }, l) | none => bad
    else if flOps.contains op then
      match flSpecStep s.fl toks with | some (c, l) => ({ s with fl := c }, l) | none => bad
    else if mgOps.contains op then
      match mgSpecStep s.mg toks with | some (c, l) => ({ s with mg := c }, l) | none => bad
    else if ixOps.contains op then
      match ixSpecStep s.ix toks with | some (c, l) => ({ s with ix := c }, l) | none => bad
    else if snOps.contains op then
      -- the laws of `Snapshot` (map is functorial, value/as_ref read the wrapped value) fix every output
      match toks with
      | ["snap", v, k] =>
        match v.toNat?, k.toNat? with
        | some v, some k => (s, [ s!"value {v}", s!"asref {v}", s!"map {v + k}", s!"mapmap {(v + k) * 2}" ])
        | _, _ => bad
      | "snapupd" :: sv :: us =>
        match sv.toNat?, us.mapM String.toNat? with
        | some sv, some us => (s, [ s!"su {sv} " ++ joinC us ])
        | _, _ => bad
      | _ => bad
    else if prOps.contains op then
      match prSpecStep s.pr toks with | some (c, l) => ({ s with pr := c }, l) | none => bad
    else if enOps.contains op then
      -- stepping the engine is C10's business; here it only records the history (model = oracle on
      -- sequence numbers and terminal flags, as in C10)
      match enStep s.en toks with
      | some (c, l) => ({ s with en := c }, l.filter fun x => ["seq", "terminal", "panic", "noop", "algo-set"].any (fun k => x.startsWith k))
      | none => bad
    else
      match toks, s.en with
      | ["rundrop", mode, k], some e =>
        match k.toNat? with
        | some k => if mode == "sync" || mode == "async" then (s, runDropSpec e k) else bad
        | none => bad
      | ["rundrop2", mode, j, k], some e =>
        match j.toNat?, k.toNat? with
        | some j, some k => if mode == "sync" || mode == "async" then (s, runDrop2Spec e j k) else bad
        | _, _ => bad
      | ["runprod", mode, r], some e =>
        match r.toNat? with
        | some _ => if mode == "sync" || mode == "async" then (s, runProdSpec e) else bad
        | none => bad
      | _, _ => bad

end BarterModel.Driver.C10C

def main (args : List String) : IO UInt32 :=
  BarterModel.Driver.runMain BarterModel.Driver.C10C.model BarterModel.Driver.C10C.spec args
