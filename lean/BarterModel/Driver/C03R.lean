import BarterModel.Driver.Common
import BarterModel.Model.Risk
/-!
Line-protocol driver for the sub-check C03R (risk-check utilities and default risk manager).
Every op is independent (no state).

Ops
  `chk dec <limit> <input>` | `chk int <limit> <input>` | `chk f64 <limit> <input>` (`nan`, `inf`, `-inf` allowed)
        → `name CheckHigherThan`, `check ok` | `check fail <limit> <input>`, (`int`: `msg <Display>` on fail)
  `notional <quantity> <price> <contract_size>`                 → `notional <v|none>`
  `notionalk <spot|perp|fut|opt> <contract_size> <quantity> <price>` → `csize <v>`, `notional <v|none>`
        (also `opt-put-eu|opt-put-am|opt-put-bm|opt-call-am|opt-call-bm|perp-s7|fut-s7`: other option kinds /
        exercise styles / settlement asset 7)
  `apd <current> <other>`                                       → `apd <~v|none>`
  `delta <instrument_delta> <contract_size> <B|S> <quantity>`   → `delta <v>` | `panic`
  `rm <state> C <cancel>… O <open>…`                            → `ac …`, `ao …`, `rc …`, `ro …`
        cancel = `ex:ins:strategy:cid:<oid|->`, open = `ex:ins:strategy:cid:<B|S>:price:qty:<M|L>:<gtc|gtcp|day|fok|ioc>`
  `appr <int>`                                                  → `item <int>`, `disp <int>`
  `refuse <int> <rec|unrec>`                                    → `item <int>`, `unrec <0|1>`
  `refuses <int> <word>`                                        → `item <int>`, `reason <word>`

`notional` / `notionalk` / `delta` run `notionalDec` / `deltaDec` (the real `Decimal` multiplication
with its rounding, `Model/Risk.lean`); their arguments must themselves be `Decimal`s (`decExact`:
at most 28 fractional digits and a mantissa below 2^96 — the harness's `str::parse::<Decimal>` would
round anything else), otherwise `bad-op`.

Spec mode speaks only where the theorems of `Props/C03R.lean` determine the answer from the inputs:
the exact product where every intermediate product (in the code's order) is exactly representable
(`notional_exact_of_no_rounding`, `delta_exact_of_no_rounding`); `none` / `panic` where a product of
exactly known operands has magnitude ≥ 2^96 (`mul_overflow_bounds`); silent wherever a product is
rounded (the value is then given by the model only: correspondence).
-/
namespace BarterModel.Driver.C03R
open BarterModel.Driver BarterModel.Risk

def fmtF64 : F64 → String
  | .nan => "nan"
  | .pinf => "inf"
  | .ninf => "-inf"
  | .val r => fmtRat r

def parseF64 (s : String) : Option F64 :=
  if s == "nan" then some .nan
  else if s == "inf" then some .pinf
  else if s == "-inf" then some .ninf
  else (parseRat? s).map .val

/-- an op argument that is a `Decimal` -/
def parseDec? (s : String) : Option Rat :=
  (parseRat? s).bind fun r => if decExact r then some r else none

def parseSide : String → Option Side
  | "B" => some .buy
  | "S" => some .sell
  | _ => none

def parseKind (k : String) (c : Rat) : Option Kind :=
  match k with
  | "spot" => some .spot
  | "perp" => some (.perpetual c)
  | "fut" => some (.future c)
  | "opt" => some (.option c)
  -- configuration-shape variants: put / call, American / Bermudan / European exercise, another settlement
  -- asset - the model's `Kind` carries the contract size only (the code's `contract_size()` reads nothing else)
  | "opt-put-eu" | "opt-put-am" | "opt-put-bm" | "opt-call-am" | "opt-call-bm" => some (.option c)
  | "perp-s7" => some (.perpetual c)
  | "fut-s7" => some (.future c)
  | _ => none

def checkLines {α : Type} (fmt : α → String) (r : Except (CheckFailHigherThan α) Unit) : List String :=
  match r with
  | .ok () => ["check ok"]
  | .error e => ["check fail " ++ fmt e.limit ++ " " ++ fmt e.input]

def underscore (s : String) : String := s.map fun c => if c == ' ' then '_' else c

/-- canonical cancel token (all fields validated) -/
def canonCancel (t : String) : Option String :=
  match t.splitOn ":" with
  | [ex, ins, st, cid, oid] =>
    match ex.toNat?, ins.toNat?, st.toNat?, cid.toNat? with
    | some ex, some ins, some st, some cid =>
      let oid? : Option String := if oid == "-" then some "-" else oid.toNat?.map toString
      oid?.map fun oid => ":".intercalate [toString ex, toString ins, toString st, toString cid, oid]
    | _, _, _, _ => none
  | _ => none

def canonOpen (t : String) : Option String :=
  match t.splitOn ":" with
  | [ex, ins, st, cid, side, price, qty, kind, tif] =>
    match ex.toNat?, ins.toNat?, st.toNat?, cid.toNat?, parseSide side, parseRat? price, parseRat? qty with
    | some ex, some ins, some st, some cid, some _, some price, some qty =>
      if (kind == "M" || kind == "L") && ["gtc", "gtcp", "day", "fok", "ioc"].contains tif then
        some (":".intercalate [toString ex, toString ins, toString st, toString cid, side,
          fmtRat price, fmtRat qty, kind, tif])
      else none
    | _, _, _, _, _, _, _ => none
  | _ => none

/-- splits `C c… O o…` -/
def splitReqs (toks : List String) : Option (List String × List String) :=
  match toks with
  | "C" :: rest =>
    let cs := rest.takeWhile (· != "O")
    match rest.dropWhile (· != "O") with
    | "O" :: os =>
      match cs.mapM canonCancel, os.mapM canonOpen with
      | some cs, some os => some (cs, os)
      | _, _ => none
    | _ => none
  | _ => none

def listLine (key : String) (l : List String) : String := " ".intercalate (key :: l)

def rmLines (items : List String × List String × List String × List String) : List String :=
  [listLine "ac" items.1, listLine "ao" items.2.1, listLine "rc" items.2.2.1, listLine "ro" items.2.2.2]

def model : Drv Unit where
  init := ()
  step s toks :=
    let bad : Unit × List String := (s, ["bad-op"])
    match toks with
    | ["chk", "dec", l, i] =>
      match parseRat? l, parseRat? i with
      | some l, some i =>
        (s, ("name " ++ CheckHigherThan.name) :: checkLines fmtRat (CheckHigherThan.check leRat ⟨l⟩ i))
      | _, _ => bad
    | ["chk", "int", l, i] =>
      match l.toInt?, i.toInt? with
      | some l, some i =>
        let r := CheckHigherThan.check leInt ⟨l⟩ i
        let msg := match r with
          | .ok () => []
          | .error e => ["msg " ++ underscore (e.message toString)]
        (s, ("name " ++ CheckHigherThan.name) :: checkLines toString r ++ msg)
      | _, _ => bad
    | ["chk", "f64", l, i] =>
      match parseF64 l, parseF64 i with
      | some l, some i =>
        (s, ("name " ++ CheckHigherThan.name) :: checkLines fmtF64 (CheckHigherThan.check F64.le ⟨l⟩ i))
      | _, _ => bad
    | ["notional", q, p, c] =>
      match parseDec? q, parseDec? p, parseDec? c with
      | some q, some p, some c => (s, ["notional " ++ fmtOptRat (notionalDec q p c)])
      | _, _, _ => bad
    | ["notionalk", k, c, q, p] =>
      match parseDec? c, parseDec? q, parseDec? p with
      | some c, some q, some p =>
        match parseKind k c with
        | some k =>
          (s, ["csize " ++ fmtRat k.contractSize,
               "notional " ++ fmtOptRat (notionalDec q p k.contractSize)])
        | none => bad
      | _, _, _ => bad
    | ["apd", c, o] =>
      match parseRat? c, parseRat? o with
      | some c, some o => (s, ["apd " ++ fmtOptRatApprox (calculateAbsPercentDifference decFits c o)])
      | _, _ => bad
    | ["delta", d, c, sd, q] =>
      match parseDec? d, parseDec? c, parseSide sd, parseDec? q with
      | some d, some c, some sd, some q =>
        match deltaDec d c sd q with
        | some v => (s, ["delta " ++ fmtRat v])
        | none => (s, ["panic"])
      | _, _, _, _ => bad
    | "rm" :: st :: rest =>
      match st.toNat?, splitReqs rest with
      | some st, some (cs, os) =>
        let out : CheckOut String String String := DefaultRiskManager.check st cs os
        (s, rmLines out.items)
      | _, _ => bad
    | ["appr", x] =>
      match x.toInt? with
      | some x =>
        let a := RiskApproved.new x
        (s, ["item " ++ toString a.intoItem, "disp " ++ toString a.item])
      | none => bad
    | ["refuse", x, k] =>
      match x.toInt?, (match k with
          | "rec" => some EngineErrorKind.recoverable
          | "unrec" => some EngineErrorKind.unrecoverable
          | _ => none) with
      | some x, some k =>
        let r : RiskRefused Int EngineErrorKind := ⟨x, k⟩
        (s, ["item " ++ toString r.intoItem,
             "unrec " ++ fmtBool (r.isUnrecoverable EngineErrorKind.isUnrecoverable)])
      | _, _ => bad
    | ["refuses", x, w] =>
      match x.toInt? with
      | some x =>
        let r := RiskRefused.new x w
        (s, ["item " ++ toString r.intoItem, "reason " ++ r.reason])
      | none => bad
    | _ => bad

/-- 2^96: a product of this magnitude or more always overflows (`mul_overflow_bounds`). -/
def pow96 : Rat := 79228162514264337593543950336

/-- What the theorems determine about `a.checked_mul(b)?.checked_mul(c)` from the inputs alone
(`first = a·b`, `second = a·b·c` as exact values, `value` the documented result): the exact value
when neither product rounds; `none` when a product of exactly known operands is ≥ 2^96 in
magnitude; nothing (`none` of the option) where a product is rounded. -/
def twoMulSpec (first second value : Rat) : Option (Option Rat) :=
  if decExact first then
    if decExact second then some (some value)
    else if pow96 ≤ second.abs then some none
    else none
  else if pow96 ≤ first.abs then some none
  else none

def notionalSpecLines (first second value : Rat) : List String :=
  match twoMulSpec first second value with
  | some r => ["notional " ++ fmtOptRat r]
  | none => []

def spec : Drv Unit where
  init := ()
  step s toks :=
    let bad : Unit × List String := (s, ["bad-op"])
    match toks with
    | ["chk", "dec", l, i] =>
      match parseRat? l, parseRat? i with
      | some l, some i => (s, checkLines fmtRat (specCheck l i))
      | _, _ => bad
    | ["chk", "int", l, i] =>
      match l.toInt?, i.toInt? with
      | some l, some i => (s, checkLines fmtRat (specCheck (l : Rat) (i : Rat)))
      | _, _ => bad
    | ["chk", "f64", l, i] =>
      match parseF64 l, parseF64 i with
      | some l, some i => (s, checkLines fmtF64 (specCheckF64 l i))
      | _, _ => bad
    | ["notional", q, p, c] =>
      match parseDec? q, parseDec? p, parseDec? c with
      | some q, some p, some c => (s, notionalSpecLines (q * p) (q * p * c) (specNotional q p c))
      | _, _, _ => bad
    | ["notionalk", k, c, q, p] =>
      match parseDec? c, parseDec? q, parseDec? p with
      | some c, some q, some p =>
        match parseKind k c with
        | some k =>
          -- the spec for a kind: quantity × price (× multiplier unless spot)
          (s, notionalSpecLines (q * p) (specNotionalKind k q p) (specNotionalKind k q p))
        | none => bad
      | _, _, _ => bad
    | ["apd", c, o] =>
      match parseRat? c, parseRat? o with
      | some c, some o =>
        -- constrained for a positive reference value (prices) with representable results, and for a
        -- zero reference (no percentage exists)
        if o == 0 then (s, ["apd none"])
        else if 0 < o && decFits (c - o) && decFits (specAbsPercentDifference c o) then
          (s, ["apd " ++ fmtRatApprox (specAbsPercentDifference c o)])
        else (s, [])
      | _, _ => bad
    | ["delta", d, c, sd, q] =>
      match parseDec? d, parseDec? c, parseSide sd, parseDec? q with
      | some d, some c, some sd, some q =>
        match twoMulSpec (q * c) (d * (q * c)) (specDelta d c sd q) with
        | some (some v) => (s, ["delta " ++ fmtRat v])
        | some none => (s, ["panic"])
        | none => (s, [])
      | _, _, _, _ => bad
    | "rm" :: st :: rest =>
      match st.toNat?, splitReqs rest with
      | some _, some (cs, os) => (s, rmLines (specApproveAll cs os))
      | _, _ => bad
    | ["appr", x] =>
      match x.toInt? with
      | some x => (s, ["item " ++ toString x])
      | none => bad
    | ["refuse", x, k] =>
      match x.toInt? with
      | some x =>
        if k == "rec" || k == "unrec" then (s, ["item " ++ toString x, "unrec " ++ fmtBool (k == "unrec")])
        else bad
      | none => bad
    | ["refuses", x, w] =>
      match x.toInt? with
      | some x => (s, ["item " ++ toString x, "reason " ++ w])
      | none => bad
    | _ => bad

end BarterModel.Driver.C03R

def main (args : List String) : IO UInt32 :=
  BarterModel.Driver.runMain BarterModel.Driver.C03R.model BarterModel.Driver.C03R.spec args
