import BarterModel.Driver.Common
import BarterModel.Model.SubValidator
/-!
Line-protocol driver for C13S (subscription validation).

Ops:
* `init <exchange> <c:m:ins>*`   the connector and the instrument map handed to the validator (entries are
  `channel index : market index : instrument`); prints `expected`, `timeout`
* `r|rb <response tokens>`       a text / binary message that deserialises into the connector's response:
  binance `none | some k`; bybit `<0|1> <none|pong|subscribe|absent>`; bitmex `<0|1>`; coinbase
  `subscribed n | error`; gateio `ok | oknull | err code`; kraken `subscribed id | error`; okx
  `subscribed | error code`; bitfinex `info <0|1> | subscribed c m chanId | error code`
* `o|ob <id>`                    a text / binary message that does not
* `ping`, `pong`, `close`, `wserr`, `wait <ms>`
* `docok`, `docfail`             the payload the connector's doc comment gives as success / failure
* `run`                          validate from scratch on everything so far; prints `res`, and on success
  `buf`, `consumed`, `map`

Spec mode prints `res`, `buf`, `consumed`, `map` only (`expected` / `timeout` are copies of the code's tables
and are compared impl-vs-model only); its `map` is computed from the `init` op by `specMap` (last entry per
key), for Bitfinex re-keyed by `rekey`. Number tokens outside the Rust integer type the harness reads them
into are `bad-op` (`u64?`, `u32?`).
-/
namespace BarterModel.Driver.C13S
open BarterModel.Driver BarterModel.SubValidator

def docPayload : Nat := 1000000

def parseExchange : String → Option Exchange
  | "binance" => some .binance
  | "bybit" => some .bybit
  | "bitmex" => some .bitmex
  | "coinbase" => some .coinbase
  | "gateio" => some .gateio
  | "kraken" => some .kraken
  | "okx" => some .okx
  | "bitfinex" => some .bitfinex
  | _ => none

def nChannels : Nat := 2
def nMarkets : Nat := 3

/-- The harness reads numbers into fixed-width Rust integers (`usize` / `u64`: the instrument, payload ids,
Kraken's `channelID`, the milliseconds of a `wait`; `u32`: Bitfinex's `chanId` and error code, Okx's error
code; `u8`: Gateio's error code, already checked below) and answers `bad-op` to a token that does not fit; so
does this driver. -/
def natBelow (bound : Nat) (t : String) : Option Nat :=
  t.toNat?.bind fun n => if n < bound then some n else none

def u64? : String → Option Nat := natBelow (2 ^ 64)
def u32? : String → Option Nat := natBelow (2 ^ 32)

def parseEntry (t : String) : Option (Key × Nat) :=
  match t.splitOn ":" with
  | [c, m, i] =>
    match u64? c, u64? m, u64? i with
    | some c, some m, some i => if c < nChannels && m < nMarkets then some (.sub c m, i) else none
    | _, _, _ => none
  | _ => none

def parseBit : String → Option Bool
  | "1" => some true
  | "0" => some false
  | _ => none

/-- response tokens of the seven connectors with the generic validator -/
def parseResp (ex : Exchange) (t : List String) : Option Resp :=
  match ex, t with
  | .binance, ["none"] => some (.binance ⟨none⟩)
  | .binance, ["some", k] => (u64? k).map fun k => .binance ⟨some k⟩
  | .bybit, [s, m] =>
    match parseBit s, m with
    | some s, "none" => some (.bybit ⟨s, .none⟩)
    | some s, "absent" => some (.bybit ⟨s, .none⟩)
    | some s, "pong" => some (.bybit ⟨s, .pong⟩)
    | some s, "subscribe" => some (.bybit ⟨s, .subscribe⟩)
    | _, _ => none
  | .bitmex, [s] => (parseBit s).map fun s => .bitmex ⟨s⟩
  | .coinbase, ["subscribed", n] => (u64? n).map fun n => .coinbase (.subscribed n)
  | .coinbase, ["error"] => some (.coinbase .error)
  | .gateio, ["ok"] => some (.gateio ⟨none⟩)
  | .gateio, ["oknull"] => some (.gateio ⟨none⟩)
  | .gateio, ["err", c] => c.toNat?.bind fun c => if c < 256 then some (.gateio ⟨some c⟩) else none
  | .kraken, ["subscribed", id] => (u64? id).map fun id => .kraken (.subscribed id)
  | .kraken, ["error"] => some (.kraken .error)
  | .okx, ["subscribed"] => some (.okx .subscribed)
  | .okx, ["error", c] => (u32? c).map fun c => .okx (.error c)
  | _, _ => none

def parseBfx (t : List String) : Option BfxEvent :=
  match t with
  | ["info", s] => (parseBit s).map .platformStatus
  | ["subscribed", c, m, id] =>
    match u64? c, u64? m, u32? id with
    | some c, some m, some id => if c < nChannels && m < nMarkets then some (.subscribed c m id) else none
    | _, _, _ => none
  | ["error", c] => (u32? c).map .error
  | _ => none

/-- frame ops that do not depend on the connector -/
def parseCommon {R : Type} (t : List String) : Option (Frame R) :=
  match t with
  | ["o", id] => (u64? id).map .other
  | ["ob", id] => (u64? id).map .other
  | ["ping"] => some .skip
  | ["pong"] => some .skip
  | ["close"] => some .close
  | ["wserr"] => some .transportErr
  | ["wait", d] => (u64? d).map .wait
  | _ => none

/-- `specMode`: the specification takes a documented failure payload for what the documentation says it
is, a failure response; the model takes it for what the deserialiser makes of it. They differ for Gateio
(the generator does not emit `docfail` for Gateio; see the report). -/
def parseFrame (specMode : Bool) (ex : Exchange) (t : List String) : Option (Frame Resp) :=
  match t with
  | "r" :: a => (parseResp ex a).map .resp
  | "rb" :: a => (parseResp ex a).map .resp
  | ["docok"] => (docOk ex).map .resp
  | ["docfail"] =>
    match docFail ex with
    | some r => some (.resp r)
    | none =>
      if specMode then some (.resp (.gateio ⟨some 2⟩))
      else some (.other docPayload)   -- gateio: the documented failure payload does not deserialise
  | _ => parseCommon t

def parseFrameBfx (t : List String) : Option (Frame BfxEvent) :=
  match t with
  | "r" :: a => (parseBfx a).map .resp
  | "rb" :: a => (parseBfx a).map .resp
  | ["docok"] => some (.resp (.subscribed 0 0 999))
  | ["docfail"] => some (.resp (.error 10300))
  | _ => parseCommon t

structure DSt where
  ex : Option Exchange := none
  entries : List (Key × Nat) := []
  frames : List (Frame Resp) := []
  bframes : List (Frame BfxEvent) := []

def keyTok : Key × Nat → String
  | (.sub c m, v) => s!"{c}:{m}={v}"
  | (.chan id, v) => s!"#{id}={v}"

def fmtMap (m : IMap) : String :=
  " ".intercalate ((m.map keyTok).toArray.qsort (· < ·)).toList

def fmtPayload (p : Nat) : String := if p == docPayload then "doc" else toString p

def errTok : ValErr → String
  | .timeout => "err:timeout"
  | .ended => "err:ended"
  | .closed => "err:closed"
  | .rejected .failure => "err:failure"
  | .rejected .outOfSequence => "err:sequence"
  | .rejected .maintenance => "err:maintenance"

def nFrames {R : Type} (l : List (Frame R)) : Nat := (l.filter (fun f => !isWait f)).length

/-- canonical observation of one validation result -/
def obs {R : Type} (all : List (Frame R)) : Except ValErr (IMap × List Nat × List (Frame R)) → List String
  | .error e => ["res " ++ errTok e]
  | .ok (m, b, rest) =>
    [ "res ok",
      "buf " ++ " ".intercalate (b.map fmtPayload),
      s!"consumed {nFrames all - nFrames rest}",
      "map " ++ fmtMap m ]

def resTok {α : Type} : Except ValErr α → String
  | .error e => errTok e
  | .ok _ => "ok"

def modelRun (s : DSt) : List String :=
  match s.ex with
  | none => ["bad-op"]
  | some .bitfinex =>
    let m := IMap.ofList s.entries
    let r := validateBfx m s.bframes
    obs s.bframes r ++ ["% bfx " ++ resTok r]
  | some ex =>
    let m := IMap.ofList s.entries
    let r := (validateGeneric ex m.length s.frames).map fun (b, rest) => (m, b, rest)
    obs s.frames r ++ ["% gen " ++ resTok r]

/-- The two readings of the timeout (per silence / one deadline) may disagree; then the specification
leaves the outcome open between the two. -/
def specObs {R : Type} (all : List (Frame R)) (a b : Except ValErr (IMap × List Nat × List (Frame R))) :
    List String :=
  let la := obs all a
  let lb := obs all b
  if la == lb then la else ["res {" ++ resTok a ++ "|" ++ resTok b ++ "}"]

/-- every `channel|market` key of the driver's domain -/
def allKeys : List Key :=
  (List.range nChannels).flatMap fun c => (List.range nMarkets).map fun m => Key.sub c m

/-- The instrument map as the specification reads it off the `init` op, without building a hash map: every
key carries the instrument of the LAST entry given for it (`lastEntry`; theorem `ofList_get_is_last_entry`). -/
def specMap (entries : List (Key × Nat)) : IMap :=
  allKeys.filterMap fun k => (lastEntry entries k).map fun v => (k, v)

def specRun (s : DSt) : List String :=
  match s.ex with
  | none => ["bad-op"]
  | some .bitfinex =>
    let m := specMap s.entries
    let t := subscriptionTimeoutMs .bitfinex
    let out := specObs s.bframes (specBfx t m s.bframes) (specBfxDeadline t m s.bframes)
    -- the venue assigns every subscription its own channel id; where the generated venue reuses an id
    -- the specification says nothing about the map
    match specBfx t m s.bframes with
    | .ok (_, _, rest) =>
      let pre := s.bframes.take (s.bframes.length - rest.length)
      if distinctIds m pre then out else out.filter (fun l => !l.startsWith "map ")
    | .error _ => out
  | some ex =>
    -- the generic validators hand the instrument map back as it was given
    let m := specMap s.entries
    let t := subscriptionTimeoutMs ex
    let k := expectedResponses ex m.length
    let wrap (r : Res Resp) := r.map fun (b, rest) => (m, b, rest)
    specObs s.frames (wrap (spec Resp.validate t k s.frames)) (wrap (specDeadline Resp.validate t k s.frames))

def step (specMode : Bool) (runner : DSt → List String) (s : DSt) (toks : List String) : DSt × List String :=
  match toks with
  | "init" :: name :: es =>
    match parseExchange name, es.mapM parseEntry with
    | some ex, some es =>
      let m := IMap.ofList es
      -- `expected` / `timeout` are the model's tables of the code's constants: compared with the
      -- implementation (correspondence), not stated by the specification
      ({ ex := some ex, entries := es },
        if specMode then [] else
          [s!"expected {expectedResponses ex m.length}", s!"timeout {subscriptionTimeoutMs ex}"])
    | _, _ => (s, ["bad-op"])
  | ["run"] => (s, runner s)
  | _ =>
    match s.ex with
    | none => (s, ["bad-op"])
    | some .bitfinex =>
      match parseFrameBfx toks with
      | some f => ({ s with bframes := s.bframes ++ [f] }, [])
      | none => (s, ["bad-op"])
    | some ex =>
      match parseFrame specMode ex toks with
      | some f => ({ s with frames := s.frames ++ [f] }, [])
      | none => (s, ["bad-op"])

def model : Drv DSt where
  init := {}
  step := step false modelRun

def spec : Drv DSt where
  init := {}
  step := step true specRun

end BarterModel.Driver.C13S

def main (args : List String) : IO UInt32 :=
  BarterModel.Driver.runMain BarterModel.Driver.C13S.model BarterModel.Driver.C13S.spec args
