import BarterModel.Driver.Common
import BarterModel.Model.MockInstruments
/-!
Line-protocol driver for sub-check C04M (the mock exchange instrument table that `ExecutionBuilder`
derives from the indexed instruments).

Ops
* `def E NI NE BI BE QI QE QA <kind> <spec>`  add an instrument definition (token format of C11:
  `<kind>` = `s` | `p SZ SI SE` | `f SZ SI SE EXP` | `o SZ SI SE PUT EXER EXP STRIKE`,
  `<spec>` = `n` | `y PMIN TICK <unit> QMIN QINC NMIN`, `<unit>` = `a UI UE` | `c` | `q`)
* `index`               index the definitions (`IndexedInstruments::new`); forgets adds and system
* `akey P K`            tamper: key of asset entry `P` := `K`
* `ibase P A` / `iquote P A` / `iunit P A`   tamper: base / quote / quantity-unit asset index of
                        instrument entry `P` := `A`
* `iex P L`             tamper: `exchange.value` of instrument entry `P` := exchange label `L`
* `mock E LAT FEE N (NAME AMOUNT)*N`   queue `add_mock` for exchange `E`
* `live E`              queue `add_live` of a stub client whose `EXCHANGE` is `E`
* `build`               `ExecutionBuilder::new`, the queued adds in order, `build()`, `init()`
* `order X I <B|S> <M|L> PRICE QTY`   open request for (exchange index, instrument index) sent through
                        `execution_txs.find(X)`, run to quiescence
-/
namespace BarterModel.Driver.C04M
open BarterModel.Driver BarterModel.Index BarterModel.MockInstruments

/-! ### parsing -/

def nats? (l : List String) : Option (List Nat) := l.mapM (·.toNat?)

def parseKind : List String → Option (Kind Asset × List String)
  | "s" :: r => some (.spot, r)
  | "p" :: a :: b :: c :: r =>
    match nats? [a, b, c] with
    | some [sz, si, se] => some (.perpetual sz ⟨si, se⟩, r)
    | _ => none
  | "f" :: a :: b :: c :: d :: r =>
    match nats? [a, b, c, d] with
    | some [sz, si, se, e] => some (.future sz ⟨si, se⟩ e, r)
    | _ => none
  | "o" :: a :: b :: c :: d :: e :: f :: g :: r =>
    match nats? [a, b, c, d, e, f, g] with
    | some [sz, si, se, p, x, ex, k] =>
      if p < 2 ∧ x < 3 then some (.option sz ⟨si, se⟩ p x ex k, r) else none
    | _ => none
  | _ => none

def parseUnits : List String → Option (Units Asset × List String)
  | "a" :: a :: b :: r =>
    match nats? [a, b] with
    | some [ui, ue] => some (.asset ⟨ui, ue⟩, r)
    | _ => none
  | "c" :: r => some (.contract, r)
  | "q" :: r => some (.quote, r)
  | _ => none

def parseSpec : List String → Option (Option (Spec Asset) × List String)
  | "n" :: r => some (none, r)
  | "y" :: a :: b :: r =>
    match nats? [a, b], parseUnits r with
    | some [pm, tk], some (u, c :: d :: e :: r') =>
      match nats? [c, d, e] with
      | some [qm, qi, nm] => some (some ⟨pm, tk, u, qm, qi, nm⟩, r')
      | _ => none
    | _, _ => none
  | _ => none

def parseDef : List String → Option Def
  | e :: ni :: ne :: bi :: be :: qi :: qe :: qa :: r =>
    match nats? [e, ni, ne, bi, be, qi, qe, qa] with
    | some [e, ni, ne, bi, be, qi, qe, qa] =>
      if qa < 2 then
        match parseKind r with
        | some (k, r') =>
          match parseSpec r' with
          | some (s, []) => some ⟨e, ni, ne, ⟨bi, be⟩, ⟨qi, qe⟩, qa, k, s⟩
          | _ => none
        | none => none
      else none
    | _ => none
  | _ => none

def parsePairs : Nat → List String → Option (List (Nat × Rat))
  | 0, [] => some []
  | 0, _ => none
  | n + 1, name :: amt :: r =>
    match name.toNat?, parseRat? amt, parsePairs n r with
    | some name, some amt, some rest => some ((name, amt) :: rest)
    | _, _, _ => none
  | _, _ => none

def parseMock : List String → Option MockConfig
  | e :: lat :: fee :: n :: r =>
    match e.toNat?, lat.toNat?, parseRat? fee, n.toNat? with
    | some e, some lat, some fee, some n =>
      match parsePairs n r with
      | some bs =>
        -- balance names must be distinct (the code's map would keep the last one)
        if (bs.map (·.1)).Nodup then some { exchange := e, latency := lat, fee := fee, balances := bs } else none
      | none => none
    | _, _, _, _ => none
  | _ => none

def parseSide : String → Option MockExchange.Side
  | "B" => some .buy
  | "S" => some .sell
  | _ => none

def parseOKind : String → Option MockExchange.Kind
  | "M" => some .market
  | "L" => some .limit
  | _ => none

def parseOrder : List String → Option Open
  | [x, i, sd, kd, p, q] =>
    match x.toNat?, i.toNat?, parseSide sd, parseOKind kd, parseRat? p, parseRat? q with
    | some x, some i, some sd, some kd, some p, some q =>
      some { exchange := x, instrument := i, cid := 0, side := sd, kind := kd, price := p, qty := q }
    | _, _, _, _, _, _ => none
  | _ => none

/-! ### printing -/

def n2s (n : Nat) : String := toString n

def side2s : MockExchange.Side → String
  | .buy => "B"
  | .sell => "S"

def outcome2s : OrderOutcome → String
  | .filled => "filled"
  | .active => "active"
  | .rejected => "rejected"
  | .insufficient a => "insufficient " ++ n2s a
  | .offline => "offline"

def panic2s : Panic → String
  | .unsupportedKind => "kind"
  | .unknownAsset => "asset"

/-- insertion sort by a `Nat` key (stable) -/
def isort {α : Type} (key : α → Nat) (l : List α) : List α :=
  l.foldl (fun acc x => (acc.takeWhile (fun y => decide (key y ≤ key x))) ++
    x :: acc.dropWhile (fun y => decide (key y ≤ key x))) []

def balLine : Option (Nat × Rat × Rat) → String
  | none => "bal none"
  | some (a, t, f) => "bal " ++ n2s a ++ " " ++ fmtRat t ++ " " ++ fmtRat f

def tradeLine : Option (Nat × MockExchange.Side × Rat × Rat × Rat) → String
  | none => "trade none"
  | some (i, sd, p, q, f) =>
    "trade " ++ n2s i ++ " " ++ side2s sd ++ " " ++ fmtRat p ++ " " ++ fmtRat q ++ " " ++ fmtRat f

def orderLine : Option (Nat × Nat × OrderOutcome) → String
  | none => "order none"
  | some (x, i, o) => "order " ++ n2s x ++ " " ++ n2s i ++ " " ++ outcome2s o

def evLines (ev : Events) : List String := [orderLine ev.order, balLine ev.balance, tradeLine ev.trade]

def seen2s : Seen → String
  | .response o => outcome2s o
  | .timeout => "timeout"

/-- the order snapshot as the engine sees it (`timeout` = the manager's own `OpenFailed(Timeout)`) -/
def seenOrderLine : Option (Nat × Nat × Seen) → String
  | none => "order none"
  | some (x, i, o) => "order " ++ n2s x ++ " " ++ n2s i ++ " " ++ seen2s o

def seenLines (ev : SeenEvents) : List String :=
  [seenOrderLine ev.order, balLine ev.balance, tradeLine ev.trade]

/-- `snap<exchange index> <asset index>:<amount> …` (one key per exchange, so that the spec can
speak about one exchange and stay silent about another) -/
def snapLine (s : Nat × List (Nat × Rat)) : String :=
  " ".intercalate (["snap" ++ n2s s.1] ++ (isort (·.1) s.2).map fun b => n2s b.1 ++ ":" ++ fmtRat b.2)

def txmapLine (t : ExecMap.TxMap) : String :=
  " ".intercalate ("txmap" :: t.map fun s => n2s s.1 ++ ":" ++ (if s.2.isSome then "1" else "0"))

/-! ### model -/

structure St where
  defs : List Def := []
  ii : Option Indexed := none
  /-- no tamper op since `index` -/
  pristine : Bool := true
  adds : List Add := []
  exec : Option Exec := none
  /-- spec driver only: per mock exchange id the configuration and the accepted orders, newest first -/
  hist : List (Nat × MockConfig × List MockExchange.Spec.Ev) := []
  /-- spec driver only: exchange ids the spec no longer speaks about -/
  silent : List Nat := []
  /-- spec driver only: exchange ids an execution was added for -/
  linked : List Nat := []
  /-- spec driver only: exchange ids with a MOCK execution (covered by the spec or not) -/
  mocked : List Nat := []

def modifyAt {α : Type} (l : List α) (p : Nat) (f : α → Option α) : Option (List α) :=
  match l[p]? with
  | none => none
  | some x => (f x).map fun y => l.set p y

def tamper (ii : Indexed) : List String → Option (Option Indexed)
  | ["akey", p, k] =>
    match p.toNat?, k.toNat? with
    | some p, some k =>
      some ((modifyAt ii.assets p fun x => some { x with key := k }).map fun l => { ii with assets := l })
    | _, _ => none
  | ["ibase", p, a] =>
    match p.toNat?, a.toNat? with
    | some p, some a =>
      some ((modifyAt ii.instruments p fun x => some { x with value := { x.value with base := a } }).map
        fun l => { ii with instruments := l })
    | _, _ => none
  | ["iquote", p, a] =>
    match p.toNat?, a.toNat? with
    | some p, some a =>
      some ((modifyAt ii.instruments p fun x => some { x with value := { x.value with quote := a } }).map
        fun l => { ii with instruments := l })
    | _, _ => none
  | ["iunit", p, a] =>
    match p.toNat?, a.toNat? with
    | some p, some a =>
      some ((modifyAt ii.instruments p fun x =>
        match x.value.spec with
        | some s =>
          match s.unit with
          | .asset _ => some { x with value := { x.value with spec := some { s with unit := .asset a } } }
          | _ => none
        | none => none).map fun l => { ii with instruments := l })
    | _, _ => none
  | ["iex", p, e] =>
    match p.toNat?, e.toNat? with
    | some p, some e =>
      some ((modifyAt ii.instruments p fun x =>
        some { x with value := { x.value with exchange := { x.value.exchange with value := e } } }).map
        fun l => { ii with instruments := l })
    | _, _ => none
  | _ => none

def isTamper (op : String) : Bool := ["akey", "ibase", "iquote", "iunit", "iex"].contains op

def buildLines (ii : Indexed) (adds : List Add) : Option Exec × List String :=
  match addAll ii {} adds 0 with
  | .error (k, .panic p) => (none, ["r panic " ++ panic2s p ++ " at " ++ n2s k])
  | .error (k, .build .index) => (none, ["r builderr index at " ++ n2s k])
  | .error (k, .build .duplicate) => (none, ["r builderr duplicate at " ++ n2s k])
  | .ok b =>
    match buildInit ii b with
    | .buildPanic => (none, ["r buildpanic"])
    | .initErr => (none, ["r initerr"])
    | .ok e snaps =>
      let (m, n, k) := e.handles
      (some e, ["r ok", txmapLine e.txmap, "handles " ++ n2s m ++ " " ++ n2s n ++ " " ++ n2s k] ++
        (isort (·.1) snaps).map snapLine)

def sendLines : SeenResult → List String
  | .noTx => ["r err"]
  | .closed => ["r closed"]
  | .managerPanic => ["r mpanic"]
  | .live c n ev => ["r live " ++ n2s c ++ " " ++ n2s n] ++ seenLines ev
  | .mock _ _ ev => ["r mock"] ++ seenLines ev

def model : Drv St where
  init := {}
  step s toks :=
    match toks with
    | "def" :: r =>
      match parseDef r with
      | some d => let s' := { s with defs := s.defs ++ [d] }; (s', ["ndefs " ++ n2s s'.defs.length])
      | none => (s, ["bad-op"])
    | ["index"] =>
      match build s.defs with
      | none => ({ s with ii := none, adds := [], exec := none }, ["panic"])
      | some ii =>
        ({ s with ii := some ii, pristine := true, adds := [], exec := none },
         ["indexed " ++ n2s ii.exchanges.length ++ " " ++ n2s ii.assets.length ++ " " ++ n2s ii.instruments.length])
    | "mock" :: r =>
      match parseMock r with
      | some c => let s' := { s with adds := s.adds ++ [.mock c] }; (s', ["adds " ++ n2s s'.adds.length])
      | none => (s, ["bad-op"])
    | ["live", e] =>
      match e.toNat? with
      | some e => let s' := { s with adds := s.adds ++ [.live e] }; (s', ["adds " ++ n2s s'.adds.length])
      | none => (s, ["bad-op"])
    | ["build"] =>
      match s.ii with
      | none => (s, ["noindex"])
      | some ii =>
        let (e, lines) := buildLines ii s.adds
        ({ s with adds := [], exec := e }, lines)
    | "order" :: r =>
      match parseOrder r with
      | none => (s, ["bad-op"])
      | some o =>
        match s.exec with
        | none => (s, ["nobuild"])
        | some e =>
          -- `sendOpen` + the manager's 1 s request timeout on mock links (builder.rs:97)
          let (e', res) := sendOpenSeen e o
          ({ s with exec := some e' }, sendLines res)
    | op :: _ =>
      if isTamper op then
        match s.ii with
        | none => (s, ["noindex"])
        | some ii =>
          match tamper ii toks with
          | none => (s, ["bad-op"])
          | some none => (s, ["skip"])
          | some (some ii') => ({ s with ii := some ii', pristine := false, adds := [], exec := none }, ["ok"])
      else (s, ["bad-op"])
    | [] => (s, ["bad-op"])

/-! ### specification

Speaks only about a collection as the builder made it (`pristine`), and for an exchange only while
everything the documented intent presupposes holds: exchange names of its instruments and assets
are unambiguous, every asset of the exchange has a configured balance (and no balance is configured
for a name the exchange has no asset for), no request for an instrument of another exchange has been
sent to it. These gates are EXACTLY the hypotheses of `Props.C04M.built_system_refines_view`
(`ViewHypW` — C11's `WFAssets` is not among them since theorem review A — and `managerAlive`); the
per-exchange history `hist` is `specHistory` over `routedTo`, the requests of the whole history that
the built system routes to that exchange. -/

def exchangeIds (defs : List Def) : List Nat := specExchanges defs

/-- The spec's prediction for the `add_*` calls: first failing call and its reason. -/
def specAdds (defs : List Def) : List Add → List Nat → Nat → Option String
  | [], _, _ => none
  | a :: rest, seen, k =>
    let e := a.exchange
    let unsupported := match a with
      | .mock _ => !decide (specSupported defs e)
      | .live _ => false
    if unsupported then some ("r panic kind at " ++ n2s k)
    else if !(exchangeIds defs).contains e then some ("r builderr index at " ++ n2s k)
    else if seen.contains e then some ("r builderr duplicate at " ++ n2s k)
    else specAdds defs rest (e :: seen) (k + 1)

/-- Does the configuration cover every asset of the exchange, with unambiguous names? -/
def specCovers (defs : List Def) (ii : Indexed) (c : MockConfig) : Bool :=
  decide (UniqueNames defs c.exchange) && decide (UniqueAssetNames defs c.exchange) &&
  ii.assets.all fun a =>
    a.value.exchange != c.exchange || (c.balances.map (·.1)).contains a.value.asset.nameExchange

def spec : Drv St where
  init := {}
  step s toks :=
    match toks with
    | "def" :: r =>
      match parseDef r with
      | some d => ({ s with defs := s.defs ++ [d] }, [])
      | none => (s, ["bad-op"])
    | ["index"] =>
      match build s.defs with
      | none => ({ s with ii := none, adds := [], exec := none, hist := [], silent := [] }, [])
      | some ii => ({ s with ii := some ii, pristine := true, adds := [], exec := none, hist := [], silent := [] }, [])
    | "mock" :: r =>
      match parseMock r with
      | some c => ({ s with adds := s.adds ++ [.mock c] }, [])
      | none => (s, ["bad-op"])
    | ["live", e] =>
      match e.toNat? with
      | some e => ({ s with adds := s.adds ++ [.live e] }, [])
      | none => (s, ["bad-op"])
    | ["build"] =>
      match s.ii with
      | none => (s, [])
      | some ii =>
        if !s.pristine then ({ s with adds := [], exec := none, hist := [], silent := [] }, []) else
        match specAdds s.defs s.adds [] 0 with
        | some line => ({ s with adds := [], exec := none, hist := [], silent := [] }, [line])
        | none =>
          let mocks := s.adds.filterMap fun a => match a with | .mock c => some c | .live _ => none
          -- a balance configured for an asset the exchange does not have: outside the intent
          if !(mocks.all fun c => c.balances.all fun b => ii.assets.any fun a =>
                a.value.exchange == c.exchange && a.value.asset.nameExchange == b.1) then
            ({ s with adds := [], exec := none, hist := [], silent := [] }, []) else
          let hist := (mocks.filter (specCovers s.defs ii)).map fun c => (c.exchange, c, [])
          -- `exec` only marks "a system is running"; the spec never reads it
          ({ s with adds := [], exec := some default, hist := hist, linked := s.adds.map Add.exchange,
                    mocked := mocks.map (·.exchange),
                    silent := (mocks.filter fun c => !specCovers s.defs ii c).map (·.exchange) },
           ["handles " ++ n2s mocks.length ++ " " ++ n2s s.adds.length ++ " " ++ n2s s.adds.length] ++
           -- the indexed initial account snapshot of every mock exchange the spec speaks about
           -- (`Props.C04M.init_snapshot_refines_view`)
           (hist.filterMap fun h =>
             (ii.exchanges.find? fun x => x.value == h.1).map fun x =>
               snapLine (x.key, specSnapshot ii h.2.1)))
    | "order" :: r =>
      match parseOrder r, s.ii, s.exec with
      | some o, some ii, some _ =>
        match ii.exchanges[o.exchange]? with
        | none => (s, ["r err"])
        | some x =>
          if !s.linked.contains x.value then (s, ["r err"]) else
          if s.silent.contains x.value then (s, []) else
          match s.hist.find? (fun h => h.1 == x.value) with
          | none =>
            -- a LIVE link (stub client): the request reaches the client of that exchange under the
            -- instrument's exchange NAME (index → name needs no uniqueness); the stub rejects it and
            -- the order snapshot comes back under (exchange index, instrument index) provided the
            -- name translates back, i.e. instrument names are unambiguous on that exchange
            if s.mocked.contains x.value then (s, []) else
            match ii.instruments[o.instrument]? with
            | none => ({ s with silent := x.value :: s.silent }, ["r mpanic"])
            | some ins =>
              if ins.value.exchange.value != x.value then
                ({ s with silent := x.value :: s.silent }, ["r mpanic"])
              else
                (s, ["r live " ++ n2s x.value ++ " " ++ n2s ins.value.nameExchange] ++
                  (if decide (UniqueNames s.defs x.value)
                    then [orderLine (some (o.exchange, o.instrument, .rejected))] else []) ++
                  ["bal none", "trade none"])
          | some (_, c, acc) =>
            match ii.instruments[o.instrument]? with
            | none => ({ s with silent := x.value :: s.silent }, ["r mpanic"])
            | some ins =>
              if ins.value.exchange.value != x.value then
                ({ s with silent := x.value :: s.silent }, ["r mpanic"])
              else
                let first := "r mock"
                match specObserve ii c acc o with
                | none =>
                  -- no fill prescribed: nothing changes, and the order snapshot says why
                  -- (`Props.C04M.reject_outcome_refines_view`)
                  -- (`Props.C04M.built_system_refines_view`; `specSeen`: the manager's request
                  -- timeout hides the outcome of an exchange configured with latency >= 1 s)
                  (s, [first, "bal none", "trade none",
                       seenOrderLine (some (o.exchange, o.instrument, specSeen c (specOutcome ii c acc o)))])
                | some (a, b, tr) =>
                  ({ s with hist := s.hist.map fun h =>
                      if h.1 == x.value then (h.1, h.2.1, specNext ii c h.2.2 o) else h },
                   [first, balLine (some (a, b, b)),
                    tradeLine (some (tr.instr, tr.side, tr.price, tr.qty, tr.fees)),
                    -- the fill and the balance are prescribed also when the engine is told `timeout`:
                    -- the exchange HAS executed the order (`Props.C04M.timeout_hides_an_executed_order`)
                    seenOrderLine (some (o.exchange, tr.instr,
                      specSeen c (if o.qty - tr.qty = 0 then .filled else .active)))])
      | none, _, _ => (s, ["bad-op"])
      | _, _, _ => (s, [])
    | op :: _ =>
      if isTamper op then ({ s with pristine := false, adds := [], exec := none, hist := [], silent := [] }, [])
      else (s, ["bad-op"])
    | [] => (s, ["bad-op"])

end BarterModel.Driver.C04M

def main (args : List String) : IO UInt32 :=
  BarterModel.Driver.runMain BarterModel.Driver.C04M.model BarterModel.Driver.C04M.spec args
