import BarterModel.Driver.Common
import BarterModel.Model.DynamicInit
/-!
Line-protocol driver for the sub-check C13D (the arm bodies of `DynamicStreams::init`); the op and the
observation lines are documented in `harness/src/bin/c13d.rs`.

Tokens as in `Driver/C13V.lean`: exchange = declaration position 0..41, sub kind = 0..5, connector type =
`c` + position in `Connectors.Exch` 0..14, instrument kind `s` | `p` | `f<expiry ms>` |
`o<put>.<exercise>.<expiry>.<strike>`, instrument `base/quote/kind`, subscription `exchange,instrument,kind`,
batches separated by `|`.
-/
namespace BarterModel.Driver.C13D
open BarterModel.Driver BarterModel.Subscribe BarterModel.DynamicInit BarterModel.Names
open BarterModel.Connectors (Exch)

/-! ### tokens (as Driver/C13V.lean) -/

def parseIK (t : String) : Option IK :=
  if t == "s" then some .spot
  else if t == "p" then some .perpetual
  else if t.startsWith "f" then (t.drop 1).toString.toNat?.map .future
  else if t.startsWith "o" then
    match (t.drop 1).toString.splitOn "." with
    | [p, x, e, k] =>
      match p.toNat?, x.toNat?, e.toNat?, k.toNat? with
      | some p, some x, some e, some k => if p < 2 ∧ x < 3 then some (.option p x e k) else none
      | _, _, _, _ => none
    | _ => none
  else none

def ikTok : IK → String
  | .spot => "s"
  | .perpetual => "p"
  | .future e => "f" ++ toString e
  | .option p x e k => "o" ++ toString p ++ "." ++ toString x ++ "." ++ toString e ++ "." ++ toString k

def parseInst (t : String) : Option Inst :=
  match t.splitOn "/" with
  | [b, q, k] =>
    match b.toNat?, q.toNat?, parseIK k with
    | some b, some q, some k => some ⟨b, q, k⟩
    | _, _, _ => none
  | _ => none

def instTok (i : Inst) : String := toString i.base ++ "/" ++ toString i.quote ++ "/" ++ ikTok i.kind

def parseEx (t : String) : Option ExchangeId := t.toNat?.bind ExchangeId.ofNat?
def parseKind (t : String) : Option SubKind := t.toNat?.bind SubKind.ofNat?

def parseSub (t : String) : Option (Subscr Inst) :=
  match t.splitOn "," with
  | [e, i, k] =>
    match parseEx e, parseInst i, parseKind k with
    | some e, some i, some k => some ⟨e, i, k⟩
    | _, _, _ => none
  | _ => none

def subTokG {ι : Type} (tok : ι → String) (s : Subscr ι) : String :=
  toString s.exchange.toNat ++ "," ++ tok s.instrument ++ "," ++ toString s.kind.toNat

def subTok (s : Subscr Inst) : String := subTokG instTok s

/-! ### the keyed instrument type `Keyed<InstrumentIndex, MarketDataInstrument>` (op `initk`): token
`<key>~<base>/<quote>/<kind>`; the model's `KInst` / `kinstOps` (derived `Ord` = key first, `Display` =
`InstrumentIndex(<key>), <instrument>`) -/

def parseKInst (t : String) : Option KInst :=
  match t.splitOn "~" with
  | [k, i] =>
    match k.toNat?, parseInst i with
    | some k, some i => some ⟨k, i⟩
    | _, _ => none
  | _ => none

def kinstTok (i : KInst) : String := toString i.key ++ "~" ++ instTok i.value

def parseKSub (t : String) : Option (Subscr KInst) :=
  match t.splitOn "," with
  | [e, i, k] =>
    match parseEx e, parseKInst i, parseKind k with
    | some e, some i, some k => some ⟨e, i, k⟩
    | _, _, _ => none
  | _ => none

/-- splits a token list at `|` -/
def splitBar : List String → List (List String)
  | [] => [[]]
  | t :: r =>
    match splitBar r with
    | cur :: rest => if t == "|" then [] :: cur :: rest else (t :: cur) :: rest
    | [] => [[t]]

def parseBatchesG {ι : Type} (ps : String → Option (Subscr ι)) (toks : List String) :
    Option (List (List (Subscr ι))) :=
  if toks.isEmpty then some [] else (splitBar toks).mapM (fun b => b.mapM ps)

def parseBatches (toks : List String) : Option (List (List (Subscr Inst))) := parseBatchesG parseSub toks

def str (s : Str) : String := String.ofList s

def noSpaces (s : Str) : String := String.ofList (s.filter (· ≠ ' '))

def kindDisp (i : Inst) : Str := i.kind.toMD.display

def kindDispK (i : KInst) : Str := i.value.kind.toMD.display

/-- the instantiation of `sort_unstable_by_key` in the driver: the stable merge sort (what the pinned toolchain
does on at most 20 elements; beyond that the harness does not compare the order inside a group) -/
def usortSubs {ι : Type} (l : List (Subscr ι)) : List (Subscr ι) := stableSort l

/-- canonical order of a multiset of observation lines: the order of the printed lines themselves (all ASCII),
as the harness sorts them — independent of the sort keys of the model -/
def sortLines (l : List String) : List String := l.mergeSort (fun a b => !decide (b < a))

/-! ### model -/

def callLinesG {ι : Type} (tok : ι → String) (disp : ι → Str) (long : Bool) (c : Call ι) : List String :=
  [ "ims " ++ toString c.id.toNat ++ " " ++ toString c.policy.initial ++ " " ++ toString c.policy.mult ++ " " ++
      toString c.policy.max ++ " " ++ str c.streamKey ++ " " ++
      (if long then "-" else noSpaces (c.display disp)),
    ("conn " ++ toString c.id.toNat ++ " " ++ toString c.kind.toNat ++ " c" ++ toString (connAll.idxOf c.conn) ++ " " ++
      str c.url ++ " " ++ toString c.instruments.length ++ " " ++
      " ".intercalate (c.instruments.map tok)).trimAsciiEnd.toString,
    "req " ++ str c.url ]

def initLinesG {ι : Type} [DecidableEq ι] (ops : InstOps ι) (tok : ι → String) (disp kd : ι → Str)
    (batches : List (List (Subscr ι))) : List String :=
  let r := init armBody ops usortSubs batches
  let long :=
    match validateBatches ops batches with
    | .ok vs => vs.any (fun b => b.length > 20)
    | .error _ => false
  let tags :=
    match r.outcome with
    | .ok _ => ["% init:nothing-to-connect"]
    | .network =>
      ["% init:accepted", (if long then "% init:batch>20" else "% init:batch<=20"),
        (if batches.length > 1 then "% init:several-batches" else "% init:one-batch"),
        (if r.calls.length > batches.length then "% init:split-batch" else "% init:no-split"),
        (if r.initialised.length < (batches.map List.length).sum then "% init:duplicates-dropped"
         else "% init:no-duplicates")] ++
        r.calls.map fun c => "% arm:" ++ toString c.id.toNat ++ ":" ++ toString c.kind.toNat
    | .error (.validation _) => ["% init:validation-error"]
    | .error _ => ["% init:other-error"]
  tags ++ r.calls.flatMap (callLinesG tok disp long) ++ ["calls " ++ toString r.calls.length] ++
    sortLines (r.initialised.map (fun s => "isub " ++ subTokG tok s)) ++
    (match r.outcome with
     | .ok chans => ["res ok " ++ " ".intercalate (Chan.all.map fun f => toString (chans.get f).length)]
     | .network => ["res network"]
     | .error e => ["res err", "msg " ++ str (e.text kd)])

def initLines (batches : List (List (Subscr Inst))) : List String :=
  initLinesG instOps instTok Inst.display kindDisp batches

def initLinesK (batches : List (List (Subscr KInst))) : List String :=
  initLinesG kinstOps kinstTok KInst.display kindDispK batches

def model : Drv Unit where
  init := ()
  step s toks :=
    match toks with
    | "init" :: ts =>
      match parseBatches ts with
      | some batches => (s, initLines batches)
      | none => (s, ["bad-op"])
    | "initk" :: ts =>
      match parseBatchesG parseKSub ts with
      | some batches => (s, initLinesK batches)
      | none => (s, ["bad-op"])
    | _ => (s, ["bad-op"])

/-! ### spec: the documented table, the subscriptions as sets; nothing about order, grouping, URLs or policy -/

def specSupports (e : ExchangeId) (ik : IKC) (k : SubKind) : Bool :=
  documented e ik k || undocumentedExtra e ik k

def specValid (s : Subscr Inst) : Bool := specSupports s.exchange s.instrument.kind.cls s.kind

/-- keyed instruments: a subscription is what the caller wrote, key included (two keys for one market are two
subscriptions, one key for two markets likewise); supported = the market's kind class as before -/
def specValidK (s : Subscr KInst) : Bool := specSupports s.exchange s.instrument.value.kind.cls s.kind

def specLines {ι : Type} [DecidableEq ι] (valid : Subscr ι → Bool) (tok : ι → String)
    (batches : List (List (Subscr ι))) : List String :=
  if specAccepts valid batches then
    ["calls " ++ toString ((batches.map fun b => ((b.map Subscr.gkey).eraseDups).length).sum)] ++
      sortLines ((batches.flatMap nub).map (fun x => "isub " ++ subTokG tok x))
  else
    ["calls 0", "res err"]

def spec : Drv Unit where
  init := ()
  step s toks :=
    match toks with
    | "init" :: ts =>
      match parseBatches ts with
      | some batches =>
        if specAccepts specValid batches then
          -- every subscription of a batch, once per batch holding it, under its own exchange id and kind; one
          -- connection per distinct (exchange, kind) of a batch; nothing else
          -- written from `Spec` directly (`nub` = the subscriptions of a batch as a set; distinct keys by
          -- `eraseDups`), not through the model's sort keys
          (s, ["calls " ++ toString ((batches.map fun b => ((b.map Subscr.gkey).eraseDups).length).sum)] ++
            sortLines ((batches.flatMap nub).map (fun x => "isub " ++ subTok x)))
        else
          -- rejected, and nothing initialised
          (s, ["calls 0", "res err"])
      | none => (s, ["bad-op"])
    | "initk" :: ts =>
      match parseBatchesG parseKSub ts with
      | some batches => (s, specLines specValidK kinstTok batches)
      | none => (s, ["bad-op"])
    | _ => (s, ["bad-op"])

end BarterModel.Driver.C13D

def main (args : List String) : IO UInt32 :=
  BarterModel.Driver.runMain BarterModel.Driver.C13D.model BarterModel.Driver.C13D.spec args
