import BarterModel.Driver.Common
import BarterModel.Model.SubRequests
/-!
Line-protocol driver for sub-check C13Q (subscription requests).

Ops
* `sub <exchange> <kind> <inst>*` — the real `WebSocketSubMapper::map` on `Keyed<usize, MarketDataInstrument>`
  subscriptions of one `(connector, kind)` pair (instrument syntax as in C13: `base:quote:S|P|F<yyyymmdd>|
  O<yyyymmdd>:<strike>:<C|P>`), then `Connector::expected_responses(&map)`.
* `req <exchange> (=<channel> =<market>)*` — `Connector::requests` on arbitrary `ExchangeSub`s.
* `exp <exchange> <n>` — `Connector::expected_responses` on a map of `n` entries.
* `consts <exchange>` — `Connector::ID`, the URL constant, `Connector::url()`, `ping_interval()`,
  `subscription_timeout()`.
* `census` — how many connectors / `impl Connector` blocks / `impl ExchangeServer` blocks exist.

Observations: `nframes n`; per frame `frame i <verb> <ntopics>`, `topic i j =<chan> =<market>` (the venue-side
decoding of the frame), `raw i <json text>` (Gateio's `time` value replaced by `NOW`); `ids =id …` (`ExchangeSub::id`, `req` only); `map k=id …` (sorted by
instrument key); `expected n`; `id`, `url`, `parsed`, `scheme`, `host`, `hostvenue`, `ping`, `timeout`;
`connectors`, `impls`, `servers`. The model's `frame` / `topic` lines are the reading of the frame's JSON text by
`readText` (the model's venue-side reader of the text). The spec prints the keys the documented intent fixes,
computed from the op alone: `nframes` / `frame` / `topic` (`specFrames`), `map` (ids distinct), `expected` for
`sub` (documented acknowledgements of the request), `scheme` / `hostvenue` / `timeout`; not `ids`, not `expected`
for `exp`, not `id` / `url` / `parsed` / `host` / `ping` / `raw` / census keys (correspondence only).
-/
namespace BarterModel.Driver.C13Q
open BarterModel.Driver BarterModel.Connectors BarterModel.SubRequests

def s2 (s : Str) : String := String.ofList s

def parseExch (s : String) : Option Exch := allExch.find? fun e => s2 (idName e) == s

def parseKind : String → Option Kind
  | "trades" => some .publicTrades | "l1" => some .orderBooksL1
  | "l2" => some .orderBooksL2 | "liqs" => some .liquidations | _ => none

def parsePair (e k : String) : Option Pair := do
  let e ← parseExch e
  let k ← parseKind k
  let p : Pair := ⟨e, k⟩
  if supported.contains p then some p else none

def parseDate (s : String) : Option Date :=
  if s.length != 8 then none else do
    let y ← (s.take 4).toString.toNat?
    let m ← ((s.drop 4).take 2).toString.toNat?
    let d ← (s.drop 6).toString.toNat?
    let dt : Date := ⟨y, m, d⟩
    if dt.valid then some dt else none

def parseInst (s : String) : Option Inst :=
  match s.splitOn ":" with
  | [b, q, "S"] => some ⟨b.toList, q.toList, .spot⟩
  | [b, q, "P"] => some ⟨b.toList, q.toList, .perpetual⟩
  | [b, q, f] =>
    if f.startsWith "F" then (parseDate (f.drop 1).toString).map fun d => ⟨b.toList, q.toList, .future d⟩
    else none
  | [b, q, o, k, c] =>
    if o.startsWith "O" then do
      let d ← parseDate (o.drop 1).toString
      let k ← k.toNat?
      let c ← (match c with | "C" => some true | "P" => some false | _ => none)
      some ⟨b.toList, q.toList, .option d k c⟩
    else none
  | _ => none

def parseAll {α β} (f : α → Option β) : List α → Option (List β)
  | [] => some []
  | x :: xs => do let y ← f x; let ys ← parseAll f xs; some (y :: ys)

/-- `=text` (so that the empty string is a token) -/
def parseStr (s : String) : Option Str :=
  if s.startsWith "=" then some (s.drop 1).toString.toList else none

def parseESubs : List String → Option (List ESub)
  | [] => some []
  | c :: m :: rest => do
    let c ← parseStr c
    let m ← parseStr m
    let r ← parseESubs rest
    some (⟨c, m⟩ :: r)
  | _ => none

/-- insertion sort of map entries by key (keys are unique positions) -/
def sortByKey (m : IMap) : IMap :=
  m.foldl (fun acc e =>
    let (lo, hi) := acc.span (fun x => x.2 ≤ e.2)
    lo ++ e :: hi) []

def fmtMap (m : IMap) : String :=
  ("map " ++ " ".intercalate ((sortByKey m).map fun (id, k) => toString k ++ "=" ++ s2 id)).trimAscii.toString

def idxd {α} (l : List α) : List (Nat × α) := (List.range l.length).zip l

/-- `frame` and `topic` lines of a list of (verb, topics) -/
def fmtFrames (fs : List (Str × List Topic)) : List String :=
  ("nframes " ++ toString fs.length) ::
  (idxd fs).flatMap fun (i, (verb, ts)) =>
    ("frame " ++ toString i ++ " " ++ s2 verb ++ " " ++ toString ts.length) ::
    (idxd ts).map fun (j, t) =>
      "topic " ++ toString i ++ " " ++ toString j ++ " =" ++ s2 t.chan ++ " =" ++ s2 t.market

/-- `ExchangeSub::id` of every subscription handed in -/
def fmtIds (subs : List ESub) : String :=
  ("ids " ++ " ".intercalate (subs.map fun x => "=" ++ s2 x.id)).trimAscii.toString

/-- What the venue reads in a frame: the reading of the frame's JSON TEXT by the model's venue-side reader
(`readText`: lexer + documented grammar; theorem `venue_reads_the_text`: it equals `(w.verb, w.topics)`). The
`frame` / `topic` lines of the model are therefore a function of the same text the `raw` line shows, as the
harness' own lines are a function of the real text. -/
def readWire (e : Exch) (w : Wire) : Str × List Topic :=
  match readText (family e) w.text with
  | some r => r
  | none => ("unreadable".toList, [])

def fmtWires (e : Exch) (ws : List Wire) : List String :=
  fmtFrames (ws.map (readWire e)) ++
  (idxd ws).map fun (i, w) => "raw " ++ toString i ++ " " ++ s2 w.text

def famName (e : Exch) : String := s2 (venueName e)

def model : Drv Unit where
  init := ()
  step s toks :=
    match toks with
    | "sub" :: e :: k :: insts =>
      match parsePair e k, parseAll parseInst insts with
      | some p, some subs =>
        let plan := subscribe p subs
        let tag := "% sub " ++ famName p.exch ++
          (if subs.isEmpty then " empty" else if plan.map.length < subs.length then " duplicate-ids" else " distinct-ids") ++
          (if plan.expected == docAcks p.exch plan.sent then " expected=documented" else " expected!=documented")
        (s, fmtWires p.exch plan.sent ++ [fmtMap plan.map, "expected " ++ toString plan.expected, tag])
      | _, _ => (s, ["bad-op"])
    | "req" :: e :: rest =>
      match parseExch e, parseESubs rest with
      | some e, some subs =>
        let dec := subs.all fun x =>
          match family e with
          | .binance => !x.market.contains '@' && x.chan.head? == some '@'
          | .bitmex => !x.chan.contains ':'
          | .bybit => !x.chan.contains '.'
          | _ => true
        (s, fmtWires e (requests e subs) ++ [fmtIds subs,
          "% req " ++ famName e ++ (if subs.isEmpty then " empty" else if dec then " decodable" else " undecodable")])
      | _, _ => (s, ["bad-op"])
    | ["exp", e, n] =>
      match parseExch e, n.toNat? with
      | some e, some n => (s, ["expected " ++ toString (expected e n)])
      | _, _ => (s, ["bad-op"])
    | ["consts", e] =>
      match parseExch e with
      | some e =>
        (s, [ "id " ++ s2 (idName e),
              "url " ++ s2 (urlConst e),
              "parsed " ++ s2 (urlParsed e),
              "scheme " ++ s2 (urlScheme (urlConst e)),
              "host " ++ s2 (urlHost (urlConst e)),
              "hostvenue " ++ fmtBool (occursIn (venueName e) (urlHost (urlConst e))),
              (match pingInterval e with
               | none => "ping none"
               | some (ms, text) => "ping " ++ toString ms ++ " " ++ s2 text),
              "timeout " ++ toString (timeoutMs e) ])
      | none => (s, ["bad-op"])
    | ["census"] =>
      (s, [ "connectors " ++ toString allExch.length,
            "impls " ++ toString (allExch.map family).eraseDups.length,
            "servers " ++ toString (allExch.filter fun e =>
              match family e with | .binance | .bybit | .gateio => true | _ => false).length ])
    | _ => (s, ["bad-op"])

/-- `expected` line, where the quoted venue examples and the request determine the number -/
def specExpected (e : Exch) (n : Nat) (distinct : Bool) : List String :=
  match family e with
  | .bitmex => if n == 1 then ["expected 1"] else []   -- code and quoted payload disagree otherwise (see props/C13Q.py)
  | .binance | .bybit => ["expected " ++ toString (specAcks e n)]
  | _ => if distinct then ["expected " ++ toString (specAcks e n)] else []

def spec : Drv Unit where
  init := ()
  step s toks :=
    match toks with
    | "sub" :: e :: k :: insts =>
      match parsePair e k, parseAll parseInst insts with
      | some p, some subs =>
        if subs.all fun i => supports p i.kind then
          -- the venue's own naming (C13 spec): channel of the pair, symbol of the instrument
          let esubs : List ESub := subs.map fun i => ⟨venueChannel p, venueSymbol p.exch i⟩
          let ids := esubs.map ESub.id
          let distinct := decide ids.Nodup
          (s, fmtFrames (specFrames p.exch esubs) ++
              (if distinct then [fmtMap ((idxd ids).map fun (k, id) => (id, k))] else []) ++
              specExpected p.exch subs.length distinct)
        else (s, [])
      | _, _ => (s, ["bad-op"])
    | "req" :: e :: rest =>
      match parseExch e, parseESubs rest with
      | some e, some subs =>
        -- the venue-side decoding is only defined for names that do not contain the venue's separator
        let ok := subs.all fun x =>
          match family e with
          | .binance => !x.market.contains '@' && x.chan.head? == some '@'
          | .bitmex => !x.chan.contains ':'
          | .bybit => !x.chan.contains '.'
          | _ => true
        -- (`ids` = `ExchangeSub::id` is `channel|market` by definition: the spec would only repeat the model's
        -- `subId`; the key is compared impl-vs-model only)
        (s, (if ok then fmtFrames (specFrames e subs) else ["nframes " ++ toString (specFrameCount e subs.length)]))
      | _, _ => (s, ["bad-op"])
    | ["exp", e, n] =>
      -- `expected_responses` on a bare map size: there is no request whose documented acknowledgements could
      -- be counted; the 1 / n table is compared impl-vs-model only
      match parseExch e, n.toNat? with
      | some _, some _ => (s, [])
      | _, _ => (s, ["bad-op"])
    | ["consts", e] =>
      match parseExch e with
      | some _ => (s, ["scheme wss", "hostvenue 1", "timeout 10000"])
      | none => (s, ["bad-op"])
    | ["census"] => (s, [])
    | _ => (s, ["bad-op"])

end BarterModel.Driver.C13Q

def main (args : List String) : IO UInt32 :=
  BarterModel.Driver.runMain BarterModel.Driver.C13Q.model BarterModel.Driver.C13Q.spec args
