import BarterModel.Driver.Common
import BarterModel.Model.ExecManager
/-!
Line-protocol driver for C07. Ops:
  `init T n [m]`                  manager for exchange 0 with `n` instruments, request timeout `T` and `m`
                                  configured assets (default 0: no asset name is known)
  `open|cancel ex ins strat cid body delay reply fills eex eins estrat ecid ebody`
                                  request (key, body) + the scripted client's behaviour:
                                  `delay` = `never` | ticks, `reply` = `ok` | `rej` | `inv<i>` |
                                  `conn_timeout` | `conn_offline` | `conn_socket` (Connectivity error as the
                                  client's answer) | `ainv<a>` | `bal<a>` (AssetInvalid / BalanceInsufficient
                                  naming asset `a`) | `rate` | `acx` | `aff` (RateLimit, OrderAlreadyCancelled,
                                  OrderAlreadyFullyFilled),
                                  `fills` = 0|1, echoed key / body
  `adv dt`                        time advances, every timer fires in order (prompt polls)
  `jump dt`                       the clock jumps, then everything ready is polled once (late poll)
  `shutdown`
Observations per op: `nev k`, then `at …` (who the event is attributed to) and `ev …` (attribution,
body, outcome) for the events sent on the response channel during the op (sorted), then `status`.
-/
namespace BarterModel.Driver.C07
open BarterModel.Driver BarterModel.ExecManager

def kindStr : Kind → String
  | .open => "open"
  | .cancel => "cancel"

def outcomeStr : Outcome → String
  | .ok => "ok"
  | .full => "full"
  | .rejected => "rej"
  | .invalidIns i => s!"inv{i}"
  | .timeout => "timeout"
  | .offline => "offline"
  | .socket => "socket"
  | .assetInvalid a => s!"ainv{a}"
  | .balanceInsufficient a => s!"bal{a}"
  | .nameless .rateLimit => "rate"
  | .nameless .orderAlreadyCancelled => "acx"
  | .nameless .orderAlreadyFullyFilled => "aff"

def statusStr : Status → String
  | .running => "running"
  | .stopped => "stopped"
  | .panicked => "panic"

def atLine (e : Event) : String :=
  s!"at {kindStr e.kind} {e.exchange} {e.key.exchange} {e.key.instrument} {e.key.strategy} {e.key.cid}"

def evLine (e : Event) : String :=
  s!"ev {kindStr e.kind} {e.exchange} {e.key.exchange} {e.key.instrument} {e.key.strategy} {e.key.cid} {e.body} {outcomeStr e.outcome}"

def sortStrs (l : List String) : List String := l.mergeSort (fun a b => decide (a ≤ b))

def obsEvents (evs : List Event) (withFate : Bool) : List String :=
  [s!"nev {evs.length}"] ++ sortStrs (evs.map atLine) ++ (if withFate then sortStrs (evs.map evLine) else [])

def parseReply (s : String) : Option Reply :=
  if s == "ok" then some .ok
  else if s == "rej" then some .rejected
  else if s == "conn_timeout" then some (.connectivity .timeout)
  else if s == "conn_offline" then some (.connectivity .offline)
  else if s == "conn_socket" then some (.connectivity .socket)
  else if s == "rate" then some (.nameless .rateLimit)
  else if s == "acx" then some (.nameless .orderAlreadyCancelled)
  else if s == "aff" then some (.nameless .orderAlreadyFullyFilled)
  else if s.startsWith "inv" then ((s.drop 3).toString.toNat?).map .invalidIns
  else if s.startsWith "ainv" then ((s.drop 4).toString.toNat?).map .assetInvalid
  else if s.startsWith "bal" then ((s.drop 3).toString.toNat?).map .balanceInsufficient
  else none

def parseDelay (s : String) : Option (Option Nat) :=
  if s == "never" then some none else s.toNat?.map some

def parseBool (s : String) : Option Bool :=
  if s == "0" then some false else if s == "1" then some true else none

def parseReq (kind : Kind) : List String → Option ReqSpec
  | [ex, ins, strat, cid, body, delay, reply, fills, eex, eins, estrat, ecid, ebody] =>
    match ex.toNat?, ins.toNat?, strat.toNat?, cid.toNat?, body.toNat? with
    | some ex, some ins, some strat, some cid, some body =>
      match parseDelay delay, parseReply reply, parseBool fills with
      | some delay, some reply, some fills =>
        match eex.toNat?, eins.toNat?, estrat.toNat?, ecid.toNat?, ebody.toNat? with
        | some eex, some eins, some estrat, some ecid, some ebody =>
          -- cancels carry no static order fields
          if kind == .cancel && (body != 0 || ebody != 0 || fills) then none
          else some ⟨kind, ⟨ex, ins, strat, cid⟩, body, ⟨delay, reply, fills, ⟨eex, eins, estrat, ecid⟩, ebody⟩⟩
        | _, _, _, _, _ => none
      | _, _, _ => none
    | _, _, _, _, _ => none
  | _ => none

inductive Op
  | init (t n m : Nat)
  | req (q : ReqSpec)
  /-- the request is put on the manager's request channel and the sender does NOT yield: the manager
  sees it only together with whatever the following ops send (a burst within one wake-up) -/
  | reqBurst (q : ReqSpec)
  | adv (dt : Nat)
  | jump (dt : Nat)
  | shutdown

def parseOp : List String → Option Op
  | ["init", t, n] =>
    match t.toNat?, n.toNat? with
    | some t, some n => some (.init t n 0)
    | _, _ => none
  | ["init", t, n, m] =>
    match t.toNat?, n.toNat?, m.toNat? with
    | some t, some n, some m => some (.init t n m)
    | _, _, _ => none
  | "open" :: rest => (parseReq .open rest).map .req
  | "cancel" :: rest => (parseReq .cancel rest).map .req
  | "open+" :: rest => (parseReq .open rest).map .reqBurst
  | "cancel+" :: rest => (parseReq .cancel rest).map .reqBurst
  | ["adv", dt] => dt.toNat?.map .adv
  | ["jump", dt] => dt.toNat?.map .jump
  | ["shutdown"] => some .shutdown
  | _ => none

/-! ### concrete model -/

structure MSt where
  cfg : Cfg
  s : State

def mObs (old : State) (s : State) : List String :=
  obsEvents (s.out.drop old.out.length) true ++ [s!"status {statusStr s.status}"]

def model : Drv MSt where
  init := ⟨⟨0, 0, 0, 0⟩, init⟩
  step m toks :=
    match parseOp toks with
    | none => (m, ["bad-op"])
    | some (.init t n na) =>
      let m' : MSt := ⟨⟨0, n, t, na⟩, init⟩
      (m', mObs m'.s m'.s)
    | some (.req q) =>
      let s1 := run m.cfg m.s [.intake q]
      let s2 := run m.cfg s1 (settleSched m.cfg s1)
      (⟨m.cfg, s2⟩, mObs m.s s2)
    | some (.reqBurst q) =>
      -- intake order = send order (one FIFO request channel); nothing is polled before the burst ends
      let s1 := run m.cfg m.s [.intake q]
      (⟨m.cfg, s1⟩, mObs m.s s1)
    | some (.adv dt) =>
      let s1 := run m.cfg m.s (promptSched m.cfg m.s dt)
      (⟨m.cfg, s1⟩, mObs m.s s1)
    | some (.jump dt) =>
      let s1 := run m.cfg m.s (lateSched m.cfg m.s dt)
      (⟨m.cfg, s1⟩, mObs m.s s1)
    | some .shutdown =>
      let s1 := run m.cfg m.s [.shutdown]
      (⟨m.cfg, s1⟩, mObs m.s s1)

/-! ### abstract spec: a function of the history of accepted requests -/

structure SReq where
  t0 : Nat
  q : ReqSpec
  answered : Bool

structure SSt where
  cfg : Cfg
  now : Nat
  running : Bool
  /-- a request for a key the manager is not configured with was sent: nothing is claimed afterwards -/
  broken : Bool
  reqs : List SReq

/-- requests whose answer is due by `t` -/
def sDue (T : Nat) (t : Nat) (r : SReq) : Bool :=
  !r.answered && decide (r.t0 + specAfter T r.q ≤ t)

/-- late poll: the response arrived after the timeout but before anybody looked -/
def sAmbiguous (T : Nat) (t : Nat) (r : SReq) : Bool :=
  match r.q.script.delay with
  | some d => decide (T < d) && decide (r.t0 + d ≤ t)
  | none => false

def sEmit (s : SSt) (t : Nat) (late : Bool) : SSt × List String :=
  let T := s.cfg.timeout
  let due := s.reqs.filter (sDue T t)
  let reqs := s.reqs.map fun r => if sDue T t r then { r with answered := true } else r
  let s' := { s with now := t, reqs := reqs }
  if due.any (fun r => !echoes s.cfg r.q) then (s', [])
  else
    let evs := due.map fun r => specEvent r.q (specFate T r.q)
    let fateKnown := !(late && due.any (sAmbiguous T t))
    (s', obsEvents evs fateKnown)

def spec : Drv SSt where
  init := ⟨⟨0, 0, 0, 0⟩, 0, false, true, []⟩
  step s toks :=
    match parseOp toks with
    | none => (s, ["bad-op"])
    | some (.init t n na) => (⟨⟨0, n, t, na⟩, 0, true, false, []⟩, ["nev 0"])
    | some (.req q) =>
      if !s.running || s.broken then (s, [])
      else if !s.cfg.configured q.key then ({ s with broken := true }, [])
      else sEmit { s with reqs := s.reqs ++ [⟨s.now, q, false⟩] } s.now false
    | some (.reqBurst q) =>
      -- registered at the current instant; what is due is stated at the next op that lets the manager run
      if !s.running || s.broken then (s, [])
      else if !s.cfg.configured q.key then ({ s with broken := true }, [])
      else ({ s with reqs := s.reqs ++ [⟨s.now, q, false⟩] }, [])
    | some (.adv dt) =>
      if !s.running || s.broken then (s, []) else sEmit s (s.now + dt) false
    | some (.jump dt) =>
      if !s.running || s.broken then (s, []) else sEmit s (s.now + dt) true
    | some .shutdown => ({ s with running := false }, [])

end BarterModel.Driver.C07

def main (args : List String) : IO UInt32 :=
  BarterModel.Driver.runMain BarterModel.Driver.C07.model BarterModel.Driver.C07.spec args
