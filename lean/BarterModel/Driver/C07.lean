import BarterModel.Driver.Common
import BarterModel.Model.ExecManager
/-!
Line-protocol driver for C07. Ops:
  `init T n [m [x]]`              manager for exchange `x` (default 0 = the first exchange of the system; at
                                  most 3: exchange index and exchange id are the same number) with `n`
                                  instruments, request timeout `T` and `m` configured assets (default 0: no
                                  asset name is known)
  `open|cancel ex ins strat cid body delay reply fills eex eins estrat ecid ebody [oid tex]`
                                  request (key, body) + the scripted client's behaviour:
                                  `body`  = code of the request's state. Opens: the static fields
                                            `base = body % 6` → side (even Buy / odd Sell), price `base`,
                                            quantity `base + 1`; `(body / 6) % 2` → Limit / Market;
                                            `(body / 12) % 5` → GTC / GTC post-only / GoodUntilEndOfDay /
                                            FillOrKill / ImmediateOrCancel (codes 0..5 are the Limit / GTC
                                            orders of the first corpus); codes 60..219: price / quantity
                                            `exotic ((body - 60) % 8)` (the smallest unit, 1e12, a negative
                                            price, quantity zero, many digits, huge x tiny, 1e15, a negative
                                            quantity), side / kind / time in force from `(body - 60) / 8`,
                                            `/ 16`, `/ 32`. Cancels: the
                                            `RequestCancel { id }`: 0 = `None`, k+1 = `Some("o<k>")`.
                                  `delay` = `never` | ticks, `reply` = `ok` | `rej` | `inv<i>` |
                                  `conn_timeout` | `conn_offline` | `conn_socket` (Connectivity error as the
                                  client's answer) | `ainv<a>` | `bal<a>` (AssetInvalid / BalanceInsufficient
                                  naming asset `a`) | `rate` | `acx` | `aff` (RateLimit, OrderAlreadyCancelled,
                                  OrderAlreadyFullyFilled),
                                  `fills` = filled quantity of an accepted open, as a code relative to the
                                  quantity of the ECHOED order: 0 nothing, 1 all of it, 2 half of it (a partial
                                  fill), 3 quantity + 1 (over-fill), 4 quantity - 1e-8 (all but the smallest
                                  unit), 5 quantity + 1e-8; 0 for cancels,
                                  echoed key / echoed body (static fields the client puts into its answer),
                                  `oid tex` (optional, default `0 0`: the first corpus) = payload of the answer:
                                  order id `o<oid>`, exchange time `tex` ms; the text inside an error is
                                  `m<oid>`, the exchange inside `ExchangeOffline` is exchange id `oid % 4`.
  `open+|cancel+ …`               the same, sent without yielding (a burst: the manager sees it only at the
                                  next op that is not part of a burst)
  `adv dt`                        time advances, every timer fires in order (prompt polls)
  `jump dt`                       the clock jumps, then everything ready is polled once (late poll)
  `shutdown`
  `close`                         the request channel is closed (every sender dropped) = `shutdown` for model and spec
  `init T n m x new|ip|il|ie`     configuration shape of the real manager (see harness/src/bin/c07.rs); ignored here
Observations per op:
  `fwd <kind> x<exchange id> ins<name> <strat> <cid> <state>`   one per request the manager handed to the client
        during the op, in intake order (`<state>` = `B|S:price:qty:L|M:tif` / `id:-` / `id:o<k>`),
  `nev k`, then for the events sent on the response channel during the op (each family sorted)
  `at <kind> <event exchange> <key exchange> <ins> <strat> <cid>`                 who the event is attributed to,
  `ev <kind> <event exchange> <key exchange> <ins> <strat> <cid> <fields> <outcome>`   attribution, static
        fields (`-` for cancels), outcome WITH the payload the event carries (`ok:o<id>:<t>:<filled>`, `full`,
        `ok:o<id>:<t>` for cancels, `rej:m<k>`, `inv<i>:m<k>`, `ainv<a>:m<k>`, `bal<a>:m<k>`, `socket:m<k>`,
        `offline:x<e>`, `timeout`, `rate`, `acx`, `aff`),
  `for:<kind>:<key exchange>:<ins>:<strat>:<cid> <event exchange> <fields> <outcome>`   the same events keyed by
        the identity they are attributed to (so that the spec can constrain one identity and stay silent on
        another),
  then `status`.
-/
namespace BarterModel.Driver.C07
open BarterModel.Driver BarterModel.ExecManager

def kindStr : Kind → String
  | .open => "open"
  | .cancel => "cancel"

def outcomeStr : Outcome → String
  | .ok => "ok"
  | .full => "full"
  | .rejected => "rej"
  | .invalidIns i => s!"inv{i}"
  | .timeout => "timeout"
  | .offline => "offline"
  | .socket => "socket"
  | .assetInvalid a => s!"ainv{a}"
  | .balanceInsufficient a => s!"bal{a}"
  | .nameless .rateLimit => "rate"
  | .nameless .orderAlreadyCancelled => "acx"
  | .nameless .orderAlreadyFullyFilled => "aff"

def detailStr : Detail → String
  | .none => ""
  | .opened id t f => s!":o{id}:{t}:{fmtRat f}"
  | .cancelled id t => s!":o{id}:{t}"
  | .message m => s!":m{m}"
  | .offlineAt x => s!":x{x}"

def statusStr : Status → String
  | .running => "running"
  | .stopped => "stopped"
  | .panicked => "panic"

/-! ### the `body` code (shared with `harness/src/bin/c07.rs` `body_fields`) -/

def bodyBase (b : Nat) : Nat := b % 6

/-- number of `body` codes of an open (`BODY_CODES` of the harness) -/
def bodyCodes : Nat := 60 + 160

/-- 1e-8 -/
def smallestUnit : Rat := (1 : Rat) / 100000000

/-- (price, quantity) of the body codes ≥ 60 (`EXOTIC` of the harness) -/
def exotic (k : Nat) : Rat × Rat :=
  match k % 8 with
  | 0 => (smallestUnit, smallestUnit)
  | 1 => (1000000000000, 1000000000000)
  | 2 => (-(7 : Rat) / 2, (9 : Rat) / 4)
  | 3 => ((1 : Rat) / 2, 0)
  | 4 => ((123456789 : Rat) / 1000, (1 : Rat) / 1000)
  | 5 => (1000000000000, smallestUnit)
  | 6 => (1, 1000000000000000)
  | _ => (0, -1)

/-- price of the order with static-field code `b` -/
def bodyPrice (b : Nat) : Rat :=
  if b ≥ 60 then (exotic (b - 60)).1 else ((bodyBase b : Nat) : Rat)

/-- quantity of the order with static-field code `b` -/
def bodyQty (b : Nat) : Rat :=
  if b ≥ 60 then (exotic (b - 60)).2 else ((bodyBase b + 1 : Nat) : Rat)

def openFields (b : Nat) : String :=
  let sideOf (k : Nat) := if k % 2 == 0 then "B" else "S"
  let kindOf (k : Nat) := if k % 2 == 0 then "L" else "M"
  let tifOf (k : Nat) := match k % 5 with
    | 0 => "G0" | 1 => "G1" | 2 => "D" | 3 => "F" | _ => "I"
  let (side, kind, tif) :=
    if b ≥ 60 then (sideOf ((b - 60) / 8), kindOf ((b - 60) / 16), tifOf ((b - 60) / 32))
    else (sideOf (bodyBase b), kindOf (b / 6), tifOf (b / 12))
  s!"{side}:{fmtRat (bodyPrice b)}:{fmtRat (bodyQty b)}:{kind}:{tif}"

def cancelId (b : Nat) : String := if b == 0 then "id:-" else s!"id:o{b - 1}"

def fieldsTok (k : Kind) (body : Nat) : String :=
  match k with
  | .open => openFields body
  | .cancel => "-"

def fwdLine (f : Forwarded) : String :=
  let st := match f.kind with
    | .open => openFields f.body
    | .cancel => cancelId f.body
  s!"fwd {kindStr f.kind} x{f.exchange} ins{f.instrument} {f.strategy} {f.cid} {st}"

/-- an event together with the payload it carries -/
abbrev EvD := Event × Detail

def identStr (e : Event) : String :=
  s!"{kindStr e.kind}:{e.key.exchange}:{e.key.instrument}:{e.key.strategy}:{e.key.cid}"

def atLine (e : Event) : String :=
  s!"at {kindStr e.kind} {e.exchange} {e.key.exchange} {e.key.instrument} {e.key.strategy} {e.key.cid}"

/-- `<fields> <outcome>` -/
def tailToks (x : EvD) : List String :=
  [fieldsTok x.1.kind x.1.body, outcomeStr x.1.outcome ++ detailStr x.2]

def evPrefix (e : Event) : String :=
  s!"ev {kindStr e.kind} {e.exchange} {e.key.exchange} {e.key.instrument} {e.key.strategy} {e.key.cid}"

def evLine (x : EvD) : String := " ".intercalate (evPrefix x.1 :: tailToks x)

def forLine (x : EvD) : String :=
  " ".intercalate ([s!"for:{identStr x.1}", toString x.1.exchange] ++ tailToks x)

def sortStrs (l : List String) : List String := l.mergeSort (fun a b => decide (a ≤ b))

def obsEvents (evs : List EvD) : List String :=
  [s!"nev {evs.length}"] ++ sortStrs (evs.map fun x => atLine x.1) ++ sortStrs (evs.map evLine) ++
    sortStrs (evs.map forLine)

def parseReply (s : String) : Option Reply :=
  if s == "ok" then some .ok
  else if s == "rej" then some .rejected
  else if s == "conn_timeout" then some (.connectivity .timeout)
  else if s == "conn_offline" then some (.connectivity .offline)
  else if s == "conn_socket" then some (.connectivity .socket)
  else if s == "rate" then some (.nameless .rateLimit)
  else if s == "acx" then some (.nameless .orderAlreadyCancelled)
  else if s == "aff" then some (.nameless .orderAlreadyFullyFilled)
  else if s.startsWith "inv" then ((s.drop 3).toString.toNat?).map .invalidIns
  else if s.startsWith "ainv" then ((s.drop 4).toString.toNat?).map .assetInvalid
  else if s.startsWith "bal" then ((s.drop 3).toString.toNat?).map .balanceInsufficient
  else none

def parseDelay (s : String) : Option (Option Nat) :=
  if s == "never" then some none else s.toNat?.map some

/-- `fills` code → filled quantity, given the quantity of the echoed order -/
def parseFills (s : String) (q : Rat) : Option Rat :=
  if s == "0" then some 0 else if s == "1" then some q else if s == "2" then some (q / 2)
  else if s == "3" then some (q + 1) else if s == "4" then some (q - smallestUnit)
  else if s == "5" then some (q + smallestUnit) else none

/-- a request and the payload of the scripted client's answer to it -/
structure PReq where
  q : ReqSpec
  p : Payload

def parseReq (kind : Kind) (toks : List String) : Option PReq :=
  let go (ex ins strat cid body delay reply fills eex eins estrat ecid ebody oid tex : String) : Option PReq :=
    match ex.toNat?, ins.toNat?, strat.toNat?, cid.toNat?, body.toNat? with
    | some ex, some ins, some strat, some cid, some body =>
      match parseDelay delay, parseReply reply, oid.toNat?, tex.toNat? with
      | some delay, some reply, some oid, some tex =>
        match eex.toNat?, eins.toNat?, estrat.toNat?, ecid.toNat?, ebody.toNat? with
        | some eex, some eins, some estrat, some ecid, some ebody =>
          match parseFills fills (bodyQty ebody) with
          | none => none
          | some filled =>
            -- cancels carry no static order fields and report no fill
            if kind == .cancel && (ebody != 0 || fills != "0") then none
            else if kind == .open && (body ≥ bodyCodes || ebody ≥ bodyCodes) then none
            else
              -- `fills` of the model: nothing is left to fill of the ECHOED order (manager.rs:381)
              let nothing := kind == .open && nothingLeft (bodyQty ebody) filled
              some ⟨⟨kind, ⟨ex, ins, strat, cid⟩, body, ⟨delay, reply, nothing, ⟨eex, eins, estrat, ecid⟩, ebody⟩⟩,
                    ⟨oid, tex, filled, oid % 4⟩⟩
        | _, _, _, _, _ => none
      | _, _, _, _ => none
    | _, _, _, _, _ => none
  match toks with
  | [ex, ins, strat, cid, body, delay, reply, fills, eex, eins, estrat, ecid, ebody] =>
    go ex ins strat cid body delay reply fills eex eins estrat ecid ebody "0" "0"
  | [ex, ins, strat, cid, body, delay, reply, fills, eex, eins, estrat, ecid, ebody, oid, tex] =>
    go ex ins strat cid body delay reply fills eex eins estrat ecid ebody oid tex
  | _ => none

/-- tokio's timers reach 2^36 ms (the documented maximum of `tokio::time::sleep`, about 2.2 years): a request
timeout or a time step of this many ticks (10 ms) or more is rejected (`MAX_TICKS` in harness/src/bin/c07.rs) -/
def maxTicks : Nat := 6800000000

inductive Op
  | init (t n m x : Nat)
  | req (q : PReq)
  /-- the request is put on the manager's request channel and the sender does NOT yield: the manager
  sees it only together with whatever the following ops send (a burst within one wake-up) -/
  | reqBurst (q : PReq)
  | adv (dt : Nat)
  | jump (dt : Nat)
  | shutdown

def parseOp : List String → Option Op
  | ["init", t, n] =>
    match t.toNat?, n.toNat? with
    | some t, some n => if t < maxTicks then some (.init t n 0 0) else none
    | _, _ => none
  | ["init", t, n, m] =>
    match t.toNat?, n.toNat?, m.toNat? with
    | some t, some n, some m => if t < maxTicks then some (.init t n m 0) else none
    | _, _, _ => none
  | ["init", t, n, m, x] =>
    match t.toNat?, n.toNat?, m.toNat?, x.toNat? with
    | some t, some n, some m, some x => if x < 4 && t < maxTicks then some (.init t n m x) else none
    | _, _, _, _ => none
  -- CONFIGURATION shape (how the manager is assembled: `ExecutionManager::new`, or `ExecutionManager::init` with a
  -- pending / live / ending account stream): nothing the property - hence model and spec - depends on
  | ["init", t, n, m, x, mode] =>
    if !["new", "ip", "il", "ie"].contains mode then none else
    match t.toNat?, n.toNat?, m.toNat?, x.toNat? with
    | some t, some n, some m, some x => if x < 4 && t < maxTicks then some (.init t n m x) else none
    | _, _, _, _ => none
  | "open" :: rest => (parseReq .open rest).map .req
  | "cancel" :: rest => (parseReq .cancel rest).map .req
  | "open+" :: rest => (parseReq .open rest).map .reqBurst
  | "cancel+" :: rest => (parseReq .cancel rest).map .reqBurst
  | ["adv", dt] => (dt.toNat?.filter (· < maxTicks)).map .adv
  | ["jump", dt] => (dt.toNat?.filter (· < maxTicks)).map .jump
  | ["shutdown"] => some .shutdown
  -- the request channel is closed (the request stream ends): the manager stops as it does on `Shutdown`
  | ["close"] => some .shutdown
  | _ => none

/-! ### concrete model -/

structure MSt where
  cfg : Cfg
  s : State
  /-- payload of the client's answer to the accepted request with intake number `rid` -/
  payloads : List Payload
  /-- `fwd` lines of a burst: the client is called when the manager runs, i.e. during the next op that
  is not part of the burst -/
  deferred : List String

/-- the events sent during the op with their payloads: `out` grows by the events of the new
resolutions (`Inv.out`, Lemmas/ExecManager.lean) -/
def newEvents (cfg : Cfg) (payloads : List Payload) (old s : State) : List EvD :=
  (s.resolved.drop old.resolved.length).filterMap fun x =>
    (eventOf cfg x.req x.fate).map fun e => (e, detailOf x.req.spec (payloads.getD x.req.rid {}) x.fate)

def mObs (m : MSt) (fwd : List String) (s : State) : List String :=
  let evs := newEvents m.cfg m.payloads m.s s
  fwd ++ (if evs.map (·.1) == s.out.drop m.s.out.length then obsEvents evs else ["model-inconsistent"]) ++
    [s!"status {statusStr s.status}"]

/-- intake of one request: the state after it, the payload table, the `fwd` line (if the client is called) -/
def mIntake (m : MSt) (q : PReq) : State × List Payload × List String :=
  let s1 := run m.cfg m.s [.intake q.q]
  let payloads := if s1.accepted.length > m.s.accepted.length then m.payloads ++ [q.p] else m.payloads
  (s1, payloads, (forwarded m.cfg m.s (.intake q.q)).map fwdLine)

def model : Drv MSt where
  init := ⟨⟨0, 0, 0, 0⟩, init, [], []⟩
  step m toks :=
    match parseOp toks with
    | none => (m, ["bad-op"])
    | some (.init t n na x) =>
      let m' : MSt := ⟨⟨x, n, t, na⟩, init, [], []⟩
      (m', mObs m' [] m'.s)
    | some (.req q) =>
      let (s1, payloads, fwd) := mIntake m q
      let m1 : MSt := { m with payloads := payloads }
      let s2 := run m.cfg s1 (settleSched m.cfg s1)
      (⟨m.cfg, s2, payloads, []⟩, mObs m1 (m.deferred ++ fwd) s2)
    | some (.reqBurst q) =>
      -- intake order = send order (one FIFO request channel); nothing is polled before the burst ends
      let (s1, payloads, fwd) := mIntake m q
      (⟨m.cfg, s1, payloads, m.deferred ++ fwd⟩, mObs { m with payloads := payloads } [] s1)
    | some (.adv dt) =>
      let s1 := run m.cfg m.s (promptSched m.cfg m.s dt)
      ({ m with s := s1, deferred := [] }, mObs m m.deferred s1)
    | some (.jump dt) =>
      let s1 := run m.cfg m.s (lateSched m.cfg m.s dt)
      ({ m with s := s1, deferred := [] }, mObs m m.deferred s1)
    | some .shutdown =>
      let s1 := run m.cfg m.s [.shutdown]
      ({ m with s := s1, deferred := [] }, mObs m m.deferred s1)

/-! ### abstract spec: a function of the history of accepted requests

The spec states, per op, what the property demands of the requests whose answer is due in that op.
It is silent exactly where the text says nothing:
* after `shutdown` ("while running") and after a request for a key the manager is not configured with;
* about the ONE event of a request whose client does not echo it (hypothesis `EchoesKey`) AND whose
  answer is actually used (it arrives within the timeout, or a late poll may have let it win): the code
  then emits no event or one attributed to the echoed key, so the identity the answer is attributed to
  is not constrained in that op and the event count is constrained to a range. Every other request due
  in the same op is constrained (`for:` lines). A non-echoing client that never answers in time is a plain
  manager timeout and fully constrained;
* about WHICH of the two events (response / timeout failure) a request yields whose response arrived
  after the timeout but before anybody looked (`jump`: late poll): both are admitted, as alternatives. -/

structure SReq where
  t0 : Nat
  q : ReqSpec
  p : Payload
  answered : Bool

structure SSt where
  cfg : Cfg
  now : Nat
  running : Bool
  /-- a request for a key the manager is not configured with was sent: nothing is claimed afterwards -/
  broken : Bool
  reqs : List SReq
  /-- `fwd` lines of a burst, stated at the next op that lets the manager run -/
  deferred : List String

/-- requests whose answer is due by `t` -/
def sDue (T : Nat) (t : Nat) (r : SReq) : Bool :=
  !r.answered && decide (r.t0 + specAfter T r.q ≤ t)

/-- late poll: the response arrived after the timeout but before anybody looked -/
def sAmbiguous (T : Nat) (t : Nat) (r : SReq) : Bool :=
  match r.q.script.delay with
  | some d => decide (T < d) && decide (r.t0 + d ≤ t)
  | none => false

/-- the client's answer does not echo the request AND is (or may be) the one that is used -/
def sTainted (cfg : Cfg) (t : Nat) (late : Bool) (r : SReq) : Bool :=
  !echoes cfg r.q && (specFate cfg.timeout r.q == .response || (late && sAmbiguous cfg.timeout t r))

/-- the events the property admits for a (non-tainted) request due in this op -/
def sAlternatives (cfg : Cfg) (t : Nat) (late : Bool) (r : SReq) : List EvD :=
  let one (f : Fate) : EvD := (specEvent r.q f, specDetail r.q r.p f)
  if late && sAmbiguous cfg.timeout t r then [one .timeout, one .response]
  else [one (specFate cfg.timeout r.q)]

/-- all ways of picking one alternative per request -/
def arrangements : List (List EvD) → List (List EvD)
  | [] => [[]]
  | alts :: rest => (arrangements rest).flatMap fun tl => alts.map fun a => a :: tl

def dedupS (l : List String) : List String :=
  l.foldl (fun acc x => if acc.contains x then acc else acc ++ [x]) []

def altTok (l : List String) : String :=
  match dedupS l with
  | [one] => one
  | many => "{" ++ "|".intercalate many ++ "}"

/-- One identity group (requests due in this op whose events carry the same kind and key): the sorted
`<fields> <outcome>` tails, position by position; a position at which the admissible arrangements
differ becomes a `{a|b}` token. `none`: too many late-poll alternatives to enumerate. -/
def groupTails (alts : List (List EvD)) : Option (List (List String)) :=
  if (alts.filter fun a => a.length > 1).length > 4 then none else
  let arrs := (arrangements alts).map fun arr => sortStrs (arr.map fun x => " ".intercalate (tailToks x))
  let n := alts.length
  some ((List.range n).map fun j =>
    let lines := arrs.map fun a => ((a.getD j "").splitOn " ")
    (List.range 2).map fun k => altTok (lines.map fun l => l.getD k ""))

structure Group where
  /-- the event every member's alternatives share up to body / outcome -/
  rep : Event
  tails : Option (List (List String))

def groupsOf (cfg : Cfg) (t : Nat) (late : Bool) (clean : List SReq) : List Group :=
  let idents := dedupS (clean.map fun r => evPrefix (specTimeoutEvent r.q))
  (sortStrs (idents.map fun s => s ++ " ")).filterMap fun pfx =>
    let members := clean.filter fun r => evPrefix (specTimeoutEvent r.q) ++ " " == pfx
    match members with
    | [] => none
    | r :: _ => some ⟨specTimeoutEvent r.q, groupTails (members.map (sAlternatives cfg t late))⟩

def rangeTok (lo hi : Nat) : String :=
  if lo == hi then toString lo else "{" ++ "|".intercalate ((List.range (hi - lo + 1)).map fun k => toString (lo + k)) ++ "}"

def sEmit (s : SSt) (t : Nat) (late : Bool) : SSt × List String :=
  let T := s.cfg.timeout
  let due := s.reqs.filter (sDue T t)
  let reqs := s.reqs.map fun r => if sDue T t r then { r with answered := true } else r
  let s' := { s with now := t, reqs := reqs, deferred := [] }
  let tainted := due.filter (sTainted s.cfg t late)
  let clean := due.filter fun r => !sTainted s.cfg t late r
  -- identities a non-echoing answer may be attributed to: nothing is claimed about them in this op
  let silenced := tainted.map fun r => s!"{kindStr r.q.kind}:{r.q.script.echo.exchange}:{r.q.script.echo.instrument}:{r.q.script.echo.strategy}:{r.q.script.echo.cid}"
  let groups := groupsOf s.cfg t late clean
  let forLines := (groups.filter fun g => !silenced.contains (identStr g.rep)).flatMap fun g =>
    match g.tails with
    | none => []
    | some tails => tails.map fun tl => " ".intercalate ([s!"for:{identStr g.rep}", toString g.rep.exchange] ++ tl)
  let lines :=
    if tainted.isEmpty then
      [s!"nev {due.length}"] ++ sortStrs (clean.map fun r => atLine (specTimeoutEvent r.q)) ++
      (if groups.all (·.tails.isSome) then
        groups.flatMap fun g => (g.tails.getD []).map fun tl => " ".intercalate (evPrefix g.rep :: tl)
       else [])
    else [s!"nev {rangeTok clean.length due.length}"]
  (s', s.deferred ++ lines ++ forLines)

def sFwd (s : SSt) (q : PReq) : String := fwdLine (specForward s.cfg q.q)

def spec : Drv SSt where
  init := ⟨⟨0, 0, 0, 0⟩, 0, false, true, [], []⟩
  step s toks :=
    match parseOp toks with
    | none => (s, ["bad-op"])
    | some (.init t n na x) => (⟨⟨x, n, t, na⟩, 0, true, false, [], []⟩, ["nev 0"])
    | some (.req q) =>
      if !s.running || s.broken then (s, [])
      else if !s.cfg.configured q.q.key then ({ s with broken := true }, [])
      else sEmit { s with reqs := s.reqs ++ [⟨s.now, q.q, q.p, false⟩], deferred := s.deferred ++ [sFwd s q] } s.now false
    | some (.reqBurst q) =>
      -- registered at the current instant; what is due (and what the client was asked) is stated at the
      -- next op that lets the manager run; nothing can arrive while the manager does not run
      if !s.running || s.broken then (s, [])
      else if !s.cfg.configured q.q.key then ({ s with broken := true }, [])
      else ({ s with reqs := s.reqs ++ [⟨s.now, q.q, q.p, false⟩], deferred := s.deferred ++ [sFwd s q] }, ["nev 0"])
    | some (.adv dt) =>
      if !s.running || s.broken then (s, []) else sEmit s (s.now + dt) false
    | some (.jump dt) =>
      if !s.running || s.broken then (s, []) else sEmit s (s.now + dt) true
    | some .shutdown => ({ s with running := false }, [])

end BarterModel.Driver.C07

def main (args : List String) : IO UInt32 :=
  BarterModel.Driver.runMain BarterModel.Driver.C07.model BarterModel.Driver.C07.spec args
