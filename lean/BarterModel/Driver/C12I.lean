import BarterModel.Driver.Common
import BarterModel.Model.MarketStreamInit
/-!
Line-protocol driver for C12I (`init_market_stream`, sub-check of C12).

State: scripted exchange (`mock` | `simulated`: the `ExchangeId` of the harness's connector), policy,
consumption mode, number of subscriptions, script of `MarketStream::init` outcomes so far.
  `exchange mock|simulated`                      (no observation)
  `policy default`  |  `policy <initial> <mult> <max>`   → `policy <initial> <mult> <max>` (model only; `default` =
                                                    `STREAM_RECONNECTION_POLICY`)
  `mode events | handler`                        (no observation; `handler` appends `.with_error_handler(..)`)
  `subs <n>`                                     (no observation; number of subscriptions handed over)
  `conn fail`  |  `conn ok <elem>* [hang]`   `<elem>` = `i<x>` item, `T<id>` `InvalidSequence` (terminal), `e<id>` `Socket`,
        `m<id>` `InitialSnapshotMissing`, `v<id>` `InitialSnapshotInvalid`, `n<id>` `Index`, `s0` `SubscriptionsEmpty`,
        `k<0..5>` `UnsupportedSubKind(SubKind #id)`, `u<0..11>` `Unsupported { mock | simulated, SubKind #(id % 6) }`
        (all non-terminal), `d<ms>` latency.
        Appends one `init` outcome and prints the whole run of `init_market_stream` on the script so far:
           `ev att <t> <nsubs>` | `ev item <x> <t>` | `ev err <k><id> <t>` | `ev notice <origin> <t>` | `ev handled <k><id> <t>`
           `evn <number of ev lines>`
           `fin no-subscriptions | init-pending | init-error | pending | ended`
-/
namespace BarterModel.Driver.C12I
open BarterModel.Driver BarterModel.Streams BarterModel.MarketStreamInit

def parseElem (s : String) : Option MElem :=
  let body := (s.drop 1).toString
  match s.front, body.toNat? with
  | 'i', some n => some (.item n)
  | 'T', some n => some (.error .invalidSequence n)
  | 'e', some n => some (.error .socket n)
  | 'm', some n => some (.error .snapshotMissing n)
  | 'v', some n => some (.error .snapshotInvalid n)
  | 'n', some n => some (.error .index n)
  -- `SubscriptionsEmpty` has no payload
  | 's', some 0 => some (.error .subscriptionsEmpty 0)
  -- the payload is a `SubKind` (six variants)
  | 'k', some n => if n < 6 then some (.error .unsupportedSubKind n) else none
  -- the payload is (mock | simulated) x `SubKind`
  | 'u', some n => if n < 12 then some (.error .unsupported n) else none
  | 'd', some n => some (.delay n)
  | _, _ => none

def parseElems : List String → Option (List MElem × Bool)
  | [] => some ([], false)
  | ["hang"] => some ([], true)
  | t :: r =>
    match parseElem t, parseElems r with
    | some e, some (es, h) => some (e :: es, h)
    | _, _ => none

def parseConn : List String → Option MConn
  | ["fail"] => some .initFail
  | "ok" :: r => (parseElems r).map fun (es, h) => .initOk es h
  | _ => none

def exchName : Nat → String
  | 0 => "mock"
  | _ => "simulated"

def parseExch : String → Option Nat
  | "mock" => some 0
  | "simulated" => some 1
  | _ => none

def fmtErr (code : Nat) : String :=
  (match errKindOf code with
    | .invalidSequence => "T" | .socket => "e" | .snapshotMissing => "m" | .snapshotInvalid => "v"
    | .index => "n" | .subscriptionsEmpty => "s" | .unsupportedSubKind => "k" | .unsupported => "u")
  ++ toString (errIdOf code)

def fmtFin : Fin → String
  | .initPending => "fin init-pending"
  | .initError => "fin init-error"
  | .pending => "fin pending"
  | .ended => "fin ended"

def fmtEff (nsubs t : Nat) : Eff → Option String
  | .attempt => some s!"ev att {t} {nsubs}"
  | .handled e => some s!"ev handled {fmtErr e} {t}"
  | .sleep _ => none
  | .delay _ => none

def fmtEvRes (origin t : Nat) : Event Res → String
  | .reconnecting => s!"ev notice {exchName origin} {t}"
  | .item (.ok x) => s!"ev item {x} {t}"
  | .item (.err e) => s!"ev err {fmtErr e.id} {t}"

def fmtEvNat (origin t : Nat) : Event Nat → String
  | .reconnecting => s!"ev notice {exchName origin} {t}"
  | .item x => s!"ev item {x} {t}"

def fmtRun {α : Type} (nsubs : Nat) (f : Nat → α → String) (r : Run α) : List String :=
  let evs := (stamps 0 r.steps).filterMap fun (t, s) =>
    match s with
    | .yield a => some (f t a)
    | .eff e => fmtEff nsubs t e
  evs ++ [s!"evn {evs.length}", fmtFin r.fin]

def noStream : List String := ["evn 0", "fin no-subscriptions"]

structure St where
  exchange : Nat := 0
  policy : Policy := streamReconnectionPolicy
  mode : Mode := .events
  nsubs : Nat := 1
  script : List MConn := []
  deriving Inhabited

def runModel (s : St) : List String :=
  match initMarketStream s.exchange s.policy s.nsubs s.script with
  | .subscriptionsEmpty => noStream
  | .run origin r =>
    match s.mode with
    | .events => fmtRun s.nsubs (fmtEvRes origin) r
    | .handler => fmtRun s.nsubs (fmtEvNat origin) (handlerRun r)

def runSpec (s : St) : List String :=
  match s.mode with
  | .events =>
    match specInit s.exchange s.policy s.nsubs s.script with
    | .noStream => noStream
    | .run origin r => fmtRun s.nsubs (fmtEvRes origin) r
  | .handler =>
    match specInitHandler s.exchange s.policy s.nsubs s.script with
    | .noStream => noStream
    | .run origin r => fmtRun s.nsubs (fmtEvNat origin) r

/-- the ops common to both sides; `showPolicy`: the model prints the policy it will pass -/
def stepWith (run : St → List String) (showPolicy : Bool) (s : St) (toks : List String) : St × List String :=
  let pol (p : Policy) : List String := if showPolicy then [s!"policy {p.initial} {p.mult} {p.max}"] else []
  match toks with
  | ["exchange", e] =>
    match parseExch e with
    | some e => ({ s with exchange := e }, [])
    | none => (s, ["bad-op"])
  | ["policy", "default"] => ({ s with policy := streamReconnectionPolicy }, pol streamReconnectionPolicy)
  | ["policy", i, m, mx] =>
    match i.toNat?, m.toNat?, mx.toNat? with
    | some i, some m, some mx =>
      -- `backoff_multiplier: u8` (stream.rs:170)
      if m < 256 then ({ s with policy := ⟨i, m, mx⟩ }, pol ⟨i, m, mx⟩) else (s, ["bad-op"])
    | _, _, _ => (s, ["bad-op"])
  | ["mode", "events"] => ({ s with mode := .events }, [])
  | ["mode", "handler"] => ({ s with mode := .handler }, [])
  | ["subs", n] =>
    match n.toNat? with
    | some n => ({ s with nsubs := n }, [])
    | none => (s, ["bad-op"])
  | "conn" :: r =>
    match parseConn r with
    | some c =>
      let s' := { s with script := s.script ++ [c] }
      (s', run s')
    | none => (s, ["bad-op"])
  | _ => (s, ["bad-op"])

def model : Drv St where
  init := {}
  step := stepWith runModel true

def spec : Drv St where
  init := {}
  step := stepWith runSpec false

end BarterModel.Driver.C12I

def main (args : List String) : IO UInt32 :=
  BarterModel.Driver.runMain BarterModel.Driver.C12I.model BarterModel.Driver.C12I.spec args
