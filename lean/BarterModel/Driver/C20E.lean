import BarterModel.Driver.Common
import BarterModel.Driver.EngineCommon
import BarterModel.Model.TradingLoop
/-!
Line-protocol driver for the sub-check C20E (end-to-end trading loop: engine + execution manager +
simulated exchange composed).

  `sys <iter|stream> <on|off> <k> <quote> <base> <fee> <latency ms>`
        feed mode, initial trading state, k spot instruments (instrument j: base asset b<j>, quote
        asset q), initial exchange balances, fee percentage, latency of the mock exchange
  `mkt i:p[:S:q] ...`   market trades (`:S:q`: the strategy answers with a market order)
  `call open o:0:<ins>:<cid>:<B|S>:<price>:<qty>..` | `call cancel c:0:<ins>:<cid>..`
     | `call close <filter>` | `call cancel_orders <filter>` | `call trading on|off`
  `settle` | `sleep <ms>`   await quiescence at the current virtual time (after advancing it), OBSERVE
        both views, then let `latency` ms pass (the exchange's answers to the observer's queries need
        them) and await quiescence again
  `shutdown` | `abort`      await quiescence at the current virtual time, observe both views, then
        `System::shutdown` / `System::abort` WITHOUT letting time pass

`model`: every op is a list of `SysHandle.Act`s over the composed concrete engine / exchange of
`Model/TradingLoop.lean`; where the REAL engine task panics (`TradingLoop.tickPanics`: a vanishing
divisor of the position code, only reachable outside the input guard `PosOps`) the block ends in
`panic` and the rest of the case is empty, as in the harness.
`spec`: the OPS-LEVEL specification `TradingLoop.OpsSpec` (review B C20E-1): a function of the op lines
and of the C08 / C02 / C01 specifications only — it never runs the model. It is silent
(correspondence only) from the first op on that leaves the class it determines.
-/
namespace BarterModel.Driver.C20E
open BarterModel.Driver BarterModel.Driver.EngineCommon BarterModel.SysHandle BarterModel.TradingLoop
open BarterModel.Engine BarterModel.Orders

/-- the client's clock: strictly increasing -/
def clk (n : Nat) : Int := n

def fmtFilter : Filter → String
  | .none => "none"
  | .exchanges l => "ex:" ++ ",".intercalate (l.map toString)
  | .instruments l => "ins:" ++ ",".intercalate (l.map toString)
  | .underlyings _ => "und"

def assetLabel (k a : Nat) : String := if a == k then "q" else s!"b{a}"

def sortStrings (l : List String) : List String := (l.toArray.qsort (· < ·)).toList

def fmtPSide : Position.Side → String
  | .buy => "B"
  | .sell => "S"

def fmtXSide : MockExchange.Side → String
  | .buy => "B"
  | .sell => "S"

def ordTag : OState → String
  | .active (.opn _) => "open"
  | .active _ => "active"
  | .inactive .fullyFilled => "filled"
  | .inactive .openFailed => "rejected"
  | .inactive _ => "inactive"

/-- canonical tag of a feed event (same text as the harness's `tag`) -/
def tagOf (k : Nat) : LEv → String
  | .shutdown => "H:shutdown"
  | .trading on => "H:trading:" ++ (if on then "on" else "off")
  | .command (.sendCancelRequests rs) => "H:cancel:" ++ "+".intercalate (rs.map fmtCancel)
  | .command (.sendOpenRequests rs) => "H:open:" ++ "+".intercalate (rs.map fmtOpenReq)
  | .command (.closePositions f) => "H:close:" ++ fmtFilter f
  | .command (.cancelOrders f) => "H:cancel_orders:" ++ fmtFilter f
  | .market m => if m.marker then "M:re" else s!"M:{m.id}"
  | .account (.snapshot items) =>
    "A:snap:" ++ ",".intercalate (sortStrings (items.map fun (a, m) => s!"{assetLabel k a}={fmtRat m.2.1}")) ++ ":orders=0"
  | .account (.balance a m) => s!"A:bal:{assetLabel k a}={fmtRat m.2.1}"
  | .account (.order _ s) => s!"A:ord:{s.cid}:" ++ ordTag s.state
  | .account (.cancelled _ cid ok) => s!"A:cancel:{cid}:" ++ (if ok then "ok" else "err")
  | .account (.trade t) => s!"A:trade:{t.instrument}:{fmtPSide t.side}:{fmtRat t.quantity}@{fmtRat t.price}:{fmtRat t.fees}"

def fmtOpenS (o : Open) : String := s!"({o.id},{fmtRat o.filled})"

def fmtActiveS : Active → String
  | .inFlight => "F"
  | .opn o => "O" ++ fmtOpenS o
  | .cancelInFlight none => "C(-)"
  | .cancelInFlight (some o) => "C" ++ fmtOpenS o

/-- the engine's view: orders, position, price per instrument; balance per asset; trading state -/
def obsEng (k : Nat) (e : LEng) : List String :=
  (e.core.instruments.zipIdx.flatMap fun (s, i) =>
    let l := (s.orders.toArray.qsort (fun a b => a.1 < b.1)).toList
    [ s!"ord{i} " ++ joinOr (l.map fun (c, o) => s!"{c}:{fmtActiveS o.state}"),
      s!"pos{i} " ++ (match (e.pos[i]?).bind (·.pm.current) with
        | some p => s!"{fmtPSide p.side} {fmtRat p.quantityAbs} {fmtRatApprox p.priceEntryAverage} " ++
            s!"{fmtRatApprox p.pnlRealised} {fmtRatApprox p.feesEnter} {fmtRatApprox p.feesExit} " ++
            s!"{fmtRat p.quantityAbsMax} {p.trades.length}"
        | none => "none"),
      s!"sum{i} " ++ (match s.position with | some (sd, q) => s!"{fmtSide sd}:{fmtRat q}" | none => "none"),
      s!"price{i} " ++ (match s.price with | some p => fmtRat p | none => "none") ]) ++
  ((List.range (k + 1)).map fun a =>
    s!"ebal{a} " ++ (match engineBal e a with | some b => s!"{fmtRat b.1} {fmtRat b.2}" | none => "none")) ++
  [ "trading " ++ (if e.core.enabled then "on" else "off") ]

/-- the exchange's own view: ledger and trade log (what `fetch_balances` / `fetch_trades` answer) -/
def obsExch (x : MockExchange.State) : List String :=
  (x.balances.zipIdx.map fun (b, a) => s!"xbal{a} {fmtRat b.total} {fmtRat b.free}") ++
  [ "xtrades " ++ joinOr (x.trades.map fun t =>
      s!"{t.id}:{t.instr}:{fmtXSide t.side}:{fmtRat t.qty}@{fmtRat t.price}:{fmtRat t.fees}") ]

/-- the keys the property constrains, engine side -/
def obsKeys (pfxN pfxB : String) (k : Nat) (e : LEng) : List String :=
  ((List.range k).map fun i => s!"{pfxN}{i} {fmtRat (enginePos e i)}") ++
  ((List.range (k + 1)).map fun a =>
    s!"{pfxB}{a} " ++ (match engineBal e a with | some b => s!"{fmtRat b.1} {fmtRat b.2}" | none => "none"))

structure St where
  sys : Option LSys
  e0 : LEng
  k : Nat
  cfg : MockExchange.Cfg
  /-- processed events already printed -/
  printed : Nat
  mktCount : Nat
  /-- the system value has been consumed -/
  gone : Bool
  /-- virtual time (ms), latency of the mock exchange, and for every pending account event (same
  order as `Sys.pending`) the virtual time at which it leaves the exchange -/
  now : Nat
  latency : Nat
  dues : List Nat
  /-- the engine task has panicked (`tickPanics`): the harness's case ends there -/
  dead : Bool

def St.init : St := ⟨none, lMkEngine 0 false, 0, lCfg 0 0 0 0 0, 0, 0, false, 0, 0, [], false⟩

/-- "await until nothing moves any more" with a virtual clock: as `SysHandle.pickSettle`, but an
account event is delivered only once it is due (responses and notifications of the mock exchange
leave it `latency` ms after the request; the error answering a cancel request leaves at once). Every
transition is a `SysHandle.step`. -/
def settleLoop : Nat → LSys → List Nat → Nat → Nat → LSys × List Nat × Bool
  | 0, s, d, _, _ => (s, d, false)
  | fuel + 1, s, d, now, lat =>
    if s.stopped.isSome then (s, d, false)
    else
      match s.feed with
      | e :: _ =>
        -- the real engine task panics on this event: nothing after it is observable
        if tickPanics s.eng.state e then (s, d, true) else
        let s' := step lEngine (lExchange clk) s .engine
        let fresh := s'.pending.drop s.pending.length
        let d' := d ++ fresh.map fun a => match a with | .cancelled _ _ _ => now | _ => now + lat
        settleLoop fuel s' d' now lat
      | [] =>
        if !s.market.isEmpty then settleLoop fuel (step lEngine (lExchange clk) s .fwdMarket) d now lat
        else
          match d.findIdx? (· ≤ now) with
          | some k => settleLoop fuel (step lEngine (lExchange clk) s (.fwdAccount k)) (d.eraseIdx k) now lat
          | none => (s, d, false)

def fuel : Nat := 100000

def parseMode? : String → Option EngineFeedMode
  | "iter" => some .iterator
  | "stream" => some .stream
  | _ => none

def parseOnOff? : String → Option Bool
  | "on" => some true
  | "off" => some false
  | _ => none

def parseMkt (id : Nat) (t : String) : Option MktEv :=
  match t.splitOn ":" with
  | [i, p] =>
    match i.toNat?, parseRat? p with
    | some i, some p => some ⟨id, i, p, none, false⟩
    | _, _ => none
  | [i, p, sd, q] =>
    match i.toNat?, parseRat? p, parseSide sd, parseRat? q with
    | some i, some p, some sd, some q => some ⟨id, i, p, some (sd, q), false⟩
    | _, _, _, _ => none
  | _ => none

def parseCall : List String → Option (Call Command)
  | "open" :: rs => (parseReqs rs).bind fun (cs, os) =>
      if cs.isEmpty && !os.isEmpty then some (send_open_requests os) else none
  | "cancel" :: rs => (parseReqs rs).bind fun (cs, os) =>
      if os.isEmpty && !cs.isEmpty then some (send_cancel_requests cs) else none
  | ["close", f] => (parseFilter f).map close_positions
  | ["cancel_orders", f] => (parseFilter f).map cancel_orders
  | ["trading", "on"] => some (trading_state true)
  | ["trading", "off"] => some (trading_state false)
  | _ => none

/-- tags of the events processed since the last observation: handle and market events in order,
account events sorted -/
def newEvents (st : St) (s : LSys) : St × List String :=
  let tags := (s.processed.drop st.printed).map (tagOf st.k)
  let pick := fun (p : String) => tags.filter (·.startsWith p)
  ({ st with printed := s.processed.length },
   [ "h " ++ joinOr (pick "H:"), "m " ++ joinOr (pick "M:"), "a " ++ joinOr (sortStrings (pick "A:")) ])

/-- identity of a request / of the response to it as printed: kind, instrument, client order id -/
def fmtIdent : ExecManager.Kind × Nat × Nat → String
  | (.open, i, cid) => s!"open:{i}:{cid}"
  | (.cancel, i, cid) => s!"cancel:{i}:{cid}"

/-- the identities of the response events among `l`, as a sorted multiset -/
def respLine (idents : List (ExecManager.Kind × Nat × Nat)) : String :=
  "resp " ++ joinOr (sortStrings (idents.map fmtIdent))

/-- both views of a system state, the constrained keys, and whether they agree -/
def viewLines (k : Nat) (s : LSys) : List String :=
  [ respLine ((accountOf s.processed).filterMap responseIdent) ] ++
  obsEng k s.eng.state ++ obsExch s.exch.x ++
  obsKeys "hnet" "hbal" k s.eng.state ++ obsKeys "net" "led" k s.eng.state ++
  [ "agree " ++ fmtBool (TradingLoop.Spec.agreeB s.eng.state s.exch.x) ]

def tickTag (k : Nat) : Tick LEv → String
  | .feedEnded _ => "feed_ended"
  | .process _ ev fatal => tagOf k ev ++ (if fatal then "!fatal" else "")

/-- common part of `model` and `spec`: the composed model run on the op; `obs` chooses what is printed -/
structure View where
  /-- the part of a `settle` / `sleep` block printed BEFORE the latency wait (events, `alive`) -/
  atSettleHead : St → LSys → List String
  /-- block of a `settle` / `sleep`: state before, state at the observation -/
  atSettle : St → LSys → List String
  /-- block of `shutdown` / `abort`: state at the observation, final state, engine, audit -/
  atClose : St → String → LSys → LSys → Eng LEng → Tick LEv → List String
  built : SystemBuild LEng → List String
  pushed : Nat → List String
  sent : Bool → List String

def runOp (v : View) (st : St) (toks : List String) : St × List String :=
  -- configuration shape: a 9th token 0|1|2 = the engine also tracks an exchange that is not traded (sorting before the
  -- mocked one: an index shape of the real system only; no op can name it, the composed model has no such exchange)
  let toks := match toks with
    | ["sys", feed, trading, k, quote, base, fee, lat, x] =>
      if x == "0" || x == "1" || x == "2" then ["sys", feed, trading, k, quote, base, fee, lat] else toks
    | _ => toks
  match toks with
  | ["sys", feed, trading, k, quote, base, fee, lat] =>
    match parseMode? feed, parseOnOff? trading, k.toNat?, parseRat? quote, parseRat? base, parseRat? fee, lat.toNat? with
    | some feed, some trading, some k, some quote, some base, some fee, some lat =>
      let build := ((SystemBuilder.new.engine_feed_mode feed).trading_state trading).build (lMkEngine k)
      let cfg := lCfg k quote base fee lat
      let s : LSys := lInit clk build cfg
      ({ sys := some s, e0 := build.engine, k := k, cfg := cfg, printed := 0, mktCount := 0, gone := false,
         now := 0, latency := lat, dues := [0], dead := false }, v.built build)
    | _, _, _, _, _, _, _ => (st, ["bad-op"])
  | _ =>
    match st.sys with
    | none => (st, ["bad-op"])
    | some s =>
    if st.dead then (st, []) else
    if st.gone then
      match toks with
      | "mkt" :: _ | "call" :: _ | ["settle"] | ["sleep", _] | ["shutdown"] | ["abort"] => (st, ["nosys"])
      | _ => (st, ["bad-op"])
    else
    match toks with
    | "mkt" :: items =>
      let parsed := items.zipIdx.map fun (t, j) => parseMkt (st.mktCount + j) t
      if parsed.any Option.isNone || items.isEmpty then (st, ["bad-op"]) else
      let ms := parsed.filterMap id
      let s' := run lEngine (lExchange clk) s (ms.map Act.push)
      ({ st with sys := some s', mktCount := st.mktCount + ms.length }, v.pushed ms.length)
    | "call" :: rest =>
      match parseCall rest with
      | none => (st, ["bad-op"])
      | some c =>
        let s' := run lEngine (lExchange clk) s [Act.call c]
        ({ st with sys := some s' }, v.sent (s'.panics > s.panics))
    | ["settle"] | ["sleep", _] =>
      let ms? : Option Nat := match toks with | ["sleep", ms] => ms.toNat? | _ => some 0
      match ms? with
      | none => (st, ["bad-op"])
      | some ms =>
        let now := st.now + ms
        let (s1, d1, p1) := settleLoop fuel s st.dues now st.latency
        if p1 then ({ st with sys := some s1, dead := true }, ["panic"]) else
        let lines := v.atSettle st s1
        let st1 := { st with printed := s1.processed.length }
        -- the observer's queries take `latency` ms to be answered
        let now2 := now + st.latency
        let (s2, d2, p2) := settleLoop fuel s1 d1 now2 st.latency
        if p2 then ({ st1 with sys := some s2, dead := true }, v.atSettleHead st s1 ++ ["panic"]) else
        ({ st1 with sys := some s2, dues := d2, now := now2 }, lines)
    | [how] =>
      if how == "shutdown" || how == "abort" then
        let (s1, d1, p1) := settleLoop fuel s st.dues st.now st.latency
        if p1 then ({ st with sys := some s1, dead := true }, ["panic"]) else
        let s2 := run lEngine (lExchange clk) s1 [Act.close (if how == "shutdown" then .graceful else .aborted)]
        if s2.closePanicked then ({ st with sys := some s2, gone := true, dues := d1 }, ["panic"]) else
        let acts := schedActs lEngine (lExchange clk) pickDrain fuel s2
        let s3 := run lEngine (lExchange clk) s2 acts
        match result s3 with
        | some (eng, audit) =>
          ({ st with sys := some s3, gone := true, dues := d1, printed := s3.processed.length },
           v.atClose st how s1 s3 eng audit)
        | none => ({ st with sys := some s3, gone := true }, ["hang"])
      else (st, ["bad-op"])
    | _ => (st, ["bad-op"])

def modelView : View where
  atSettleHead st s1 := (newEvents st s1).2 ++ [ "alive " ++ fmtBool s1.stopped.isNone ]
  atSettle st s1 :=
    (newEvents st s1).2 ++ [ "alive " ++ fmtBool s1.stopped.isNone ] ++ viewLines st.k s1
  atClose st how s1 s3 eng audit :=
    let own := engFold lEngine st.e0 s3.processed
    let ownOk := obsEng st.k own == obsEng st.k eng.state && seq0 s3.auditMode + s3.processed.length == eng.seq
    (newEvents st s1).2 ++ viewLines st.k s1 ++
    [ "res " ++ how ] ++ (newEvents { st with printed := s1.processed.length } s3).2 ++
    [ "shutdown_audit " ++ tickTag st.k audit, s!"processed {s3.processed.length}" ] ++
    (obsEng st.k eng.state).map (fun l => "f" ++ l) ++ obsKeys "fhnet" "fhbal" st.k eng.state ++
    [ "fagree " ++ fmtBool (TradingLoop.Spec.agreeB eng.state s3.exch.x), "own " ++ fmtBool ownOk ]
  built b :=
    [ "built feed=" ++ (if b.engineFeedMode == .iterator then "iter" else "stream") ++
        " trading=" ++ (if b.engine.core.enabled then "on" else "off") ]
  pushed n := [s!"pushed {n}"]
  sent p := [if p then "panic" else "sent"]

def model : Drv St where
  init := St.init
  step := runOp modelView

/-! ### spec: the ops-level specification (`TradingLoop.OpsSpec`)

A function of the op lines only. It reads the ops as a SCRIPT under the block discipline of the
harness (stated in `props/C20E.py` ASSUMPTIONS; the `h` / `m` lines check it on every block): the
handle calls made since the last await reach the engine first, in call order, then the market items
pushed, in order; every `settle` / `sleep` ends with everything answered (the observer lets `latency`
ms pass). Hence, with `R` = the requests `OpsSpec.requests` derives from the script so far:
* the EXCHANGE has processed all of `R` at every observation: `xbal` / `xtrades` = the C08
  specification's ledger / fills over `R` (`Props.C20E.model_refines_ops_spec`, conjuncts 1-2);
* the ENGINE has heard the answers to the requests of earlier blocks, and — at latency 0 — of this
  block: `hnet` / `hbal` (and `fhnet` / `fhbal` of the engine handed back) = C02 net / C08 ledger over
  the requests heard (`engine_view_is_heard`);
* when nothing is outstanding (latency 0, or this block sent cancel requests only — their error answer
  leaves the exchange at once): `net`, `led`, `agree 1`, empty `ord<i>`, `resp` = one response per
  request (`model_refines_ops_spec`, conjuncts 3-6).
Outside the class the specification determines (`OpsSpec.DetEv`: a `close_positions` / `cancel_orders`
command, a request for another exchange or instrument; or an input outside the guard `PosOps`) it
prints nothing from there on: those blocks are correspondence-only. -/

structure OSt where
  active : Bool
  k : Nat
  cfg : MockExchange.Cfg
  trading0 : Bool
  latency : Nat
  /-- script events of the blocks already observed -/
  script : List LEv
  /-- handle events of the current block, in call order -/
  calls : List LEv
  /-- market items of the current block, in push order -/
  mkts : List MktEv
  mktCount : Nat
  /-- the case has left the class the specification determines -/
  silent : Bool
  gone : Bool

def OSt.init : OSt := ⟨false, 0, lCfg 0 0 0 0 0, false, 0, [], [], [], 0, true, false⟩

/-- input guard `PosOps` on one script event -/
def posEv : LEv → Bool
  | .command (.sendOpenRequests rs) => rs.all fun r => decide (0 < r.quantity) && decide (0 < r.price)
  | .market m => m.marker || (decide (0 < m.price) && (match m.react with | some sq => decide (0 < sq.2) | none => true))
  | _ => true

def isCancelReq : Req → Bool
  | .cnl _ => true
  | .opn _ => false

/-- exchange view and engine view (of the requests heard) from the specifications -/
def specExchLines (cfg : MockExchange.Cfg) (reqs : List Req) : List String :=
  let acc := MockExchange.Spec.accepted cfg (MockExchange.opens cfg (exchHistory clk reqs))
  ((MockExchange.Spec.ledger cfg acc).zipIdx.map fun (b, a) => s!"xbal{a} {fmtRat b.1} {fmtRat b.2}") ++
  [ "xtrades " ++ joinOr ((MockExchange.Spec.fills cfg acc).map fun t =>
      s!"{t.id}:{t.instr}:{fmtXSide t.side}:{fmtRat t.qty}@{fmtRat t.price}:{fmtRat t.fees}") ]

def specViewLines (pfxN pfxB : String) (k : Nat) (cfg : MockExchange.Cfg) (reqs : List Req) : List String :=
  let acc := MockExchange.Spec.accepted cfg (MockExchange.opens cfg (exchHistory clk reqs))
  let fills := MockExchange.Spec.fills cfg acc
  ((List.range k).map fun i => s!"{pfxN}{i} {fmtRat (TradingLoop.Spec.net fills i)}") ++
  ((MockExchange.Spec.ledger cfg acc).zipIdx.map fun (b, a) => s!"{pfxB}{a} {fmtRat b.1} {fmtRat b.2}")

/-- the lines of one observation; second component: the script including this block -/
def specObserve (s : OSt) : List String × List LEv :=
  let script' := s.script ++ s.calls ++ s.mkts.map Ev.market
  let rPrev := OpsSpec.requests s.trading0 s.script
  let rAll := OpsSpec.requests s.trading0 script'
  let fresh := rAll.drop rPrev.length
  let quiet := s.latency == 0 || fresh.all isCancelReq
  let heard := if s.latency == 0 then rAll else rPrev
  ([ "h " ++ joinOr (s.calls.map (tagOf s.k)),
     "m " ++ joinOr (s.mkts.map fun m => s!"M:{m.id}") ] ++
   specExchLines s.cfg rAll ++
   specViewLines "hnet" "hbal" s.k s.cfg heard ++
   (if quiet then
      specViewLines "net" "led" s.k s.cfg rAll ++ [ "agree 1" ] ++
      ((List.range s.k).map fun i => s!"ord{i} ") ++
      [ respLine (rAll.map reqIdent) ]
    else []),
   script')

def spec : Drv OSt where
  init := OSt.init
  step s toks :=
    -- configuration shape: 9th token 0|1|2 (a tracked-but-not-traded exchange; no op names it, the script says nothing about it)
    let toks := match toks with
      | ["sys", feed, trading, k, quote, base, fee, lat, x] =>
        if x == "0" || x == "1" || x == "2" then ["sys", feed, trading, k, quote, base, fee, lat] else toks
      | _ => toks
    match toks with
    | ["sys", feed, trading, k, quote, base, fee, lat] =>
      match parseMode? feed, parseOnOff? trading, k.toNat?, parseRat? quote, parseRat? base, parseRat? fee, lat.toNat? with
      | some feed, some trading, some k, some quote, some base, some fee, some lat =>
        ({ active := true, k := k, cfg := lCfg k quote base fee lat, trading0 := trading, latency := lat,
           script := [], calls := [], mkts := [], mktCount := 0,
           -- the C08 specification needs a well-formed configuration; a negative fee or balance is outside it
           silent := !(lCfg k quote base fee lat).wf || decide (fee < 0), gone := false },
         [ "built feed=" ++ (if feed == .iterator then "iter" else "stream") ++
             " trading=" ++ (if trading then "on" else "off") ])
      | _, _, _, _, _, _, _ => (s, ["bad-op"])
    | _ =>
      if !s.active then (s, ["bad-op"]) else
      if s.gone || s.silent then
        -- keep rejecting what the model rejects, say nothing else
        match toks with
        | "mkt" :: items =>
          if items.isEmpty || (items.zipIdx.any fun (t, j) => (parseMkt j t).isNone) then (s, ["bad-op"]) else (s, [])
        | "call" :: rest => if (parseCall rest).isNone then (s, ["bad-op"]) else (s, [])
        | ["settle"] | ["shutdown"] | ["abort"] => (s, [])
        | ["sleep", ms] => if ms.toNat?.isNone then (s, ["bad-op"]) else (s, [])
        | _ => (s, ["bad-op"])
      else
      match toks with
      | "mkt" :: items =>
        let parsed := items.zipIdx.map fun (t, j) => parseMkt (s.mktCount + j) t
        if parsed.any Option.isNone || items.isEmpty then (s, ["bad-op"]) else
        let ms := parsed.filterMap id
        if ms.all (fun m => OpsSpec.DetEv s.k (.market m) && posEv (.market m)) then
          ({ s with mkts := s.mkts ++ ms, mktCount := s.mktCount + ms.length }, [s!"pushed {ms.length}"])
        else ({ s with silent := true }, [])
      | "call" :: rest =>
        match parseCall rest with
        | none => (s, ["bad-op"])
        | some c =>
          let ev : LEv := c.event
          if OpsSpec.DetEv s.k ev && posEv ev then ({ s with calls := s.calls ++ [ev] }, ["sent"])
          else ({ s with silent := true }, [])
      | ["settle"] | ["sleep", _] =>
        let ok : Bool := match toks with | ["sleep", ms] => ms.toNat?.isSome | _ => true
        if !ok then (s, ["bad-op"]) else
        let (lines, script') := specObserve s
        ({ s with script := script', calls := [], mkts := [] }, lines)
      | [how] =>
        if how == "shutdown" || how == "abort" then
          let (lines, script') := specObserve s
          let rPrev := OpsSpec.requests s.trading0 s.script
          let rAll := OpsSpec.requests s.trading0 script'
          let heard := if s.latency == 0 then rAll else rPrev
          ({ s with script := script', calls := [], mkts := [], gone := true },
           lines ++
           -- nothing but the `Shutdown` is processed after the observation (C20S `final_segment_any_schedule`):
           -- the engine handed back has heard exactly what it had heard at the observation (F11)
           -- (no `a` line: keys are matched by occurrence and the observation's `a` is not stated)
           [ "res " ++ how, "h H:shutdown", "m ", "shutdown_audit H:shutdown" ] ++
           specViewLines "fhnet" "fhbal" s.k s.cfg heard ++ [ "own 1" ])
        else (s, ["bad-op"])
      | _ => (s, ["bad-op"])

end BarterModel.Driver.C20E

def main (args : List String) : IO UInt32 :=
  BarterModel.Driver.runMain BarterModel.Driver.C20E.model BarterModel.Driver.C20E.spec args
