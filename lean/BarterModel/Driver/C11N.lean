import BarterModel.Driver.Common
import BarterModel.Model.Names
/-!
Line-protocol driver for the sub-check C11N (names, keys and the lookup API of
`IndexedInstruments`); the op list is documented in `harness/src/bin/c11n.rs`.

String tokens start with `'`; characters outside `[A-Za-z0-9_.-]` are written `%<hex>;`.
The state of a case is the list of definitions so far and, after `build`, the index.
-/
namespace BarterModel.Driver.C11N
open BarterModel.Driver BarterModel.Names
open BarterModel.Index (Keyed Kind Units Spec Indexed)

/-! ### tokens -/

def hexVal (c : Char) : Option Nat :=
  if '0' ≤ c ∧ c ≤ '9' then some (c.toNat - 48)
  else if 'a' ≤ c ∧ c ≤ 'f' then some (c.toNat - 87)
  else none

def hexNat (s : Str) : Option Nat :=
  if s.isEmpty then none else s.foldlM (fun acc c => (hexVal c).map (fun v => acc * 16 + v)) 0

def isScalar (n : Nat) : Bool := n < 55296 || (57344 ≤ n && n < 1114112)

partial def decChars : Str → Option Str
  | [] => some []
  | '%' :: r =>
    let h := r.takeWhile (· != ';')
    match r.dropWhile (· != ';'), hexNat h with
    | ';' :: r', some n => if isScalar n then (decChars r').map (Char.ofNat n :: ·) else none
    | _, _ => none
  | c :: r => (decChars r).map (c :: ·)

/-- `none` = not a string token -/
def decS (t : String) : Option Str :=
  match t.toList with
  | '\'' :: r => decChars r
  | _ => none

def plainChar (c : Char) : Bool := c.isAlphanum || c = '_' || c = '.' || c = '-'

def toHex (n : Nat) : Str := Nat.toDigits 16 n

def encS (s : Str) : String :=
  String.ofList ('\'' :: s.flatMap (fun c => if plainChar c then [c] else '%' :: toHex c.toNat ++ [';']))

/-- token-stream parser -/
abbrev P := StateT (List String) Option

def tok : P String := fun l => match l with | t :: r => some (t, r) | [] => none
def pNat : P Nat := do let t ← tok; match t.toNat? with | some n => pure n | none => failure
def pInt : P Int := do let t ← tok; match t.toInt? with | some n => pure n | none => failure
def pStr : P Str := do let t ← tok; match decS t with | some s => pure s | none => failure
def pEx : P ExchangeId := do let n ← pNat; match ExchangeId.ofNat? n with | some e => pure e | none => failure
def pEnd : P Unit := fun l => match l with | [] => some ((), []) | _ => none
def pRestStr : P (List Str) := fun l => (l.mapM decS).map (fun v => (v, []))

def run {α : Type} (p : P α) (toks : List String) : Option α := (p toks).map (·.1)

/-- how a raw (internal, exchange) pair of an op becomes an asset: the model's constructor, or the
spec's reading of the documentation -/
structure Mk where
  lowerName : Str → Str

def Mk.asset (mk : Mk) (i e : Str) : Asset := ⟨⟨mk.lowerName i⟩, ⟨e⟩⟩

def pAsset (mk : Mk) : P Asset := do let i ← pStr; let e ← pStr; pure (mk.asset i e)

/-- Largest expiry an op may carry (9999-12-31T23:59:59.999Z): up to here `NaiveDate`'s Display is the
plain `YYYY-MM-DD` of `dateDisplay`; beyond it chrono prints a sign and more digits, from
8210266876800000 on the timestamp is not representable and from 2^63 on the harness' conversion to
`i64` would wrap. Ops with a larger expiry are malformed (`bad-op`) for harness, model and spec. -/
def maxExpiry : Nat := 253402300799999

def pExpiry : P Nat := do let e ← pNat; if e ≤ maxExpiry then pure e else failure

def pKind (mk : Mk) : P (Kind Asset) := do
  match ← tok with
  | "s" => pure .spot
  | "p" => do let s ← pNat; let a ← pAsset mk; pure (.perpetual s a)
  | "f" => do let s ← pNat; let a ← pAsset mk; let e ← pExpiry; pure (.future s a e)
  | "o" => do
    let s ← pNat; let a ← pAsset mk; let p ← pNat; let x ← pNat; let e ← pExpiry; let k ← pNat
    if p < 2 ∧ x < 3 then pure (.option s a p x e k) else failure
  | _ => failure

def pSpec (mk : Mk) : P (Option (Spec Asset)) := do
  match ← tok with
  | "n" => pure none
  | "y" => do
    let pm ← pNat; let tk ← pNat
    let u : Units Asset ← (do
      match ← tok with
      | "a" => do let a ← pAsset mk; pure (.asset a)
      | "c" => pure .contract
      | "q" => pure .quote
      | _ => failure)
    let qm ← pNat; let qi ← pNat; let nm ← pNat
    pure (some ⟨pm, tk, u, qm, qi, nm⟩)
  | _ => failure

def pMDKind : P MDKind := do
  match ← tok with
  | "s" => pure .spot
  | "p" => pure .perpetual
  | "f" => do let e ← pExpiry; pure (.future e)
  | "o" => do
    let p ← pNat; let x ← pNat; let e ← pExpiry; let m ← pInt; let sc ← pNat
    if p < 2 ∧ x < 3 then pure (.option p x e ⟨m, sc⟩) else failure
  | _ => failure

/-- the raw arguments of a `def` / `spot` op -/
structure RawDef where
  exchange : ExchangeId
  ni : Str
  ne : Str
  base : Asset
  quote : Asset
  qa : Nat
  kind : Kind Asset
  spec : Option (Spec Asset)

def pDef (mk : Mk) (spot : Bool) : P RawDef := do
  let e ← pEx; let ni ← pStr; let ne ← pStr
  let base ← pAsset mk; let quote ← pAsset mk
  if spot then
    let spec ← pSpec mk; pEnd
    pure ⟨e, ni, ne, base, quote, 1, .spot, spec⟩
  else
    let qa ← pNat
    if qa < 2 then
      let kind ← pKind mk; let spec ← pSpec mk; pEnd
      pure ⟨e, ni, ne, base, quote, qa, kind, spec⟩
    else failure

/-! ### printing -/

def n2s (n : Nat) : String := toString n
def unw (l : List String) : String := " ".intercalate l

def assetToks (a : Asset) : List String := [encS a.nameInternal.name, encS a.nameExchange.name]

def kindToks {A : Type} (f : A → List String) : Kind A → List String
  | .spot => ["s"]
  | .perpetual s a => ["p", n2s s] ++ f a
  | .future s a e => ["f", n2s s] ++ f a ++ [n2s e]
  | .option s a p x e k => ["o", n2s s] ++ f a ++ [n2s p, n2s x, n2s e, n2s k]

def specToks {A : Type} (f : A → List String) : Option (Spec A) → List String
  | none => ["n"]
  | some s =>
    ["y", n2s s.priceMin, n2s s.tick] ++
      (match s.unit with | .asset a => "a" :: f a | .contract => ["c"] | .quote => ["q"]) ++
      [n2s s.qtyMin, n2s s.qtyInc, n2s s.notionalMin]

def insToks {E A : Type} (fe : E → List String) (fa : A → List String) (i : Instrument E A) :
    List String :=
  fe i.exchange ++ [encS i.nameInternal.name, encS i.nameExchange.name] ++ fa i.base ++ fa i.quote ++
    [n2s i.quoteAsset] ++ kindToks fa i.kind ++ specToks fa i.spec

/-- an indexed instrument of `Model/Index.lean` (names are codes) -/
def iinsToks (i : BarterModel.Index.IInstrument) : List String :=
  [n2s i.exchange.key, n2s i.exchange.value, encS (decode i.nameInternal), encS (decode i.nameExchange),
    n2s i.base, n2s i.quote, n2s i.quoteAsset] ++ kindToks (fun a => [n2s a]) i.kind ++
    specToks (fun a => [n2s a]) i.spec

def ekindStr : IndexError → String
  | .exchangeIndex => "exchange"
  | .assetIndex => "asset"
  | .instrumentIndex => "instrument"

def resultLines {α : Type} (r : Except IndexError α) (shw : α → List String) : List String :=
  match r with
  | .ok v => ["r ok " ++ unw (shw v), "ekind -"]
  | .error e => ["r err", "ekind " ++ ekindStr e, "emsg 1"]

def okEq {ε α : Type} [BEq α] (r : Except ε α) (v : α) : Bool :=
  match r with
  | .ok x => x == v
  | .error _ => false

/-! ### the concrete model -/

structure St where
  defs : List SDef := []
  ii : Option Indexed := none

def modelMk : Mk := ⟨nameNew⟩

def nameLines (name : Str) (deRaw : Str) (deSer : Str) (idem : Bool) : List String :=
  [ "name " ++ encS name, "disp " ++ encS name, "ser " ++ encS name,
    "de " ++ encS deRaw ++ " " ++ encS deSer,
    "json " ++ fmtBool (deSer == name), "from 1 1", "idem " ++ fmtBool idem ]

def cmpLine (lt eq : Bool) : String := "cmp " ++ (if lt then "lt" else if eq then "eq" else "gt")

def defTooLong (d : SDef) : Bool :=
  decide (L < d.nameInternal.name.length) || decide (L < d.nameExchange.name.length) ||
    d.assetRefs.any (fun a => decide (L < a.nameInternal.name.length) || decide (L < a.nameExchange.name.length))

def defLines (d : SDef) : List String :=
  let md := MarketDataInstrument.ofInstrument d
  [ "ins " ++ unw (insToks (fun e => [n2s e.toNat]) assetToks d),
    "md " ++ encS md.display,
    "csize " ++ n2s (contractSize d.kind),
    "settle " ++ (match d.kind.settlementAsset with | some a => unw (assetToks a) | none => "none"),
    "eqmd " ++ fmtBool (eqMarketDataKind d.kind (MDKind.ofKind d.kind)) ++ " 1" ]

/-- number of closure calls `map_asset_key_with_lookup` makes: all references on success, up to
and including the first failing one otherwise -/
def lookupCalls (refs : List Asset) (bad : Asset → Bool) : Nat :=
  let okPrefix := refs.takeWhile (fun a => !bad a)
  if okPrefix.length < refs.length then okPrefix.length + 1 else okPrefix.length

def modelStep (s : St) (toks : List String) : St × List String :=
  let bad := (s, ["bad-op"])
  match toks with
  | [] => bad
  | op :: args =>
  match op with
  | "ani" =>
    match run (do let x ← pStr; pEnd; pure x) args with
    | some x =>
      let n := AssetNameInternal.new x
      (s, nameLines n.name (AssetNameInternal.de x).name (AssetNameInternal.de n.ser).name
        (AssetNameInternal.new n.name == n))
    | none => bad
  | "ini" =>
    match run (do let x ← pStr; pEnd; pure x) args with
    | some x =>
      let n := InstrumentNameInternal.new x
      (s, nameLines n.name (InstrumentNameInternal.de x).name (InstrumentNameInternal.de n.ser).name
        (InstrumentNameInternal.new n.name == n))
    | none => bad
  | "ane" =>
    match run (do let x ← pStr; pEnd; pure x) args with
    | some x =>
      let n := AssetNameExchange.new x
      (s, nameLines n.name (AssetNameExchange.de x).name (AssetNameExchange.de n.ser).name
        (AssetNameExchange.new n.name == n))
    | none => bad
  | "ine" =>
    match run (do let x ← pStr; pEnd; pure x) args with
    | some x =>
      let n := InstrumentNameExchange.new x
      (s, nameLines n.name (InstrumentNameExchange.de x).name (InstrumentNameExchange.de n.ser).name
        (InstrumentNameExchange.new n.name == n))
    | none => bad
  | "nfe" =>
    match run (do let e ← pEx; let x ← pStr; pEnd; pure (e, x)) args with
    | some (e, x) => (s, ["name " ++ encS (InstrumentNameInternal.newFromExchange e x).name, "agree 1"])
    | none => bad
  | "nfu" =>
    match run (do let e ← pEx; let b ← pStr; let q ← pStr; pEnd; pure (e, b, q)) args with
    | some (e, b, q) => (s, ["name " ++ encS (InstrumentNameInternal.newFromExchangeUnderlying e b q).name])
    | none => bad
  | "eqci" =>
    match run (do let x ← pStr; let y ← pStr; pEnd; pure (x, y)) args with
    | some (x, y) =>
      (s, [ "eq " ++ fmtBool (AssetNameInternal.new x == AssetNameInternal.new y) ++ " " ++
              fmtBool (InstrumentNameInternal.new x == InstrumentNameInternal.new y),
            "eqx " ++ fmtBool (AssetNameExchange.new x == AssetNameExchange.new y) ])
    | none => bad
  | "cmp" =>
    match run (do let x ← pStr; let y ← pStr; pEnd; pure (x, y)) args with
    | some (x, y) =>
      if L < x.length ∨ L < y.length then (s, ["toolong"])
      else (s, [cmpLine (decide (code x < code y)) (code x == code y)])
    | none => bad
  | "asset" =>
    match run (do let i ← pStr; let e ← pStr; pEnd; pure (i, e)) args with
    | some (i, e) => (s, ["asset " ++ unw (assetToks (Asset.new i e))])
    | none => bad
  | "assetx" =>
    match run (do let e ← pStr; pEnd; pure e) args with
    | some e => (s, ["asset " ++ unw (assetToks (Asset.newFromExchange e)), "from 1"])
    | none => bad
  | "exch" =>
    match run (do let n ← pNat; pEnd; pure n) args with
    | some n =>
      match ExchangeId.ofNat? n with
      | none => (s, ["panic"])
      | some e =>
        (s, [ "variant " ++ encS e.variantName, "as_str " ++ encS e.asStr, "disp " ++ encS e.display,
              "ser " ++ encS e.ser,
              "de " ++ (match ExchangeId.de e.ser with | some x => n2s x.toNat | none => "err"),
              "ord " ++ n2s e.toNat ])
    | none => bad
  | "exde" =>
    match run (do let x ← pStr; pEnd; pure x) args with
    | some x => (s, ["de " ++ (match ExchangeId.de x with | some e => n2s e.toNat | none => "err")])
    | none => bad
  | "exall" =>
    match args with
    | [] =>
      (s, [ "n " ++ n2s ExchangeId.all.length,
            "sorted " ++ fmtBool (ExchangeId.all.map ExchangeId.toNat == List.range ExchangeId.all.length),
            "source 1" ])
    | _ => bad
  | "idx" =>
    match run (do let n ← pNat; pEnd; pure n) args with
    | some n =>
      (s, [ "disp " ++ encS (indexDisplay "ExchangeIndex" n) ++ " " ++ encS (indexDisplay "AssetIndex" n) ++
              " " ++ encS (indexDisplay "InstrumentIndex" n),
            "index " ++ unw [n2s n, n2s n, n2s n] ])
    | none => bad
  | "keyed" =>
    match run (do let n ← pNat; let x ← pStr; pEnd; pure (n, x)) args with
    | some (n, x) =>
      let v := AssetNameInternal.new x
      (s, [ "disp " ++ encS (keyedDisplay (indexDisplay "ExchangeIndex" n) v.display),
            "key " ++ n2s n ++ " value " ++ encS v.name ])
    | none => bad
  | "side" =>
    match args with
    | ["b"] => (s, ["disp " ++ encS Side.buy.display, "ser " ++ encS Side.buy.ser,
                    "de " ++ fmtBool (Side.de Side.buy.ser == some .buy)])
    | ["s"] => (s, ["disp " ++ encS Side.sell.display, "ser " ++ encS Side.sell.ser,
                    "de " ++ fmtBool (Side.de Side.sell.ser == some .sell)])
    | _ => bad
  | "sidede" =>
    match run (do let x ← pStr; pEnd; pure x) args with
    | some x => (s, ["de " ++ (match Side.de x with | some .buy => "b" | some .sell => "s" | none => "err")])
    | none => bad
  | "md" =>
    match run (do let b ← pStr; let q ← pStr; let k ← pMDKind; pEnd; pure (b, q, k)) args with
    | some (b, q, k) =>
      let m := MarketDataInstrument.new b q k
      (s, [ "base " ++ encS m.base.name, "quote " ++ encS m.quote.name, "kdisp " ++ encS m.kind.display,
            "disp " ++ encS m.display, "tuple 1", "ser " ++ encS m.json,
            "de " ++ fmtBool (MarketDataInstrument.new m.base.ser m.quote.ser m.kind == m) ])
    | none => bad
  | "def" | "spot" =>
    match run (pDef modelMk (op == "spot")) args with
    | some r =>
      let d : SDef :=
        if op == "spot" then Instrument.spot r.exchange r.ni r.ne r.base r.quote r.spec
        else Instrument.new r.exchange r.ni r.ne r.base r.quote r.qa r.kind r.spec
      if defTooLong d then (s, ["toolong"])
      else ({ defs := s.defs ++ [d], ii := none }, defLines d)
    | none => bad
  | "mek" =>
    match run (do let d ← pNat; let e ← pEx; pEnd; pure (d, e)) args with
    | some (d, e) =>
      match s.defs[d]? with
      | none => (s, ["nodef"])
      | some i =>
        let m := i.mapExchangeKey (⟨d, e⟩ : Keyed Nat ExchangeId)
        (s, ["ins " ++ unw (insToks (fun k => [n2s k.key, n2s k.value.toNat]) assetToks m)])
    | none => bad
  | "mak" =>
    match run (do let d ← pNat; let m ← pRestStr; pure (d, m)) args with
    | some (d, missing) =>
      match s.defs[d]? with
      | none => (s, ["nodef"])
      | some i =>
        let miss := missing.map AssetNameInternal.new
        let f : Asset → Except AssetNameInternal AssetNameExchange :=
          fun a => if miss.contains a.nameInternal then .error a.nameInternal else .ok a.nameExchange
        let r := i.mapAssetKeyWithLookup f
        (s, [ (match r with
               | .ok m => "r ok " ++ unw (insToks (fun e => [n2s e.toNat]) (fun a => [encS a.name]) m)
               | .error n => "r err " ++ encS n.name),
              "calls " ++ n2s (lookupCalls i.assetRefs (fun a => miss.contains a.nameInternal)) ])
    | none => bad
  | "build" =>
    match args with
    | [] =>
      match buildS s.defs with
      | none => (s, ["panic"])
      | some ii =>
        ({ s with ii := some ii },
          ["n " ++ unw [n2s (exchanges ii).length, n2s (assets ii).length, n2s (instruments ii).length]] ++
          (exchanges ii).map (fun x => "ex " ++ unw [n2s x.key, n2s x.value]) ++
          (assets ii).map (fun x => "as " ++ unw [n2s x.key, n2s x.value.exchange,
            encS (decode x.value.asset.nameInternal), encS (decode x.value.asset.nameExchange)]) ++
          (instruments ii).map (fun x => "in " ++ unw (n2s x.key :: iinsToks x.value)) ++
          ["same 1"])
    | _ => bad
  | "fxi" | "fx" | "fai" | "fa" | "fii" | "fi" =>
    match s.ii with
    | none => (s, ["nobuild"])
    | some ii =>
      match op with
      | "fxi" =>
        match run (do let e ← pEx; pEnd; pure e) args with
        | some e =>
          let r := findExchangeIndex ii e.toNat
          (s, resultLines r (fun k => [n2s k]) ++
            [ "found " ++ fmtBool (s.defs.any (fun d => d.exchange == e)),
              "rt " ++ fmtBool (match r with | .ok k => okEq (findExchange ii k) e.toNat | .error _ => false) ])
        | none => bad
      | "fx" =>
        match run (do let k ← pNat; pEnd; pure k) args with
        | some k =>
          let r := findExchange ii k
          (s, resultLines r (fun e => [n2s e]) ++
            [ "found " ++ fmtBool (decide (k < (exchanges ii).length)),
              "rt " ++ fmtBool (match r with | .ok e => okEq (findExchangeIndex ii e) k | .error _ => false) ])
        | none => bad
      | "fai" =>
        match run (do let e ← pEx; let x ← pStr; pEnd; pure (e, x)) args with
        | some (e, x) =>
          let name := AssetNameInternal.new x
          if L < name.name.length then (s, ["toolong"]) else
          let r := findAssetIndexS ii e name
          (s, resultLines r (fun k => [n2s k]) ++
            [ "found " ++ fmtBool (s.defs.any (fun d => d.exchange == e &&
                d.assetRefs.any (fun a => a.nameInternal == name))),
              "rt " ++ fmtBool (match r with
                | .ok k => (match findAsset ii k with
                  | .ok y => y.exchange == e.toNat && y.asset.nameInternal == code name.name
                  | .error _ => false)
                | .error _ => false) ])
        | none => bad
      | "fa" =>
        match run (do let k ← pNat; pEnd; pure k) args with
        | some k =>
          let r := findAsset ii k
          (s, resultLines r (fun y => [n2s y.exchange, encS (decode y.asset.nameInternal),
              encS (decode y.asset.nameExchange)]) ++
            [ "found " ++ fmtBool (decide (k < (assets ii).length)),
              "rt " ++ fmtBool (match r with
                | .ok y => s.defs.any (fun d => d.exchange.toNat == y.exchange &&
                    d.assetRefs.any (fun a => a.erase == y.asset))
                | .error _ => false) ])
        | none => bad
      | "fii" =>
        match run (do let e ← pEx; let x ← pStr; pEnd; pure (e, x)) args with
        | some (e, x) =>
          let name := InstrumentNameInternal.new x
          if L < name.name.length then (s, ["toolong"]) else
          let r := findInstrumentIndexS ii e name
          (s, resultLines r (fun k => [n2s k]) ++
            [ "found " ++ fmtBool (s.defs.any (fun d => d.exchange == e && d.nameInternal == name)),
              "rt " ++ fmtBool (match r with
                | .ok k => (match findInstrument ii k with
                  | .ok y => y.exchange.value == e.toNat && y.nameInternal == code name.name
                  | .error _ => false)
                | .error _ => false) ])
        | none => bad
      | _ =>
        match run (do let k ← pNat; pEnd; pure k) args with
        | some k =>
          let r := findInstrument ii k
          (s, resultLines r iinsToks ++
            [ "found " ++ fmtBool (decide (k < (instruments ii).length)),
              "rt " ++ fmtBool (match r with
                | .ok y => s.defs.any (fun d => d.exchange.toNat == y.exchange.value &&
                    code d.nameInternal.name == y.nameInternal && code d.nameExchange.name == y.nameExchange)
                | .error _ => false) ])
        | none => bad
  | _ => bad

def model : Drv St where
  init := {}
  step := modelStep

/-! ### the abstract specification (prints only what the documentation determines)

Every line is a function of the ops of the case: the definitions are rebuilt with the documented
letter-table lower-casing (`specLower`), the three tables and the lookup values come from the
`spec…` functions of `Model/Names.lean` (declaration order of the enum, string order of the names,
insertion into an ascending list, ranks) - not from the builder model, `nameNew` or the name code. -/

def ascii (s : Str) : Bool := s.all (fun c => decide (c.toNat < 128))

structure SpecSt where
  defs : List SDef := []
  /-- the case contained a non-ASCII definition: the spec is silent on the stateful ops -/
  silent : Bool := false
  built : Bool := false

def specMk : Mk := ⟨specLower⟩

def distinctCount {α : Type} [BEq α] (l : List α) : Nat := l.eraseDups.length

def defAscii (r : RawDef) : Bool :=
  ascii r.ni && ascii r.ne &&
    (Instrument.assetRefs (E := Unit) ⟨(), ⟨[]⟩, ⟨[]⟩, r.base, r.quote, r.qa, r.kind, r.spec⟩).all
      (fun a => ascii a.nameInternal.name && ascii a.nameExchange.name)

/-- the asset references of a definition in the documented lookup order of
`map_asset_key_with_lookup` (and push order of `add_instrument`): base, quote, settlement asset,
quantity-unit asset. Written out here, not taken from the model. -/
def specRefs (d : SDef) : List Asset :=
  [d.base, d.quote] ++
    (match d.kind with
      | .spot => []
      | .perpetual _ a | .future _ a _ | .option _ a _ _ _ _ => [a]) ++
    (match d.spec with
      | some sp => (match sp.unit with | .asset a => [a] | .contract => [] | .quote => [])
      | none => [])

/-- the FIRST reference, in that order, whose internal name the lookup does not know -/
def specFirstMissing (missing : List Str) (refs : List Asset) : Option Str :=
  (refs.find? (fun a => missing.contains a.nameInternal.name)).map (·.nameInternal.name)

/-- position of an (exchange, asset) pair in the spec's asset table -/
def specAssetPos (table : List (ExchangeId × Asset)) (e : ExchangeId) (a : Asset) : Nat :=
  table.idxOf (e, a)

/-- an indexed instrument as the property describes it: the definition with its exchange replaced by
(position of the exchange, exchange) and every asset by the position of the entry it was defined with -/
def specIndexedToks (exs : List ExchangeId) (assets : List (ExchangeId × Asset)) (d : SDef) : List String :=
  let fa : Asset → List String := fun a => [n2s (specAssetPos assets d.exchange a)]
  [n2s (exs.idxOf d.exchange), n2s d.exchange.toNat, encS d.nameInternal.name, encS d.nameExchange.name] ++
    fa d.base ++ fa d.quote ++ [n2s d.quoteAsset] ++ kindToks fa d.kind ++ specToks fa d.spec

/-- the CONTENT of the instrument table (the asset positions an entry carries) is what the property
describes - every reference resolved to the entry it was defined with - when, per exchange, an
internal asset name names one asset (WFAssets of C11); at the excluded points the code resolves a
reference to the first asset with that internal name and the spec is silent -/
def specInstrumentsDetermined (defs : List SDef) : Bool := specWFAssets defs

def specName (name : Str) : List String :=
  [ "name " ++ encS name, "disp " ++ encS name, "ser " ++ encS name,
    "de " ++ encS name ++ " " ++ encS name, "json 1", "from 1 1", "idem 1" ]

def specStep (s : SpecSt) (toks : List String) : SpecSt × List String :=
  let bad := (s, ["bad-op"])
  let quiet := (s, ([] : List String))
  match toks with
  | [] => bad
  | op :: args =>
  match op with
  | "ani" | "ini" =>
    match run (do let x ← pStr; pEnd; pure x) args with
    | some x => if ascii x then (s, specName (specLower x)) else (s, ["json 1", "from 1 1", "idem 1"])
    | none => bad
  | "ane" | "ine" =>
    match run (do let x ← pStr; pEnd; pure x) args with
    | some x => (s, specName x)
    | none => bad
  | "nfe" =>
    match run (do let e ← pEx; let x ← pStr; pEnd; pure (e, x)) args with
    | some (e, x) =>
      if ascii x then (s, ["name " ++ encS (specExchangeName e ++ '-' :: specLower x), "agree 1"])
      else (s, ["agree 1"])
    | none => bad
  | "nfu" => quiet
  | "eqci" =>
    match run (do let x ← pStr; let y ← pStr; pEnd; pure (x, y)) args with
    | some (x, y) =>
      (s, (if ascii x && ascii y then ["eq " ++ fmtBool (caseEq x y) ++ " " ++ fmtBool (caseEq x y)] else []) ++
        ["eqx " ++ fmtBool (x == y)])
    | none => bad
  | "cmp" =>
    match run (do let x ← pStr; let y ← pStr; pEnd; pure (x, y)) args with
    | some (x, y) =>
      if L < x.length ∨ L < y.length then (s, ["toolong"])
      else (s, [cmpLine (decide (x < y)) (x == y)])
    | none => bad
  | "asset" =>
    match run (do let i ← pStr; let e ← pStr; pEnd; pure (i, e)) args with
    | some (i, e) => if ascii i then (s, ["asset " ++ unw [encS (specLower i), encS e]]) else quiet
    | none => bad
  | "assetx" =>
    match run (do let e ← pStr; pEnd; pure e) args with
    | some e => if ascii e then (s, ["asset " ++ unw [encS (specLower e), encS e], "from 1"]) else (s, ["from 1"])
    | none => bad
  | "exch" =>
    match run (do let n ← pNat; pEnd; pure n) args with
    | some n =>
      match ExchangeId.ofNat? n with
      | none => quiet
      | some e =>
        (s, [ "as_str " ++ encS (specExchangeName e), "ser " ++ encS (specExchangeName e),
              "de " ++ n2s n, "ord " ++ n2s n ])
    | none => bad
  | "exde" =>
    match run (do let x ← pStr; pEnd; pure x) args with
    | some x =>
      (s, ["de " ++ (match ExchangeId.all.find? (fun e => specExchangeName e == x) with
        | some e => n2s e.toNat
        | none => if x == "huobi".toList then n2s ExchangeId.htx.toNat else "err")])
    | none => bad
  | "exall" => (s, ["sorted 1", "source 1"])
  | "idx" =>
    match run (do let n ← pNat; pEnd; pure n) args with
    | some n => (s, ["index " ++ unw [n2s n, n2s n, n2s n]])
    | none => bad
  | "keyed" =>
    match run (do let n ← pNat; let x ← pStr; pEnd; pure (n, x)) args with
    | some (n, x) => if ascii x then (s, ["key " ++ n2s n ++ " value " ++ encS (specLower x)]) else quiet
    | none => bad
  | "side" =>
    match args with
    | ["b"] => (s, ["disp " ++ encS "buy".toList, "de 1"])
    | ["s"] => (s, ["disp " ++ encS "sell".toList, "de 1"])
    | _ => bad
  | "sidede" => quiet
  | "md" =>
    match run (do let b ← pStr; let q ← pStr; let k ← pMDKind; pEnd; pure (b, q, k)) args with
    | some (b, q, _) =>
      (s, (if ascii b && ascii q then ["base " ++ encS (specLower b), "quote " ++ encS (specLower q)] else []) ++
        ["tuple 1", "de 1"])
    | none => bad
  | "def" | "spot" =>
    match run (pDef specMk (op == "spot")) args with
    | some r =>
      if !defAscii r then ({ s with silent := true }, []) else
      let d : SDef := ⟨r.exchange, ⟨specLower r.ni⟩, ⟨r.ne⟩, r.base, r.quote, r.qa, r.kind, r.spec⟩
      if defTooLong d then (s, ["toolong"]) else
      ({ s with defs := s.defs ++ [d], built := false },
        [ "ins " ++ unw (insToks (fun e => [n2s e.toNat]) assetToks d),
          "csize " ++ n2s (match d.kind with | .spot => 1 | .perpetual z _ => z | .future z _ _ => z
                                             | .option z _ _ _ _ _ => z),
          "settle " ++ (match d.kind with
            | .spot => "none"
            | .perpetual _ a | .future _ a _ | .option _ a _ _ _ _ => unw (assetToks a)),
          "eqmd 1 1" ])
    | none => bad
  | "mek" =>
    match run (do let d ← pNat; let e ← pEx; pEnd; pure (d, e)) args with
    | some (d, e) =>
      if s.silent then quiet else
      match s.defs[d]? with
      | none => (s, ["nodef"])
      | some i =>
        (s, ["ins " ++ unw ([n2s d, n2s e.toNat] ++ (insToks (fun (_ : ExchangeId) => []) assetToks i))])
    | none => bad
  | "mak" =>
    match run (do let d ← pNat; let m ← pRestStr; pure (d, m)) args with
    | some (d, missing) =>
      if s.silent || !(missing.all ascii) then quiet else
      match s.defs[d]? with
      | none => (s, ["nodef"])
      | some i =>
        let miss := missing.map specLower
        match specFirstMissing miss (specRefs i) with
        | none =>
          let m : Instrument ExchangeId AssetNameExchange :=
            ⟨i.exchange, i.nameInternal, i.nameExchange, i.base.nameExchange, i.quote.nameExchange,
              i.quoteAsset, kindMap (·.nameExchange) i.kind, specMap (·.nameExchange) i.spec⟩
          (s, ["r ok " ++ unw (insToks (fun e => [n2s e.toNat]) (fun a => [encS a.name]) m)])
        | some x => (s, ["r err " ++ encS x])
    | none => bad
  | "build" =>
    match args with
    | [] =>
      if s.silent then quiet else
      let exs := specExchangeTable s.defs
      let assets := specAssetTable s.defs
      ({ s with built := true },
        ["n " ++ unw [n2s exs.length, n2s assets.length, n2s (distinctCount s.defs)]] ++
        exs.mapIdx (fun k e => "ex " ++ unw [n2s k, n2s e.toNat]) ++
        assets.mapIdx (fun k x => "as " ++ unw (n2s k :: n2s x.1.toNat :: assetToks x.2)) ++
        (if specInstrumentsDetermined s.defs then
          (specInstrumentTable s.defs).mapIdx (fun k d => "in " ++ unw (n2s k :: specIndexedToks exs assets d))
         else []) ++
        ["same 1"])
    | _ => bad
  | "fxi" | "fx" | "fai" | "fa" | "fii" | "fi" =>
    if s.silent then quiet else
    if !s.built then (s, ["nobuild"]) else
    -- `value`: what an `Ok` carries, where the texts determine it
    let answer (found : Bool) (kind : Option String) (value : Option (List String)) : SpecSt × List String :=
      (s, (if found then (match value with | some v => ["r ok " ++ unw v] | none => []) ++ ["ekind -"]
           else (match kind with | some k => ["ekind " ++ k] | none => []) ++ ["r err"]) ++
        ["found " ++ fmtBool found, "rt " ++ fmtBool found])
    match op with
    | "fxi" =>
      match run (do let e ← pEx; pEnd; pure e) args with
      | some e => answer (specHasExchange s.defs e) (some "exchange") (some [n2s (specExchangeIndex s.defs e)])
      | none => bad
    | "fx" =>
      match run (do let k ← pNat; pEnd; pure k) args with
      | some k =>
        let t := specExchangeTable s.defs
        answer (decide (k < t.length)) (some "exchange") (t[k]?.map (fun e => [n2s e.toNat]))
      | none => bad
    | "fai" =>
      match run (do let e ← pEx; let x ← pStr; pEnd; pure (e, x)) args with
      | some (e, x) =>
        if !ascii x then quiet else
        if L < x.length then (s, ["toolong"]) else
        answer (specHasAsset s.defs e ⟨specLower x⟩) (some "asset")
          (some [n2s (specAssetIndex s.defs e ⟨specLower x⟩)])
      | none => bad
    | "fa" =>
      match run (do let k ← pNat; pEnd; pure k) args with
      | some k =>
        let t := specAssetTable s.defs
        answer (decide (k < t.length)) (some "asset")
          (t[k]?.map (fun x => n2s x.1.toNat :: assetToks x.2))
      | none => bad
    | "fii" =>
      match run (do let e ← pEx; let x ← pStr; pEnd; pure (e, x)) args with
      | some (e, x) =>
        if !ascii x then quiet else
        if L < x.length then (s, ["toolong"]) else
        -- the documented error variant for a missing instrument is not what the code returns: silent
        answer (specHasInstrument s.defs e ⟨specLower x⟩) none
          (some [n2s (specInstrumentIndex s.defs e ⟨specLower x⟩)])
      | none => bad
    | _ =>
      match run (do let k ← pNat; pEnd; pure k) args with
      | some k =>
        -- the entry at a position is determined only when the instrument table is
        answer (decide (k < distinctCount s.defs)) (some "instrument")
          (if specInstrumentsDetermined s.defs then
            (specInstrumentTable s.defs)[k]?.map
              (specIndexedToks (specExchangeTable s.defs) (specAssetTable s.defs))
           else none)
      | none => bad
  | _ => bad

def spec : Drv SpecSt where
  init := {}
  step := specStep

end BarterModel.Driver.C11N

def main (args : List String) : IO UInt32 :=
  BarterModel.Driver.runMain BarterModel.Driver.C11N.model BarterModel.Driver.C11N.spec args
