import BarterModel.Driver.Common
import BarterModel.Model.BinanceL2
/-!
Line-protocol driver for C06.

Ops
* `init spot|fut n`                          rule set; `n` instruments (keys `0..n-1`, subscription id = key) on one connection
* `venue k id:b|a:price:amount …`            ground truth of instrument `k` (used by `spec` only)
* `snap k s | p:a … | p:a …`                 REST snapshot of instrument `k` (`OrderBookEvent::Snapshot`)
* `snapu k s | … | …`                        an `OrderBookEvent::Update` handed to `init` as initial event (invalid)
* `start`                                    `ExchangeTransformer::init` with all recorded initial events
* `msg sym U u pu | p:a … | p:a …`           one depth-update message for symbol `sym` (`sym ≥ n` ⇒ not subscribed)
* `end`                                      whole output list through `with_termination_on_error`, applied to fresh snapshot books
* `reconnect`                                a new connection for the same consumer: the local books persist, the initial events and the
                                             transformer are those of the new connection. Until its `start` succeeds no connection is up:
                                             `msg` / `end` are `bad-op` (as before the first successful `start`), in harness, `model` and `spec`
* `depth k n`                                the REST request of instrument `k` asks for `limit = n`: the following `snap k` holds
                                             the best `n` levels per side only (`spot/l2.rs:54`, `futures/l2.rs:57`: `limit=100`).
                                             From then on every block that prints `book<k>` / `fbook<k>` also prints one line
                                             `lv<k>:<b|a>:<price> <amount>` (`flv…` at `end`) per price of `venue k` (per side,
                                             ascending): the local book's amount at that price, 0 = no level. `spec` states
                                             these lines for exactly the prices the snapshot covers, an admitted update wrote,
                                             or the venue changed since the snapshot id (`Props.C06.book_is_truth_on`)

Observations: `start ok|missing|invalid`; per `msg`: `out …` (what `transform` returned, the transformer
is fed every message even after an error), `sq k processed last [prev]` (a stand-alone sequencer fed the same
messages), `alive b`, `book<k> seq | bids | asks` for every instrument (the consumer's books: events delivered
before the terminal error only); per `end`: `delivered events errors ended`, `fbook<k> …`.
-/
namespace BarterModel.Driver.C06
open BarterModel.Driver BarterModel.Book BarterModel.BinanceL2

def fmtLevels (ls : List Level) : String :=
  " ".intercalate (ls.map fun l => fmtRat l.price ++ ":" ++ fmtRat l.amount)

def fmtBook (b : OrderBook) : String :=
  toString b.sequence ++ " " ++ fmtLevels b.bids ++ " | " ++ fmtLevels b.asks

def parseLevel? (s : String) : Option Level :=
  match s.splitOn ":" with
  | [p, a] =>
    match parseRat? p, parseRat? a with
    | some p, some a => some ⟨p, a⟩
    | _, _ => none
  | _ => none

def parseLevels? : List String → Option (List Level)
  | [] => some []
  | t :: ts =>
    match parseLevel? t, parseLevels? ts with
    | some l, some ls => some (l :: ls)
    | _, _ => none

/-- `| bids | asks` -/
def parseSides? (toks : List String) : Option (List Level × List Level) :=
  match toks with
  | "|" :: rest =>
    let bidToks := rest.takeWhile (· != "|")
    match rest.dropWhile (· != "|") with
    | "|" :: askToks =>
      match parseLevels? bidToks, parseLevels? askToks with
      | some b, some a => some (b, a)
      | _, _ => none
    | _ => none
  | _ => none

def parseRules? : String → Option Rules
  | "spot" => some .spot
  | "fut" => some .futures
  | _ => none

def parseChange? (s : String) : Option Change :=
  match s.splitOn ":" with
  | [i, sd, p, a] =>
    let side? : Option Side := if sd == "b" then some .bids else if sd == "a" then some .asks else none
    match i.toNat?, side?, parseRat? p, parseRat? a with
    | some i, some sd, some p, some a => some ⟨i, sd, p, a⟩
    | _, _, _, _ => none
  | _ => none

def parseChanges? : List String → Option (List Change)
  | [] => some []
  | t :: ts =>
    match parseChange? t, parseChanges? ts with
    | some c, some cs => some (c :: cs)
    | _, _ => none

def parseMsg? : List String → Option Update
  | sym :: bU :: u :: pu :: rest =>
    match sym.toNat?, bU.toNat?, u.toNat?, pu.toNat?, parseSides? rest with
    | some sym, some bU, some u, some pu, some (b, a) => some ⟨sym, bU, u, pu, b, a⟩
    | _, _, _, _, _ => none
  | _ => none

/-- `k s | bids | asks` -/
def parseSnap? : List String → Option (Nat × OrderBook)
  | k :: s :: rest =>
    match k.toNat?, s.toNat?, parseSides? rest with
    | some k, some s, some (b, a) => some (k, OrderBook.new s b a)
    | _, _, _ => none
  | _ => none

def fmtOut (_r : Rules) : Out → String
  | .event k ev => "out upd " ++ toString k ++ " " ++ fmtBook ev.book
  | .error (.invalidSequence p f) => "out err invalid-sequence " ++ toString p ++ " " ++ toString f
  | .error (.unidentifiable s) => "out err unidentifiable " ++ toString s

def fmtOuts (r : Rules) : List Out → List String
  | [] => ["out none"]
  | outs => outs.map (fmtOut r)

def fmtSq (r : Rules) (k : Nat) (sq : Sequencer) : String :=
  "sq " ++ toString k ++ " " ++ toString sq.updatesProcessed ++ " " ++ toString sq.lastUpdateId ++
    (match r with
     | .spot => " " ++ toString sq.prevLastUpdateId
     | .futures => "")

def fmtBooks (pfx : String) (books : Books) : List String :=
  books.map fun (k, b) => pfx ++ toString k ++ " " ++ fmtBook b

structure MSt where
  rules : Rules
  n : Nat
  initial : List (Nat × Event)
  started : Bool
  /-- the transformer fed every message (no termination) -/
  tr : Transformer
  /-- stand-alone sequencers fed the same messages -/
  seqs : List (Nat × Sequencer)
  /-- the connection as the consumer sees it -/
  conn : Conn
  books0 : Books
  outs : List Out
  /-- the consumer's local books kept across a `reconnect` (`OrderBookL2Manager` keeps its books; the new
  connection's snapshots are applied to them) -/
  persist : Option Books := none
  /-- `venue k` ops (only the price universe of the `lv` lines is read from them) -/
  venues : List (Nat × Venue) := []
  /-- instruments with a declared REST depth (`depth k n`): their blocks carry `lv` lines -/
  depths : List Nat := []

def MSt.empty : MSt := ⟨.spot, 0, [], false, ⟨[]⟩, [], ⟨⟨[]⟩, [], true⟩, [], [], none, [], []⟩

def sideTag : Side → String
  | .bids => "b"
  | .asks => "a"

def lvKey (pfx : String) (k : Nat) (sd : Side) (p : Rat) : String :=
  pfx ++ toString k ++ ":" ++ sideTag sd ++ ":" ++ fmtRat p

/-- per-level observation of instrument `k`'s book over the venue's price universe -/
def fmtLvs (pfx : String) (k : Nat) (v : Venue) (b : OrderBook) : List String :=
  [Side.bids, Side.asks].flatMap fun sd =>
    (uniPrices v sd).map fun p => lvKey pfx k sd p ++ " " ++ fmtRat (abs (sideOf b sd) p)

def MSt.lvLines (s : MSt) (pfx : String) (books : Books) : List String :=
  books.flatMap fun (k, b) =>
    if s.depths.contains k then fmtLvs pfx k ((s.venues.lookup k).getD []) b else []

def model : Drv MSt where
  init := MSt.empty
  step s toks :=
    match toks with
    | ["init", r, n] =>
      match parseRules? r, n.toNat? with
      | some r, some n => ({ MSt.empty with rules := r, n := n }, [])
      | _, _ => (s, ["bad-op"])
    | "venue" :: k :: cs =>
      match k.toNat?, parseChanges? cs with
      | some k, some cs => ({ s with venues := (k, cs) :: s.venues }, [])
      | _, _ => (s, ["bad-op"])
    | ["depth", k, n] =>
      match k.toNat?, n.toNat? with
      | some k, some _ => ({ s with depths := k :: s.depths }, [])
      | _, _ => (s, ["bad-op"])
    | ["reconnect"] =>
      -- new connection, same consumer: its books are what the previous connection delivered
      -- (no connection is up until the next successful `start`: `msg` / `end` are rejected meanwhile)
      ({ s with initial := [], started := false,
                persist := if s.started then some s.conn.books else s.persist }, [])
    | "snap" :: body =>
      match parseSnap? body with
      | some (k, b) => ({ s with initial := s.initial ++ [(k, Event.snapshot b)] }, [])
      | none => (s, ["bad-op"])
    | "snapu" :: body =>
      match parseSnap? body with
      | some (k, b) => ({ s with initial := s.initial ++ [(k, Event.update b)] }, [])
      | none => (s, ["bad-op"])
    | ["start"] =>
      match Transformer.init ((List.range s.n).map fun k => (k, k)) s.initial with
      | .error (.initialSnapshotMissing _) => (s, ["start missing"])
      | .error .initialSnapshotInvalid => (s, ["start invalid"])
      | .ok t =>
        -- the initial snapshots are the first items of the stream: the consumer applies them
        let books0 : Books := s.persist.getD ((List.range s.n).map fun k => (k, OrderBook.default))
        let books0 := s.initial.foldl (fun bs (k, ev) => managerStep bs (.item k ev)) books0
        let seqs := t.instrumentMap.map fun (sub, im) => (sub, im.sequencer)
        ({ s with started := true, tr := t, seqs := seqs, conn := ⟨t, books0, true⟩, books0 := books0, outs := [] },
          "start ok" :: fmtBooks "book" books0 ++ s.lvLines "lv" books0)
    | "msg" :: body =>
      match parseMsg? body with
      | none => (s, ["bad-op"])
      | some m =>
        if !s.started then (s, ["bad-op"]) else
        let (tr, outs) := s.tr.transform s.rules m
        let (seqs, sqLine) :=
          match s.seqs.lookup m.sub with
          | none => (s.seqs, [])
          | some sq =>
            let (sq', _) := sq.validateSequence s.rules m
            (s.seqs.map fun (k, x) => if k = m.sub then (k, sq') else (k, x), [fmtSq s.rules m.sub sq'])
        let conn := s.conn.step s.rules m
        ({ s with tr := tr, seqs := seqs, conn := conn, outs := s.outs ++ outs },
          fmtOuts s.rules outs ++ sqLine ++ ["alive " ++ fmtBool conn.alive] ++ fmtBooks "book" conn.books ++
            s.lvLines "lv" conn.books)
    | ["end"] =>
      if !s.started then (s, ["bad-op"]) else
      let delivered := terminate s.outs
      let nEv := (delivered.filter fun o => match o with | .event _ _ => true | _ => false).length
      let nErr := delivered.length - nEv
      let books := consume s.books0 delivered
      (s, ("delivered " ++ toString nEv ++ " " ++ toString nErr ++ " " ++ fmtBool (terminated s.outs)) ::
            fmtBooks "fbook" books ++ s.lvLines "flv" books)
    | _ => (s, ["bad-op"])

/-! ### spec driver: ids + ground truth only -/

structure SInst where
  key : Nat
  venue : Venue
  snapshot : Option OrderBook
  /-- snapshot and every message so far are genuine for the venue: the book is constrained -/
  constrained : Bool
  inst : SpecInstrument
  /-- `depth k n`: the snapshot is the venue's book cut to the best `n` levels per side -/
  limit : Option Nat := none
  /-- the prices written by the updates admitted since the snapshot -/
  written : List (Side × Rat) := []
  /-- the first initial event of the instrument is an `Update` (`snapu`): `init` fails -/
  invalid : Bool := false

structure SSt where
  rules : Rules
  insts : List SInst
  started : Bool
  told : Bool

def SSt.empty : SSt := ⟨.spot, [], false, false⟩

def SSt.update (s : SSt) (k : Nat) (f : SInst → SInst) : SSt :=
  { s with insts := s.insts.map fun i => if i.key = k then f i else i }

/-- the whole-book claim is stated when the snapshot is the venue's FULL book: no depth limit declared, or
the limit cuts nothing (both sides hold fewer levels than the limit) -/
def SInst.full (i : SInst) : Bool :=
  match i.limit, i.snapshot with
  | none, _ => true
  | some n, some b => decide (b.bids.length < n) && decide (b.asks.length < n)
  | some _, none => false

/-- the prices at which `book_is_truth_on` determines the local book: covered by the depth-limited
snapshot (`coveredBy`), written by an admitted update since, or changed by the venue since the snapshot id -/
def SInst.known (i : SInst) (sd : Side) (p : Rat) : Bool :=
  match i.limit, i.snapshot with
  | some n, some b => knownPrice n b i.written i.venue i.inst.last sd p
  | _, _ => false

/-- the per-level claim: the venue's amount as of the reported sequence, at the known prices only -/
def SInst.lvLines (i : SInst) (pfx : String) : List String :=
  if i.limit.isNone then [] else
  [Side.bids, Side.asks].flatMap fun sd =>
    ((uniPrices i.venue sd).filter (i.known sd)).map fun p =>
      lvKey pfx i.key sd p ++ " " ++ fmtRat (abs (specSide i.venue i.inst.last sd) p)

def specBooks (pfx : String) (s : SSt) : List String :=
  ((s.insts.filter fun i => i.constrained && i.full).map fun i =>
    pfx ++ toString i.key ++ " " ++ fmtBook (specBook i.venue i.inst.last)) ++
  ((s.insts.filter (·.constrained)).flatMap fun i =>
    i.lvLines (if pfx == "fbook" then "flv" else "lv"))

def spec : Drv SSt where
  init := SSt.empty
  step s toks :=
    match toks with
    | ["init", r, n] =>
      match parseRules? r, n.toNat? with
      | some r, some n =>
        ({ SSt.empty with rules := r, insts := (List.range n).map fun k => { key := k, venue := [], snapshot := none, constrained := false, inst := ⟨0, 0⟩ } }, [])
      | _, _ => (s, ["bad-op"])
    | "venue" :: k :: cs =>
      match k.toNat?, parseChanges? cs with
      | some k, some cs => (s.update k fun i => { i with venue := cs }, [])
      | _, _ => (s, ["bad-op"])
    | "snap" :: body =>
      match parseSnap? body with
      | some (k, b) =>
        (s.update k fun i =>
          match i.snapshot with
          | some _ => i     -- `init` uses the first initial event of the instrument
          | none =>
            -- the REST answer: the venue's book as of its id, cut to the declared depth (if any)
            let truth := match i.limit with
              | none => specBook i.venue b.sequence
              | some n => truncateBook n (specBook i.venue b.sequence)
            { i with snapshot := some b, inst := ⟨0, b.sequence⟩, written := [],
                     constrained := decide (b = truth) }, [])
      | none => (s, ["bad-op"])
    | "snapu" :: body =>
      match parseSnap? body with
      | some (k, _) => (s.update k fun i => if i.snapshot.isNone then { i with invalid := true } else i, [])
      | none => (s, ["bad-op"])
    | ["depth", k, n] =>
      match k.toNat?, n.toNat? with
      | some k, some n => (s.update k fun i => { i with limit := some n }, [])
      | _, _ => (s, ["bad-op"])
    | ["reconnect"] =>
      -- re-initialisation: a fresh connection against the same venues; what the property says about a
      -- connection holds for it from its own snapshot on, whatever the previous connection left behind
      ({ s with started := false, told := false,
                insts := s.insts.map fun i => { i with snapshot := none, constrained := false, inst := ⟨0, 0⟩,
                                                       written := [], invalid := false } }, [])
    | ["start"] =>
      -- the property speaks about connections that came up; whether `init` succeeds is not its concern: when it
      -- cannot (an instrument without initial event, or with an `Update` as first one) no connection is up and
      -- `msg` / `end` are rejected as the harness rejects them
      if !(s.insts.all fun i => i.snapshot.isSome && !i.invalid) then ({ s with started := false }, []) else
      if s.insts.all fun i => i.constrained then
        ({ s with started := true }, specBooks "book" s)
      else ({ s with started := true }, [])
    | "msg" :: body =>
      match parseMsg? body with
      | none => (s, ["bad-op"])
      | some m =>
        if !s.started then (s, ["bad-op"]) else
        if s.told then (s, ["alive 0"]) else
        match s.insts.find? (·.key = m.sub) with
        | none => (s, "alive 1" :: specBooks "book" s)   -- not subscribed: nothing may change
        | some i =>
          let (inst', verdict) := i.inst.step s.rules m
          let genuine := decide (GenuineMsg s.rules i.venue m)
          let wr : List (Side × Rat) :=
            if verdict == .extended then
              (m.bids.map fun l => (Side.bids, l.price)) ++ (m.asks.map fun l => (Side.asks, l.price))
            else []
          let s := s.update m.sub fun i =>
            { i with inst := inst', constrained := i.constrained && genuine, written := wr ++ i.written }
          match verdict with
          | .told => ({ s with told := true }, ["alive 0"])
          | _ => (s, "alive 1" :: specBooks "book" s)
    | ["end"] =>
      if !s.started then (s, ["bad-op"]) else
      if s.told then (s, []) else (s, specBooks "fbook" s)
    | _ => (s, ["bad-op"])

end BarterModel.Driver.C06

def main (args : List String) : IO UInt32 :=
  BarterModel.Driver.runMain BarterModel.Driver.C06.model BarterModel.Driver.C06.spec args
