import BarterModel.Driver.Common
import BarterModel.Model.Clock
/-!
Line-protocol driver for C20K (engine clocks).

Ops
* `new <t>`                      `HistoricalClock::new(t)`
* `ev <event>` / `evc <event>`   `clock.process(&event)` (`evc`: through a clone of the clock)
* `time`                         `clock.time()`
* `live`                         `LiveClock.time()` (after `LiveClock.process(&event)` of a dummy event)
* `sleep <us>`                   let wall-clock time pass
* `numms <ns>` / `numsec <ns>`   chrono's `TimeDelta::num_milliseconds` / `num_seconds` (trusted primitive)

`<event>` is one of `shutdown`, `command`, `tsu`, `accre`, `mktre`, `mkt <t>`, `bal <t>`, `trade <t>`,
`ord <state>`, `cancel ok:<t>`, `cancel err`, `snap b=<t>,<t>,.. i=<state>,<state>,.. i=..` with
`<state>` one of `oif`, `open:<t>`, `cif:none`, `cif:<t>`, `canc:<t>`, `full`, `failed`, `exp`.
All times are integer nanoseconds since the epoch.

The real wall clock cannot be controlled, so the drivers run on a virtual wall clock (strictly
increasing, one tick per op) and only wall-independent observations are printed:
`tx` (the event's exchange time), `last` (`time_exchange_last`), `anchor fresh|kept` (whether
`time_live_last_event` was re-read from the wall clock), `time within` (the value returned by `time()`
is `last + (w - anchor)` for a wall reading `w` taken during the call), `ge_last`, `live within`.
-/
namespace BarterModel.Driver.C20K
open BarterModel.Driver BarterModel.Clock

def parseList (s : String) : List String :=
  if s.isEmpty then [] else s.splitOn ","

def allSome {α : Type} : List (Option α) → Option (List α)
  | [] => some []
  | none :: _ => none
  | some a :: rest => (allSome rest).map (a :: ·)

def parseState (s : String) : Option OrderState :=
  match s.splitOn ":" with
  | ["oif"] => some .openInFlight
  | ["full"] => some .fullyFilled
  | ["failed"] => some .openFailed
  | ["exp"] => some .expired
  | ["open", t] => t.toInt?.map .open
  | ["canc", t] => t.toInt?.map .cancelled
  | ["cif", "none"] => some (.cancelInFlight none)
  | ["cif", t] => t.toInt?.map (fun t => .cancelInFlight (some t))
  | _ => none

def parseSnap (toks : List String) : Option AccountSnapshot :=
  match toks with
  | b :: insts =>
    if !b.startsWith "b=" then none else
    match allSome ((parseList (b.drop 2).toString).map String.toInt?) with
    | none => none
    | some bals =>
      let one (tok : String) : Option (List OrderState) :=
        if !tok.startsWith "i=" then none
        else allSome ((parseList (tok.drop 2).toString).map parseState)
      (allSome (insts.map one)).map fun is => { balances := bals, instruments := is }
  | [] => none

def parseEvent : List String → Option EngineEvent
  | ["shutdown"] => some .shutdown
  | ["command"] => some .command
  | ["tsu"] => some .tradingStateUpdate
  | ["accre"] => some .accountReconnecting
  | ["mktre"] => some .marketReconnecting
  | ["mkt", t] => t.toInt?.map .marketItem
  | ["bal", t] => t.toInt?.map fun t => .accountItem (.balanceSnapshot t)
  | ["trade", t] => t.toInt?.map fun t => .accountItem (.trade t)
  | ["ord", st] => (parseState st).map fun st => .accountItem (.orderSnapshot st)
  | ["cancel", "err"] => some (.accountItem (.orderCancelled none))
  | ["cancel", r] =>
    match r.splitOn ":" with
    | ["ok", t] => t.toInt?.map fun t => .accountItem (.orderCancelled (some t))
    | _ => none
  | "snap" :: rest => (parseSnap rest).map fun s => .accountItem (.snapshot s)
  | _ => none

def fmtOptInt : Option Int → String
  | none => "none"
  | some t => toString t

def sevTag : Severity → String
  | .debug => "debug"
  | .warn => "warn"
  | .error => "error"

def outcomeTag : Outcome → String
  | .noTimestamp => "no-timestamp"
  | .updated => "updated"
  | .outOfOrder s => "out-of-order-" ++ sevTag s

/-- one virtual tick (ns) per op -/
def tick : Int := 1000

def primitives : List String → Option (List String)
  | ["numms", d] => d.toInt?.map fun d =>
      ["numms " ++ toString (numMilliseconds d), "guard " ++ fmtBool (decide (numMilliseconds d ≥ 0))]
  | ["numsec", d] => d.toInt?.map fun d => ["numsec " ++ toString (numSeconds d)]
  | _ => none

/-- `enew` (clock inside a real engine) is the same clock. -/
def normalise : List String → List String
  | "enew" :: rest => "new" :: rest
  | toks => toks

structure St where
  clock : Option HistoricalClock
  wall : Int

def model : Drv St where
  init := ⟨none, 0⟩
  step s toks :=
    let wall := s.wall + tick
    let toks := normalise toks
    match toks with
    | ["new", t] =>
      match t.toInt? with
      | some t =>
        let c := HistoricalClock.new t wall
        (⟨some c, wall⟩, ["last " ++ toString c.timeExchangeLast, "anchor fresh"])
      | none => (s, ["bad-op"])
    | ["sleep", us] =>
      match us.toNat? with
      | some us => (⟨s.clock, wall + (us : Int) * 1000⟩, [])
      | none => (s, ["bad-op"])
    | ["live"] =>
      let c : LiveClock := (LiveClock.mk).process EngineEvent.shutdown
      (⟨s.clock, wall⟩, [if c.time wall == wall then "live within" else "live outside"])
    | ["time"] =>
      match s.clock with
      | none => (s, ["bad-op"])
      | some c =>
        let t := c.time wall
        let implied := c.timeLiveLastEvent + (t - c.timeExchangeLast)
        (⟨s.clock, wall⟩,
          [if implied == wall then "time within" else "time outside",
           "ge_last " ++ fmtBool (decide (t ≥ c.timeExchangeLast))])
    | op :: rest =>
      if op == "ev" || op == "evc" then
        match s.clock, parseEvent rest with
        | some c, some ev =>
          let te := ev.timeExchange
          let (c', out) := c.process te wall
          (⟨some c', wall⟩,
            ["tx " ++ fmtOptInt te,
             "last " ++ toString c'.timeExchangeLast,
             "anchor " ++ (if c'.timeLiveLastEvent == wall then "fresh"
                else if c'.timeLiveLastEvent == c.timeLiveLastEvent then "kept" else "bad"),
             "% " ++ outcomeTag out])
        | _, _ => (s, ["bad-op"])
      else
        match primitives toks with
        | some lines => (⟨s.clock, wall⟩, lines)
        | none => (s, ["bad-op"])
    | [] => (s, ["bad-op"])

structure SpecSt where
  started : Bool
  seed : Int
  w0 : Int
  hist : History
  wall : Int

def spec : Drv SpecSt where
  init := ⟨false, 0, 0, [], 0⟩
  step s toks :=
    let wall := s.wall + tick
    let toks := normalise toks
    match toks with
    | ["new", t] =>
      match t.toInt? with
      | some t => (⟨true, t, wall, [], wall⟩, ["last " ++ toString (specLast t []), "anchor fresh"])
      | none => (s, ["bad-op"])
    | ["sleep", us] =>
      match us.toNat? with
      | some us => ({ s with wall := wall + (us : Int) * 1000 }, [])
      | none => (s, ["bad-op"])
    | ["live"] => ({ s with wall := wall }, ["live within"])
    | ["time"] =>
      if !s.started then (s, ["bad-op"]) else
      let t := specTime s.seed s.w0 s.hist wall
      let implied := specAnchor s.seed s.w0 s.hist + (t - specLast s.seed s.hist)
      ({ s with wall := wall },
        [if implied == wall then "time within" else "time outside",
         "ge_last " ++ fmtBool (decide (t ≥ specLast s.seed s.hist))])
    | op :: rest =>
      if op == "ev" || op == "evc" then
        match s.started, parseEvent rest with
        | true, some ev =>
          let te := specTimeExchange ev
          let before := specLast s.seed s.hist
          let hist := (wall, te) :: s.hist
          let anchor :=
            -- an event exactly as recent as the clock: the documentation leaves open whether the
            -- elapsed-time anchor restarts
            if te == some before then "{fresh|kept}"
            else if specAnchor s.seed s.w0 hist == wall then "fresh"
            else if specAnchor s.seed s.w0 hist == specAnchor s.seed s.w0 s.hist then "kept"
            else "bad"
          ({ s with hist := hist, wall := wall },
            ["tx " ++ fmtOptInt te, "last " ++ toString (specLast s.seed hist), "anchor " ++ anchor])
        | _, _ => (s, ["bad-op"])
      else
        match primitives toks with
        | some lines => ({ s with wall := wall }, lines)
        | none => (s, ["bad-op"])
    | [] => (s, ["bad-op"])

end BarterModel.Driver.C20K

def main (args : List String) : IO UInt32 :=
  BarterModel.Driver.runMain BarterModel.Driver.C20K.model BarterModel.Driver.C20K.spec args
