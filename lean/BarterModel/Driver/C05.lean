import BarterModel.Driver.Common
import BarterModel.Model.Book
/-!
Line-protocol driver for C05.

Ops
* `init n`                                  `n` configured instruments (keys `0..n-1`), default books
* `snap k seq | p:a p:a … | p:a …`          `OrderBookEvent::Snapshot(OrderBook::new(seq, bids, asks))` for key `k`
* `upd  k seq | p:a … | p:a …`              `OrderBookEvent::Update(OrderBook::new(seq, bids, asks))` for key `k`
* `updr k seq | p:a … | p:a …`              the same with the levels kept in the order written (a deserialised book)
* `depth k d`                               `snapshot(d)` of the book of key `k` (`snapd` line; `d` a `usize`)
* `re`                                      `MarketStreamEvent::Reconnecting`
* `mgr`                                     run the whole stream so far through `OrderBookL2Manager::run`
                                            on fresh books and print every configured book

Observations after `snap`/`upd` for a configured key: `ev` (the event's levels as stored by the
constructor), `seq`, `bids`, `asks`, `mid`, `vwmid`, `snap0`, `snap1`, `snap3`; `skip` for `re` and for
a non-configured key; `book k …` lines for `mgr`.
-/
namespace BarterModel.Driver.C05
open BarterModel.Driver BarterModel.Book

def fmtLevels (ls : List Level) : String :=
  " ".intercalate (ls.map fun l => fmtRat l.price ++ ":" ++ fmtRat l.amount)

def fmtSides (bids asks : List Level) : String :=
  fmtLevels bids ++ " | " ++ fmtLevels asks

def fmtBook (b : OrderBook) : String :=
  toString b.sequence ++ " " ++ fmtSides b.bids b.asks

def parseLevel? (s : String) : Option Level :=
  match s.splitOn ":" with
  | [p, a] =>
    match parseRat? p, parseRat? a with
    | some p, some a => some ⟨p, a⟩
    | _, _ => none
  | _ => none

def parseLevels? : List String → Option (List Level)
  | [] => some []
  | t :: ts =>
    match parseLevel? t, parseLevels? ts with
    | some l, some ls => some (l :: ls)
    | _, _ => none

/-- `k seq | bids | asks` -/
def parseBody? (toks : List String) : Option (Nat × Nat × List Level × List Level) :=
  match toks with
  | k :: seq :: "|" :: rest =>
    let bidToks := rest.takeWhile (· != "|")
    match rest.dropWhile (· != "|") with
    | "|" :: askToks =>
      match k.toNat?, seq.toNat?, parseLevels? bidToks, parseLevels? askToks with
      | some k, some seq, some bids, some asks =>
        -- `sequence: u64`: the harness reports anything else as `bad-op`
        if seq < 2 ^ 64 then some (k, seq, bids, asks) else none
      | _, _, _, _ => none
    | _ => none
  | _ => none

/-- `snap …` / `upd …` to (key, event); the event's book goes through `OrderBook.new` (model) -/
def parseEvent? : List String → Option (Nat × Event)
  | "snap" :: body => (parseBody? body).map fun (k, seq, b, a) => (k, .snapshot (OrderBook.new seq b a))
  | "upd" :: body => (parseBody? body).map fun (k, seq, b, a) => (k, .update (OrderBook.new seq b a))
  -- an update whose sides carry the levels in the order given (an `OrderBook` obtained by
  -- deserialisation is not re-sorted): `OrderBook::update` upserts them in that order
  | "updr" :: body => (parseBody? body).map fun (k, seq, b, a) => (k, .update ⟨seq, b, a⟩)
  | _ => none

def depths : List Nat := [0, 1, 3]

def obsBook (seq : Nat) (bids asks : List Level) (mid vwmid : Option Rat) (snaps : List (Nat × OrderBook)) :
    List String :=
  [ "seq " ++ toString seq,
    "bids " ++ fmtLevels bids,
    "asks " ++ fmtLevels asks,
    "mid " ++ fmtOptRatApprox mid,
    "vwmid " ++ fmtOptRatApprox vwmid ] ++
  snaps.map fun (d, s) => "snap" ++ toString d ++ " " ++ fmtBook s

structure MSt where
  n : Nat
  books : Books
  stream : List StreamEvent

def initBooks (n : Nat) : Books := (List.range n).map fun k => (k, OrderBook.default)

def model : Drv MSt where
  init := ⟨0, [], []⟩
  step s toks :=
    match toks with
    | ["init", n] =>
      match n.toNat? with
      | some n => (⟨n, initBooks n, []⟩, [])
      | none => (s, ["bad-op"])
    | ["re"] => ({ s with stream := s.stream ++ [StreamEvent.reconnecting] }, ["skip"])
    | ["mgr"] =>
      let final := managerRun (initBooks s.n) s.stream
      (s, final.map fun (k, b) => "book " ++ toString k ++ " " ++ fmtBook b)
    | ["depth", k, d] =>
      match k.toNat?, d.toNat? with
      | some k, some d =>
        if d ≥ 2 ^ 64 then (s, ["bad-op"]) else
        match s.books.lookup k with
        | none => (s, ["skip"])
        | some b => (s, ["snapd " ++ fmtBook (b.snapshot d)])
      | _, _ => (s, ["bad-op"])
    | _ =>
      match parseEvent? toks with
      | none => (s, ["bad-op"])
      | some (k, ev) =>
        let s := { s with stream := s.stream ++ [StreamEvent.item k ev] }
        match s.books.lookup k with
        | none => (s, ["skip"])
        | some b =>
          let b' := b.update ev
          let books := s.books.map fun (k', x) => if k' = k then (k', b') else (k', x)
          ({ s with books := books },
            ("ev " ++ fmtSides ev.book.bids ev.book.asks) ::
            obsBook b'.sequence b'.bids b'.asks b'.midPrice b'.volumeWeightedMidPrice
              (depths.map fun d => (d, b'.snapshot d)))

structure SSt where
  n : Nat
  maps : List (Nat × Spec)

/-- The spec driver sees the same events (the event's levels as constructed) but keeps only the
abstract maps; every observation is computed from the maps. -/
def spec : Drv SSt where
  init := ⟨0, []⟩
  step s toks :=
    match toks with
    | ["init", n] =>
      match n.toNat? with
      | some n => (⟨n, (List.range n).map fun k => (k, Spec.init)⟩, [])
      | none => (s, ["bad-op"])
    | ["re"] => (s, ["skip"])
    | ["mgr"] =>
      (s, s.maps.map fun (k, m) => "book " ++ toString k ++ " " ++ fmtBook m.book)
    | ["depth", k, d] =>
      match k.toNat?, d.toNat? with
      | some k, some d =>
        if d ≥ 2 ^ 64 then (s, ["bad-op"]) else
        match s.maps.lookup k with
        | none => (s, ["skip"])
        | some m => (s, ["snapd " ++ fmtBook (m.snapshot d)])
      | _, _ => (s, ["bad-op"])
    | _ =>
      match parseEvent? toks with
      | none => (s, ["bad-op"])
      | some (k, ev) =>
        match s.maps.lookup k with
        | none => (s, ["skip"])
        | some m =>
          let m' := m.step ev
          let maps := s.maps.map fun (k', x) => if k' = k then (k', m') else (k', x)
          ({ s with maps := maps },
            obsBook m'.sequence (PMap.levels .bids m'.bids) (PMap.levels .asks m'.asks)
              m'.midPrice m'.volumeWeightedMidPrice (depths.map fun d => (d, m'.snapshot d)))

end BarterModel.Driver.C05

def main (args : List String) : IO UInt32 :=
  BarterModel.Driver.runMain BarterModel.Driver.C05.model BarterModel.Driver.C05.spec args
