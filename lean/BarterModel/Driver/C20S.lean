import BarterModel.Driver.Common
import BarterModel.Driver.EngineCommon
import BarterModel.Model.SysHandle
/-!
Line-protocol driver for the sub-check C20S (System handle + SystemBuilder wiring).

  `sys <iter|stream|dflt> <on|off|dflt> <on|off|dflt> <k> <x2> <quote> <base> <latency ms>`
  `sysb <calls|-> <k> <x2> <quote> <base> <latency ms>`  (configuration shape: the builder calls
     `f=iter|f=stream|a=on|a=off|t=on|t=off`, comma separated, in ANY order, setters repeated; x2 = 2: the
     exchange without execution link sorts BEFORE the mocked one - for the model the same as x2 = 1)
  `mkt i:p[:S:q] ...` | `mktre`
  `call open <req>..` | `call cancel <req>..` | `call close <filter>` | `call cancel_orders <filter>`
     | `call trading on|off`
  `settle` | `sleep <ms>` | `take_audit` | `shutdown` | `abort` | `join`

`model`: every op becomes a list of `SysHandle.Act`s, the state is always `SysHandle.run` of them.
`spec`: what the documentation alone determines (history-only functions of the ops).
-/
namespace BarterModel.Driver.C20S
open BarterModel.Driver BarterModel.Driver.EngineCommon BarterModel.SysHandle
open BarterModel.Engine BarterModel.Orders

def fmtFilter : Filter → String
  | .none => "none"
  | .exchanges l => "ex:" ++ ",".intercalate (l.map toString)
  | .instruments l => "ins:" ++ ",".intercalate (l.map toString)
  | .underlyings _ => "und"

def assetLabel (k a : Nat) : String := if a == k then "q" else s!"b{a}"

def sortStrings (l : List String) : List String := (l.toArray.qsort (· < ·)).toList

/-- canonical tag of a feed event (same text as the harness's `tag`) -/
def tagOf (k : Nat) : CEv → String
  | .shutdown => "H:shutdown"
  | .trading on => "H:trading:" ++ (if on then "on" else "off")
  | .command (.sendCancelRequests rs) => "H:cancel:" ++ "+".intercalate (rs.map fmtCancel)
  | .command (.sendOpenRequests rs) => "H:open:" ++ "+".intercalate (rs.map fmtOpenReq)
  | .command (.closePositions f) => "H:close:" ++ fmtFilter f
  | .command (.cancelOrders f) => "H:cancel_orders:" ++ fmtFilter f
  | .market m => if m.marker then "M:re" else s!"M:{m.id}"
  | .account (.snapshot q base) =>
    let bs := sortStrings ((base.zipIdx.map fun (b, j) => s!"b{j}={fmtRat b}") ++ [s!"q={fmtRat q}"])
    "A:snap:" ++ ",".intercalate bs ++ ":orders=0"
  | .account (.balance a t) => s!"A:bal:{assetLabel k a}={fmtRat t}"
  | .account (.order _ cid _ _ filled _) => s!"A:ord:{cid}:" ++ (if filled then "filled" else "rejected")
  | .account (.cancelErr _ cid) => s!"A:cancel:{cid}:err"
  | .account (.trade i side q p) => s!"A:trade:{i}:{fmtSide side}:{fmtRat q}@{fmtRat p}"

def fmtOpenS (o : Open) : String := s!"({o.id},{fmtRat o.filled})"

/-- `strip`: in-flight request markers set aside (what a state replica can know) -/
def fmtActiveS (strip : Bool) : Active → Option String
  | .inFlight => if strip then none else some "F"
  | .opn o => some ("O" ++ fmtOpenS o)
  | .cancelInFlight none => if strip then none else some "C(-)"
  | .cancelInFlight (some o) => some ((if strip then "O" else "C") ++ fmtOpenS o)

def obsEng (strip : Bool) (e : Engine.Eng) : List String :=
  (e.instruments.zipIdx.flatMap fun (s, i) =>
    let l := (s.orders.toArray.qsort (fun a b => a.1 < b.1)).toList
    [ s!"ord{i} " ++ joinOr (l.filterMap fun (c, o) => (fmtActiveS strip o.state).map fun t => s!"{c}:{t}"),
      s!"pos{i} " ++ (match s.position with | some (sd, q) => s!"{fmtSide sd}:{fmtRat q}" | none => "none"),
      s!"price{i} " ++ (match s.price with | some p => fmtRat p | none => "none") ]) ++
  [ "trading " ++ (if e.enabled then "on" else "off") ]

structure St where
  sys : Option CSys
  e0 : CEng
  k : Nat
  /-- processed events already printed -/
  printed : Nat
  mktCount : Nat
  /-- the audit, if `take_audit` returned it -/
  taken : Option (CEng × Nat)
  /-- the system value has been consumed -/
  gone : Bool
  /-- virtual time (ms), latency of the mock exchange, and for every pending account event (same
  order as `Sys.pending`) the virtual time at which it leaves the exchange -/
  now : Nat
  latency : Nat
  dues : List Nat

def St.init : St := ⟨none, cMkEngine 0 false false, 0, 0, 0, none, false, 0, 0, []⟩

/-- "await until nothing moves any more" with a virtual clock: as `pickSettle`, but an account event
is delivered only once it is due (responses and notifications of the mock exchange leave it `latency`
ms after the request; the error answering a cancel request leaves at once). Every transition is a
`SysHandle.step`. -/
def settleLoop : Nat → CSys → List Nat → Nat → Nat → CSys × List Nat
  | 0, s, d, _, _ => (s, d)
  | fuel + 1, s, d, now, lat =>
    if s.stopped.isSome then (s, d)
    else if !s.feed.isEmpty then
      let s' := step cEngine cExchange s .engine
      let fresh := s'.pending.drop s.pending.length
      let d' := d ++ fresh.map fun a => match a with | .cancelErr _ _ => now | _ => now + lat
      settleLoop fuel s' d' now lat
    else if !s.market.isEmpty then settleLoop fuel (step cEngine cExchange s .fwdMarket) d now lat
    else
      match d.findIdx? (· ≤ now) with
      | some k => settleLoop fuel (step cEngine cExchange s (.fwdAccount k)) (d.eraseIdx k) now lat
      | none => (s, d)

def fuel : Nat := 100000

def parseMode? : String → Option (Option EngineFeedMode)
  | "iter" => some (some .iterator)
  | "stream" => some (some .stream)
  | "dflt" => some none
  | _ => none

def parseOnOff? : String → Option (Option Bool)
  | "on" => some (some true)
  | "off" => some (some false)
  | "dflt" => some none
  | _ => none

/-- A market item; the input-level guard `SysHandle.MktOk` (positive price, positive reaction
quantity) is enforced here: anything else is `bad-op` on both sides (the real engine panics on
positions of quantity 0 / entry price 0: `Props.C20S.zero_quantity_fill_witness`). -/
def parseMkt (id : Nat) (t : String) : Option MktEv :=
  match t.splitOn ":" with
  | [i, p] =>
    match i.toNat?, parseRat? p with
    | some i, some p => if 0 < p then some ⟨id, i, p, none, false⟩ else none
    | _, _ => none
  | [i, p, sd, q] =>
    match i.toNat?, parseRat? p, parseSide sd, parseRat? q with
    | some i, some p, some sd, some q => if 0 < p && 0 < q then some ⟨id, i, p, some (sd, q), false⟩ else none
    | _, _, _, _ => none
  | _ => none

/-- A handle call; the input-level guard `SysHandle.ActOk` (open requests with positive price and
quantity) is enforced here. -/
def parseCall : List String → Option (Call Command)
  | "open" :: rs => (parseReqs rs).bind fun (cs, os) =>
      if cs.isEmpty && !os.isEmpty && os.all (fun o => 0 < o.price && 0 < o.quantity)
        then some (send_open_requests os) else none
  | "cancel" :: rs => (parseReqs rs).bind fun (cs, os) =>
      if os.isEmpty && !cs.isEmpty then some (send_cancel_requests cs) else none
  | ["close", f] => (parseFilter f).map close_positions
  | ["cancel_orders", f] => (parseFilter f).map cancel_orders
  | ["trading", "on"] => some (trading_state true)
  | ["trading", "off"] => some (trading_state false)
  | _ => none

/-- tags of the events processed since the last observation: handle and market events in order,
account events sorted -/
def newEvents (st : St) (s : CSys) : St × List String :=
  let tags := (s.processed.drop st.printed).map (tagOf st.k)
  let pick := fun (p : String) => tags.filter (·.startsWith p)
  ({ st with printed := s.processed.length },
   [ "h " ++ joinOr (pick "H:"), "m " ++ joinOr (pick "M:"), "a " ++ joinOr (sortStrings (pick "A:")) ])

def tickTag (k : Nat) : Tick CEv → String
  | .feedEnded _ => "feed_ended"
  | .process _ ev fatal => tagOf k ev ++ (if fatal then "!fatal" else "")

def finalBlock (st : St) (s : CSys) (how : String) (eng : Eng CEng) (audit : Tick CEv) : St × List String :=
  let (st, ev) := newEvents st s
  let own := engFold cEngine st.e0 s.processed
  let ownOk := obsEng false own.eng == obsEng false eng.state.eng &&
    own.eng.disabledCalls == eng.state.eng.disabledCalls &&
    seq0 s.auditMode + s.processed.length == eng.seq
  let auditLines : List String :=
    match st.taken with
    | none => ["audit none"]
    | some (snap, snapSeq) =>
      let ticks := s.ticks
      let evs := ticks.filterMap Tick.event?
      let aticks := cAuditTicks snap (snapSeq + 1) s.processed
      let rep := Audit.Replica.run ⟨snap.eng, snapSeq⟩ aticks
      [ s!"audit snap_seq={snapSeq} ticks={ticks.length} closed={fmtBool s.stopped.isSome}",
        "audit_consecutive " ++ fmtBool (consecutiveFrom (snapSeq + 1) ticks),
        "audit_terminal_last " ++ fmtBool (terminalLast ticks),
        "audit_events_eq_feed " ++ fmtBool (evs.map (tagOf st.k) == s.processed.map (tagOf st.k)) ] ++
      (match rep with
       | .ok r =>
         [ "replica_ok 1",
           "replica_eq " ++ fmtBool (obsEng true r.state == obsEng true eng.state.eng),
           s!"replica_seq {r.seq}" ]
       | .error _ => [ "replica_ok 0", "replica_eq 0", "replica_seq 0" ])
  ({ st with gone := true, sys := some s },
   [ "res " ++ how ] ++ ev ++
   [ "shutdown_audit " ++ tickTag st.k audit,
     s!"seq {eng.seq}",
     s!"processed {s.processed.length}",
     s!"seq_off {(eng.seq : Int) - (s.processed.length : Int)}",
     s!"disabled_calls {eng.state.eng.disabledCalls}",
     s!"disconnects {eng.state.disconnects}" ] ++
   obsEng false eng.state.eng ++
   [ "own " ++ fmtBool ownOk ] ++ auditLines)

/-- one builder call of the configuration-shape line `sysb` -/
inductive BCall where
  | feed (m : EngineFeedMode)
  | audit (on : Bool)
  | trading (on : Bool)

def parseBCall? : String → Option BCall
  | "f=iter" => some (.feed .iterator)
  | "f=stream" => some (.feed .stream)
  | "a=on" => some (.audit true)
  | "a=off" => some (.audit false)
  | "t=on" => some (.trading true)
  | "t=off" => some (.trading false)
  | _ => none

/-- `-` = no call at all, else a comma-separated list of calls (any order, setters repeated) -/
def parseBCalls? (s : String) : Option (List BCall) :=
  if s == "-" then some [] else (s.splitOn ",").mapM parseBCall?

def applyBCall (b : SystemBuilder) : BCall → SystemBuilder
  | .feed m => b.engine_feed_mode m
  | .audit on => b.audit_mode (if on then .enabled else .disabled)
  | .trading on => b.trading_state on

/-- `sys` and `sysb` differ only in how the builder calls are written down -/
def normSys : List String → Option (List BCall × String × String × String × String × String)
  | ["sys", feed, audit, trading, k, x2, quote, base, lat] =>
    match parseMode? feed, parseOnOff? audit, parseOnOff? trading with
    | some feed, some audit, some trading =>
      some ((match feed with | some m => [BCall.feed m] | none => []) ++
            (match audit with | some on => [BCall.audit on] | none => []) ++
            (match trading with | some on => [BCall.trading on] | none => []), k, x2, quote, base, lat)
    | _, _, _ => none
  | ["sysb", calls, k, x2, quote, base, lat] => (parseBCalls? calls).map fun cs => (cs, k, x2, quote, base, lat)
  | _ => none

def model : Drv St where
  init := St.init
  step st toks :=
    match toks with
    | "sys" :: _ | "sysb" :: _ =>
      match normSys toks with
      | none => (st, ["bad-op"])
      | some (calls, k, x2, quote, base, lat) =>
      match k.toNat?, parseRat? quote, parseRat? base, lat.toNat? with
      | some k, some quote, some base, some lat =>
        -- x2 = 2: the exchange without execution link sorts before the mocked one (index shape only)
        if x2 != "0" && x2 != "1" && x2 != "2" then (st, ["bad-op"]) else
        let x2 := x2 != "0"
        let b3 := calls.foldl applyBCall SystemBuilder.new
        let build := b3.build (cMkEngine k x2)
        let exch : CExch := { k := k, quote := quote, base := List.replicate k base }
        let s : CSys := build.init exch [.snapshot quote (List.replicate k base)]
        ({ sys := some s, e0 := build.engine, k := k, printed := 0, mktCount := 0, taken := none, gone := false,
           now := 0, latency := lat, dues := [0] },
         [ "built feed=" ++ (if build.engineFeedMode == .iterator then "iter" else "stream") ++
             " audit=" ++ (if build.auditMode == .enabled then "on" else "off") ++
             " trading=" ++ (if build.engine.eng.enabled then "on" else "off") ++ " seq=0",
           "audit_present " ++ fmtBool s.auditHeld ])
      | _, _, _, _ => (st, ["bad-op"])
    | _ =>
      match st.sys with
      | none => (st, ["bad-op"])
      | some s =>
      if st.gone then
        match toks with
        | "mkt" :: _ | ["mktre"] | "call" :: _ | ["settle"] | ["sleep", _] | ["take_audit"] | ["shutdown"] | ["abort"] | ["join"] =>
          (st, ["nosys"])
        | _ => (st, ["bad-op"])
      else
      match toks with
      | "mkt" :: items =>
        let parsed := items.zipIdx.map fun (t, j) => parseMkt (st.mktCount + j) t
        if parsed.any Option.isNone || items.isEmpty then (st, ["bad-op"]) else
        let ms := parsed.filterMap id
        let s' := run cEngine cExchange s (ms.map Act.push)
        ({ st with sys := some s', mktCount := st.mktCount + ms.length }, [s!"pushed {ms.length}"])
      | ["mktre"] =>
        let s' := run cEngine cExchange s [Act.push ⟨0, 0, 0, none, true⟩]
        ({ st with sys := some s' }, ["pushed 1"])
      | "call" :: rest =>
        match parseCall rest with
        | none => (st, ["bad-op"])
        | some c =>
          let s' := run cEngine cExchange s [Act.call c]
          ({ st with sys := some s' }, [if s'.panics > s.panics then "panic" else "sent"])
      | ["settle"] =>
        let (s', d') := settleLoop fuel s st.dues st.now st.latency
        let (st', ev) := newEvents st s'
        ({ st' with sys := some s', dues := d' }, ev ++ ["alive " ++ fmtBool s'.stopped.isNone])
      | ["sleep", ms] =>
        match ms.toNat? with
        | none => (st, ["bad-op"])
        | some ms =>
          let now := st.now + ms
          let (s', d') := settleLoop fuel s st.dues now st.latency
          let (st', ev) := newEvents st s'
          ({ st' with sys := some s', dues := d', now := now }, ev ++ ["alive " ++ fmtBool s'.stopped.isNone])
      | ["take_audit"] =>
        let got := takeAuditResult s
        let s' := run cEngine cExchange s [Act.takeAudit]
        ({ st with sys := some s', taken := (match got with | some g => some g | none => st.taken) },
         ["audit " ++ (if got.isSome then "some" else "none")])
      | [how] =>
        if how == "shutdown" || how == "abort" then
          let s1 := run cEngine cExchange s [Act.close (if how == "shutdown" then .graceful else .aborted)]
          if s1.closePanicked then ({ st with sys := some s1, gone := true }, ["panic"]) else
          let acts := schedActs cEngine cExchange pickDrain fuel s1
          let s2 := run cEngine cExchange s1 acts
          -- what the CALLER gets: `shutdown()` hands back the `JoinError` of a dead execution task
          -- instead of the engine, `abort()` cannot fail (`SysHandle.outcome`)
          match outcome CExch.dead s2 with
          | some (.ok eng audit) => finalBlock st s2 how eng audit
          | some .joinError => ({ st with sys := some s2, gone := true }, ["res joinerr 1"])
          | none => ({ st with sys := some s2, gone := true }, ["hang"])
        else if how == "join" then
          match joinResult s with
          | some (eng, audit) => finalBlock st s how eng audit
          | none => ({ st with gone := true }, ["hang"])
        else (st, ["bad-op"])
      | _ => (st, ["bad-op"])

/-! ### spec view: functions of the op history only -/

structure SpecSt where
  active : Bool
  audit : Bool
  trading0 : Bool
  /-- every handle event sent so far -/
  handle : List CEv
  newH : List String
  newM : List String
  /-- a request for the exchange without execution link was sent in this segment -/
  fatalPending : Bool
  /-- … and the engine has stopped on it -/
  dead : Bool
  taken : Bool
  gone : Bool
  mktCount : Nat
  k : Nat
  /-- a request for an instrument the mocked exchange does not list has been sent to it: its
  execution manager task has panicked -/
  execDead : Bool

def SpecSt.init : SpecSt := ⟨false, false, false, [], [], [], false, false, false, false, 0, 0, false⟩

/-- a command that carries a request addressed to the mocked exchange (0) for an instrument it does
not list -/
def callKillsExec (k : Nat) : Call Command → Bool
  | .command (.sendOpenRequests rs) => rs.any fun r => r.key.exchange == 0 && k ≤ r.key.instrument
  | .command (.sendCancelRequests rs) => rs.any fun r => r.key.exchange == 0 && k ≤ r.key.instrument
  | _ => false

/-- a command that carries a request for exchange 1 (no execution configured) -/
def callIsFatal : Call Command → Bool
  | .command (.sendOpenRequests rs) => rs.any fun r => r.key.exchange != 0
  | .command (.sendCancelRequests rs) => rs.any fun r => r.key.exchange != 0
  | _ => false

def specAuditLines (s : SpecSt) : List String :=
  if s.taken then
    [ "audit_consecutive 1", "audit_terminal_last 1", "audit_events_eq_feed 1", "replica_ok 1", "replica_eq 1" ]
  else [ "audit none" ]

def spec : Drv SpecSt where
  init := SpecSt.init
  step s toks :=
    match toks with
    | "sys" :: _ | "sysb" :: _ =>
      match normSys toks with
      | none => (s, ["bad-op"])
      | some (calls, k, x2, quote, base, lat) =>
      match k.toNat?, parseRat? quote, parseRat? base, lat.toNat? with
      | some k, some _, some _, some _ =>
        if x2 != "0" && x2 != "1" && x2 != "2" then (s, ["bad-op"]) else
        -- documented: the LAST call of a setter counts, whatever was called before, between or after;
        -- documented defaults: Iterator, audit Disabled, trading Disabled
        let feedM := (calls.reverse.findSome? fun | .feed m => some m | _ => none).getD .iterator
        let auditOn := (calls.reverse.findSome? fun | .audit on => some on | _ => none).getD false
        let tradingOn := (calls.reverse.findSome? fun | .trading on => some on | _ => none).getD tradingDefault
        ({ SpecSt.init with active := true, audit := auditOn, trading0 := tradingOn, k := k },
         [ "built feed=" ++ (if feedM == .iterator then "iter" else "stream") ++
             " audit=" ++ (if auditOn then "on" else "off") ++
             " trading=" ++ (if tradingOn then "on" else "off") ++ " seq=0",
           "audit_present " ++ fmtBool auditOn ])
      | _, _, _, _ => (s, ["bad-op"])
    | _ =>
      if !s.active then (s, ["bad-op"]) else
      if s.gone then (s, []) else
      match toks with
      | "mkt" :: items =>
        -- the input guard (`parseMkt`) rejects items with a non-positive price / reaction quantity
        if items.isEmpty || (items.zipIdx.any fun (t, j) => (parseMkt j t).isNone) then (s, ["bad-op"]) else
        if s.dead then (s, []) else
        let ids := (List.range items.length).map fun j => s!"M:{s.mktCount + j}"
        ({ s with newM := s.newM ++ ids, mktCount := s.mktCount + items.length }, [s!"pushed {items.length}"])
      | ["mktre"] => if s.dead then (s, []) else ({ s with newM := s.newM ++ ["M:re"] }, ["pushed 1"])
      | "call" :: rest =>
        match parseCall rest with
        | none => (s, ["bad-op"])
        | some c =>
          if s.dead || s.fatalPending then (s, []) else
          let ev : CEv := c.event
          ({ s with handle := s.handle ++ [ev], newH := s.newH ++ [tagOf s.k ev],
                    fatalPending := callIsFatal c, execDead := s.execDead || callKillsExec s.k c }, ["sent"])
      | ["settle"] | ["sleep", _] =>
        if s.dead then (s, []) else
        let lines := [ "h " ++ joinOr s.newH ] ++ (if s.fatalPending then [] else [ "m " ++ joinOr s.newM ])
        ({ s with newH := [], newM := [], dead := s.fatalPending, fatalPending := false }, lines)
      | ["take_audit"] =>
        let got := specTakeAudit (if s.audit then .enabled else .disabled) s.taken
        ({ s with taken := s.taken || got }, ["audit " ++ (if got then "some" else "none")])
      | [how] =>
        if how == "shutdown" || how == "abort" then
          if s.dead || s.fatalPending then ({ s with gone := true }, []) else
          -- `shutdown()` awaits the execution tasks and returns the join error of the one that
          -- panicked; `abort()` only aborts them (`Props.C20S.shutdown_fails_where_abort_succeeds`)
          if s.execDead && how == "shutdown" then ({ s with gone := true }, ["res joinerr 1"]) else
          let handle := s.handle ++ [Ev.shutdown]
          ({ s with gone := true },
           -- `m` / `a` EMPTY: nothing is processed behind the `Shutdown`, and in front of it only what
           -- the handle itself enqueued since the last await (`Props.C20S.final_segment_no_stream_events`,
           -- `nothing_after_stop`; oracle review C20S-H1)
           [ "res " ++ how, "h " ++ joinOr (s.newH ++ ["H:shutdown"]), "m ", "a ", "shutdown_audit H:shutdown",
             -- the sequence number counts exactly the processed events, +1 for the audit snapshot
             -- (`IsFoldOf`, `Props.C20S.engine_is_fold` / `refines_spec`)
             s!"seq_off {seq0 (if s.audit then .enabled else .disabled)}",
             s!"disabled_calls {specDisabledCalls s.trading0 handle}",
             "trading " ++ (if specTrading s.trading0 handle then "on" else "off"),
             "own 1" ] ++ specAuditLines s)
        else if how == "join" then
          if !s.dead then ({ s with gone := true }, []) else
          ({ s with gone := true },
           -- the engine had stopped before the last observation: nothing more was processed
           -- (`Props.C20S.nothing_after_stop`)
           [ "res join", "h ", "m ", "a ",
             s!"seq_off {seq0 (if s.audit then .enabled else .disabled)}",
             s!"disabled_calls {specDisabledCalls s.trading0 s.handle}",
             "trading " ++ (if specTrading s.trading0 s.handle then "on" else "off"),
             "own 1" ] ++ specAuditLines s)
        else (s, ["bad-op"])
      | _ => (s, ["bad-op"])

end BarterModel.Driver.C20S

def main (args : List String) : IO UInt32 :=
  BarterModel.Driver.runMain BarterModel.Driver.C20S.model BarterModel.Driver.C20S.spec args
