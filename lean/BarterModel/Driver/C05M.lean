import BarterModel.Driver.Common
import BarterModel.Model.BookManager
/-!
Line-protocol driver for the sub-check C05M (order book event dispatch, `OrderBookMap`, L2 manager).

`<body>` is `seq te | p:a p:a … | p:a …` (`te` = `-` or integer milliseconds; bids, then asks; any
order, duplicates and zero amounts allowed). Cells are the `Arc<RwLock<OrderBook>>` allocations,
numbered from 0 in allocation order.

Ops
* `lv p:a p:a`           derived `Ord` / `PartialEq` of two `Level`s
* `lsort p:a …`          `Vec<Level>::sort()` (derived `Ord`)
* `cell <body>`          allocate a cell holding `OrderBook::new(seq, te, bids, asks)`
* `celld`                allocate a cell holding `OrderBook::default()`
* `single k c`           map := `OrderBookMapSingle::new(k, cell c)`
* `multi k:c k:c …`      map := `OrderBookMapMulti::new(pairs collected into an FnvHashMap)`
* `insert k c`           `OrderBookMapMulti::insert(k, cell c)`
* `find k`               `OrderBookMap::find(&k)` (which cell, by `Arc::ptr_eq`)
* `keys`                 `OrderBookMap::keys()` (sorted)
* `snap k <body>`        queue `MarketStreamEvent::Item` for instrument `k` with `OrderBookEvent::Snapshot(OrderBook::new(..))`
* `upd k <body>`         … with `OrderBookEvent::Update(OrderBook::new(..))`
* `re`                   queue `MarketStreamEvent::Reconnecting`
* `run` / `runc`         `OrderBookL2Manager { stream: queued, books: map.clone() }.run()`; empties the queue; prints every cell
* `runr`                 `runc` with a second reader task that holds its own clones of every cell's `Arc` and
                         polls `try_read()` on all of them whenever the manager waits for the next event; prints
                         `rdlocked n` (how often a book was found write-locked between two events) first. The map
                         is documented as "clone the map for viewing the up to date OrderBooks elsewhere": a
                         reader is never shut out between events, so model and spec print `rdlocked 0`
* `depth c d`            `snapshot(d)` of the book in cell `c`

Observation keys carry the cell number (`b0`, `a0`, …) so that the spec can print a subset.

`vw<c>` is the panic-aware observation of `volume_weighed_mid_price` (`panic` where the `Decimal`
division by zero panics): the model prints `TBook.vwMidChecked`, the spec `vwMidCheckedSpec` of the
price → amount maps of a clean cell (`spec_observables`: they agree). The spec keeps no `BookMap`:
`found` / `keys` and the routing of `run` come from the log of associations made by the ops
(`AssocLog`; `map_refines_log`, `manager_refines_log_spec`).
-/
namespace BarterModel.Driver.C05M
open BarterModel.Driver BarterModel.Book BarterModel.BookManager

def fmtLevel (l : Level) : String := fmtRat l.price ++ ":" ++ fmtRat l.amount

def fmtLevels (ls : List Level) : String := " ".intercalate (ls.map fmtLevel)

def fmtPrices (ps : List Rat) : String := " ".intercalate (ps.map fmtRat)

def fmtTime : Option Int → String
  | none => "-"
  | some t => toString t

def fmtOrd : Ordering → String
  | .lt => "lt"
  | .eq => "eq"
  | .gt => "gt"

def parseLevel? (s : String) : Option Level :=
  match s.splitOn ":" with
  | [p, a] =>
    match parseRat? p, parseRat? a with
    | some p, some a => some ⟨p, a⟩
    | _, _ => none
  | _ => none

def parseLevels? : List String → Option (List Level)
  | [] => some []
  | t :: ts =>
    match parseLevel? t, parseLevels? ts with
    | some l, some ls => some (l :: ls)
    | _, _ => none

def parseTime? (s : String) : Option (Option Int) :=
  if s == "-" then some none else s.toInt?.map some

/-- `seq te | bids | asks` as the constructed book -/
def parseBody? (toks : List String) : Option TBook :=
  match toks with
  | seq :: te :: "|" :: rest =>
    let bidToks := rest.takeWhile (· != "|")
    match rest.dropWhile (· != "|") with
    | "|" :: askToks =>
      match seq.toNat?, parseTime? te, parseLevels? bidToks, parseLevels? askToks with
      | some seq, some te, some bids, some asks =>
        -- `sequence: u64`: the harness reports anything else as `bad-op`
        if seq < 2 ^ 64 then some (TBook.new seq te bids asks) else none
      | _, _, _, _ => none
    | _ => none
  | _ => none

def parsePair? (s : String) : Option (Nat × Nat) :=
  match s.splitOn ":" with
  | [k, c] =>
    match k.toNat?, c.toNat? with
    | some k, some c => some (k, c)
    | _, _ => none
  | _ => none

def parsePairs? : List String → Option (List (Nat × Nat))
  | [] => some []
  | t :: ts =>
    match parsePair? t, parsePairs? ts with
    | some l, some ls => some (l :: ls)
    | _, _ => none

def sortNat (ks : List Nat) : List Nat := ks.mergeSort (fun a b => a ≤ b)

def depths : List Nat := [0, 1, 2, 5]

def fmtBookLine (seq : Nat) (te : Option Int) (bids asks : List Level) : String :=
  toString seq ++ " " ++ fmtTime te ++ " " ++ fmtLevels bids ++ " | " ++ fmtLevels asks

/-- the panic-aware observation of `volume_weighed_mid_price`: `none` = the call panics (model) /
the micro-price is undefined (spec); the harness prints `panic` when `catch_unwind` catches one -/
def fmtVwChecked : Option (Option Rat) → String
  | none => "panic"
  | some v => fmtOptRatApprox v

/-- the observation block of one cell; `sfx` is the cell number -/
def obsFull (sfx : String) (b : TBook) : List String :=
  [ "h" ++ sfx ++ " " ++ toString b.sequence ++ " " ++ fmtTime b.timeEngine,
    "b" ++ sfx ++ " " ++ fmtLevels b.bids,
    "a" ++ sfx ++ " " ++ fmtLevels b.asks,
    "bp" ++ sfx ++ " " ++ fmtPrices (b.bids.map Level.price),
    "ap" ++ sfx ++ " " ++ fmtPrices (b.asks.map Level.price),
    "bb" ++ sfx ++ " " ++ (match best b.bids with | some l => fmtLevel l | none => "none"),
    "ba" ++ sfx ++ " " ++ (match best b.asks with | some l => fmtLevel l | none => "none"),
    "mid" ++ sfx ++ " " ++ fmtOptRatApprox b.midPrice,
    "vw" ++ sfx ++ " " ++ fmtVwChecked b.vwMidChecked,
    "def" ++ sfx ++ " " ++ fmtBool (decide (b = TBook.default)) ]

def obsSnapshots (b : TBook) : List String :=
  depths.map fun d =>
    let s := b.snapshot d
    "snap" ++ toString d ++ " " ++ fmtBookLine s.sequence s.timeEngine s.bids s.asks

def lvObs (cmp : Ordering) (eq : Bool) (mx mn : Level) : List String :=
  [ "cmp " ++ fmtOrd cmp,
    "eq " ++ fmtBool eq,
    "rel " ++ fmtBool (cmp == .lt) ++ fmtBool (cmp != .gt) ++ fmtBool (cmp == .gt) ++ fmtBool (cmp != .lt),
    "max " ++ fmtLevel mx,
    "min " ++ fmtLevel mn ]

/-! ### model -/

structure MSt where
  heap : Heap
  map : Option BookMap
  queue : List TStreamEvent

def cellOk (heap : Heap) (c : Nat) : Bool := c < heap.length

def model : Drv MSt where
  init := ⟨[], none, []⟩
  step s toks :=
    match toks with
    | ["lv", x, y] =>
      match parseLevel? x, parseLevel? y with
      | some a, some b => (s, lvObs (levelCmp a b) (levelEq a b) (levelMax a b) (levelMin a b))
      | _, _ => (s, ["bad-op"])
    | "lsort" :: rest =>
      match parseLevels? rest with
      | some ls => (s, ["sorted " ++ fmtLevels (ls.mergeSort levelLe)])
      | none => (s, ["bad-op"])
    | "cell" :: body =>
      match parseBody? body with
      | some b =>
        let sfx := toString s.heap.length
        ({ s with heap := s.heap ++ [b] }, obsFull sfx b ++ obsSnapshots b)
      | none => (s, ["bad-op"])
    | ["celld"] =>
      let sfx := toString s.heap.length
      ({ s with heap := s.heap ++ [TBook.default] }, obsFull sfx TBook.default)
    | ["single", k, c] =>
      match k.toNat?, c.toNat? with
      | some k, some c =>
        if cellOk s.heap c then ({ s with map := some (.single k c) }, []) else (s, ["bad-op"])
      | _, _ => (s, ["bad-op"])
    | "multi" :: rest =>
      match parsePairs? rest with
      | some pairs =>
        if pairs.all (fun kc => cellOk s.heap kc.2) then ({ s with map := some (multiOf pairs) }, [])
        else (s, ["bad-op"])
      | none => (s, ["bad-op"])
    | ["insert", k, c] =>
      match k.toNat?, c.toNat?, s.map with
      | some k, some c, some (.multi books) =>
        if cellOk s.heap c then ({ s with map := some ((BookMap.multi books).insert k c) }, [])
        else (s, ["bad-op"])
      | _, _, _ => (s, ["bad-op"])
    | ["find", k] =>
      match k.toNat?, s.map with
      | some k, some m =>
        (s, ["found " ++ (match m.find k with | some c => toString c | none => "none")])
      | _, _ => (s, ["bad-op"])
    | ["keys"] =>
      match s.map with
      | some m => (s, ["keys " ++ " ".intercalate ((sortNat m.keys).map toString)])
      | none => (s, ["bad-op"])
    | ["re"] => ({ s with queue := s.queue ++ [.reconnecting] }, [])
    | "snap" :: k :: body =>
      match k.toNat?, parseBody? body with
      | some k, some b =>
        ({ s with queue := s.queue ++ [.item k (.snapshot b)] },
          ["ev " ++ fmtBookLine b.sequence b.timeEngine b.bids b.asks])
      | _, _ => (s, ["bad-op"])
    | "upd" :: k :: body =>
      match k.toNat?, parseBody? body with
      | some k, some b =>
        ({ s with queue := s.queue ++ [.item k (.update b)] },
          ["ev " ++ fmtBookLine b.sequence b.timeEngine b.bids b.asks])
      | _, _ => (s, ["bad-op"])
    | [r] =>
      if r != "run" && r != "runc" && r != "runr" then (s, ["bad-op"]) else
      match s.map with
      | some m =>
        let heap := managerRun m s.heap s.queue
        ({ s with heap := heap, queue := [] },
          (if r == "runr" then ["rdlocked 0"] else []) ++
          (heap.zipIdx.map fun (b, c) => obsFull (toString c) b).flatten)
      | none => (s, ["bad-op"])
    | ["depth", c, d] =>
      match c.toNat?, d.toNat? with
      | some c, some d =>
        if d ≥ 2 ^ 64 then (s, ["bad-op"]) else
        match s.heap[c]? with
        | some b =>
          let sn := b.snapshot d
          (s, ["snap " ++ fmtBookLine sn.sequence sn.timeEngine sn.bids sn.asks])
        | none => (s, ["bad-op"])
      | _, _ => (s, ["bad-op"])
    | _ => (s, ["bad-op"])

/-! ### spec -/

/-- The spec side keeps no `BookMap`: the map is the log of `(key, cell)` associations in the order
in which the ops made them (`AssocLog`, `Model/BookManager.lean`), with a flag telling whether it is
an `OrderBookMapMulti` (only that one has `insert`). `find` / `keys` / the routing of the run are
answered from the log (`AssocLog.find`: the last association of the key; `AssocLog.keys`). -/
structure SSt where
  cells : List SCell
  map : Option (Bool × AssocLog)
  queue : List TStreamEvent

/-- what the specification says about one cell: the copied fields, the price sequences of both
sides, the best prices and the mid-price always; the levels themselves while the cell is clean -/
def obsSpec (sfx : String) (c : SCell) : List String :=
  let bp := Bag.inOrder .bids c.bidPrices
  let ap := Bag.inOrder .asks c.askPrices
  [ "h" ++ sfx ++ " " ++ toString c.sequence ++ " " ++ fmtTime c.timeEngine,
    "bp" ++ sfx ++ " " ++ fmtPrices bp,
    "ap" ++ sfx ++ " " ++ fmtPrices ap,
    "mid" ++ sfx ++ " " ++ fmtOptRatApprox c.midPrice ] ++
  match c.spec? with
  | none => []
  | some sp =>
    [ "b" ++ sfx ++ " " ++ fmtLevels (PMap.levels .bids sp.bids),
      "a" ++ sfx ++ " " ++ fmtLevels (PMap.levels .asks sp.asks),
      "bb" ++ sfx ++ " " ++ (match PMap.best .bids sp.bids with | some l => fmtLevel l | none => "none"),
      "ba" ++ sfx ++ " " ++ (match PMap.best .asks sp.asks with | some l => fmtLevel l | none => "none"),
      "vw" ++ sfx ++ " " ++ fmtVwChecked (vwMidCheckedSpec sp) ]

/-- depth-limited snapshot, abstractly: the `d` best prices of each side (and, for a clean cell,
the `d` best levels), same sequence and time -/
def obsSpecSnap (key : String) (c : SCell) (d : Nat) : List String :=
  match c.spec? with
  | some sp =>
    let sn := sp.snapshot d
    [key ++ " " ++ fmtBookLine c.sequence c.timeEngine sn.bids sn.asks]
  | none => []

def spec : Drv SSt where
  init := ⟨[], none, []⟩
  step s toks :=
    match toks with
    | ["lv", x, y] =>
      match parseLevel? x, parseLevel? y with
      | some a, some b =>
        let cmp := levelCmpSpec a b
        (s, [ "cmp " ++ fmtOrd cmp,
              "eq " ++ fmtBool (cmp == .eq),
              "rel " ++ fmtBool (levelLtSpec a b) ++ fmtBool (!levelLtSpec b a) ++ fmtBool (levelLtSpec b a)
                ++ fmtBool (!levelLtSpec a b) ])
      | _, _ => (s, ["bad-op"])
    | "lsort" :: rest =>
      match parseLevels? rest with
      | some _ => (s, [])
      | none => (s, ["bad-op"])
    | "cell" :: body =>
      match parseBody? body with
      | some b =>
        let sfx := toString s.cells.length
        let c := SCell.ofBook b
        ({ s with cells := s.cells ++ [c] },
          obsSpec sfx c ++ (depths.map fun d => obsSpecSnap ("snap" ++ toString d) c d).flatten)
      | none => (s, ["bad-op"])
    | ["celld"] =>
      let sfx := toString s.cells.length
      let c := SCell.ofBook TBook.default
      ({ s with cells := s.cells ++ [c] }, obsSpec sfx c ++ ["def" ++ sfx ++ " 1"])
    | ["single", k, c] =>
      match k.toNat?, c.toNat? with
      | some k, some c =>
        if c < s.cells.length then ({ s with map := some (false, [(k, c)]) }, []) else (s, ["bad-op"])
      | _, _ => (s, ["bad-op"])
    | "multi" :: rest =>
      match parsePairs? rest with
      | some pairs =>
        if pairs.all (fun kc => kc.2 < s.cells.length) then ({ s with map := some (true, pairs) }, [])
        else (s, ["bad-op"])
      | none => (s, ["bad-op"])
    | ["insert", k, c] =>
      match k.toNat?, c.toNat?, s.map with
      | some k, some c, some (true, log) =>
        if c < s.cells.length then ({ s with map := some (true, log ++ [(k, c)]) }, [])
        else (s, ["bad-op"])
      | _, _, _ => (s, ["bad-op"])
    | ["find", k] =>
      match k.toNat?, s.map with
      | some k, some (_, log) =>
        (s, ["found " ++ (match AssocLog.find log k with | some c => toString c | none => "none")])
      | _, _ => (s, ["bad-op"])
    | ["keys"] =>
      match s.map with
      | some (_, log) => (s, ["keys " ++ " ".intercalate ((sortNat (AssocLog.keys log)).map toString)])
      | none => (s, ["bad-op"])
    | ["re"] => ({ s with queue := s.queue ++ [.reconnecting] }, [])
    | "snap" :: k :: body =>
      match k.toNat?, parseBody? body with
      | some k, some b => ({ s with queue := s.queue ++ [.item k (.snapshot b)] }, [])
      | _, _ => (s, ["bad-op"])
    | "upd" :: k :: body =>
      match k.toNat?, parseBody? body with
      | some k, some b => ({ s with queue := s.queue ++ [.item k (.update b)] }, [])
      | _, _ => (s, ["bad-op"])
    | [r] =>
      if r != "run" && r != "runc" && r != "runr" then (s, ["bad-op"]) else
      match s.map with
      | some (_, log) =>
        let cells := specRunBy (AssocLog.find log) s.cells s.queue
        ({ s with cells := cells, queue := [] },
          (if r == "runr" then ["rdlocked 0"] else []) ++
          (cells.zipIdx.map fun (c, i) => obsSpec (toString i) c).flatten)
      | none => (s, ["bad-op"])
    | ["depth", c, d] =>
      match c.toNat?, d.toNat? with
      | some c, some d =>
        if d ≥ 2 ^ 64 then (s, ["bad-op"]) else
        match s.cells[c]? with
        | some cell => (s, obsSpecSnap "snap" cell d)
        | none => (s, ["bad-op"])
      | _, _ => (s, ["bad-op"])
    | _ => (s, ["bad-op"])

end BarterModel.Driver.C05M

def main (args : List String) : IO UInt32 :=
  BarterModel.Driver.runMain BarterModel.Driver.C05M.model BarterModel.Driver.C05M.spec args
