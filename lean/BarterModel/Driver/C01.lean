import BarterModel.Driver.Common
import BarterModel.Model.Orders
/-!
Line-protocol driver for C01. Ops:
  `init n` | `init n x` | `init n x b` (b = 1: the account snapshots of the case carry balances too) | `open i c q p` | `cancel i c` | `snap i c q p K a b d` | `resp i c ok|err` | `resp i c err k`
  | `full (i c q p K a b d)*` | `empty i*` | `attr side kind tif strategy cancelid`
state encoding `K a b d`: `F 0 0 0` in-flight echo, `O id t filled` open, `C0 0 0 0` / `C1 id t filled`
hand-built cancel-in-flight marker, `X kind 0 0` inactive (kind 0 cancelled 1 fully-filled 2 failed 3 expired).
-/
namespace BarterModel.Driver.C01
open BarterModel.Driver BarterModel.Orders

def fmtOpen (o : Open) : String := s!"({o.id},{o.t},{fmtRat o.filled})"

def fmtActive : Active → String
  | .inFlight => "F"
  | .opn o => "O" ++ fmtOpen o
  | .cancelInFlight none => "C(-)"
  | .cancelInFlight (some o) => "C" ++ fmtOpen o

def sortByCid {α : Type} (l : List (Nat × α)) : List (Nat × α) :=
  (l.toArray.qsort (fun a b => a.1 < b.1)).toList

def obsInstrument (i : Nat) (m : Orders) : List String :=
  let l := sortByCid m
  [ s!"ins{i} " ++ " ".intercalate (l.map fun (c, o) => s!"{c}:{fmtRat o.quantity}:{fmtRat o.price}:{fmtActive o.state}"),
    s!"st{i} " ++ " ".intercalate (l.map fun (c, o) => s!"{c}:{fmtActive o.state}") ]

def obs (e : Engine) : List String :=
  (e.zipIdx.map fun (m, i) => obsInstrument i m).flatten

def parseState : List String → Option OState
  | ["F", _, _, _] => some (.active .inFlight)
  | ["O", a, b, d] =>
    match a.toNat?, b.toInt?, parseRat? d with
    | some id, some t, some f => some (.active (.opn ⟨id, t, f⟩))
    | _, _, _ => none
  | ["C0", _, _, _] => some (.active (.cancelInFlight none))
  | ["C1", a, b, d] =>
    match a.toNat?, b.toInt?, parseRat? d with
    | some id, some t, some f => some (.active (.cancelInFlight (some ⟨id, t, f⟩)))
    | _, _, _ => none
  | ["X", "0", _, _] => some (.inactive .cancelled)
  | ["X", "1", _, _] => some (.inactive .fullyFilled)
  | ["X", "2", k, _] => if (k.toNat?).any (· < 10) then some (.inactive .openFailed) else none
  | ["X", "3", _, _] => some (.inactive .expired)
  | _ => none

def parseSnap : List String → Option (Nat × Snap)
  | [i, c, q, p, k, a, b, d] =>
    match i.toNat?, c.toNat?, parseRat? q, parseRat? p, parseState [k, a, b, d] with
    | some i, some c, some q, some p, some st => some (i, ⟨c, q, p, st, 0⟩)
    | _, _, _, _, _ => none
  | _ => none

def parseFull : List String → Option (List (Nat × Snap))
  | [] => some []
  | i :: c :: q :: p :: k :: a :: b :: d :: rest =>
    match parseSnap [i, c, q, p, k, a, b, d], parseFull rest with
    | some s, some r => some (s :: r)
    | _, _ => none
  | _ => none

/-- `attr <side> <kind> <time in force> <strategy> <cancel by order id>`: the static attributes the
harness gives to the requests / reports that follow. Nothing in the tracking code, the model or the
property depends on them: validated, otherwise ignored. -/
def attrOk : List String → Bool
  | [s, k, t, g, ci] =>
    ["B", "S"].contains s && ["M", "L"].contains k && ["G0", "G1", "D", "F", "I"].contains t
      && ["a", "b"].contains g && ["n", "s"].contains ci
  | _ => false

/-- `empty i*`: an account snapshot naming instruments `i*` with no orders; `none` for malformed -/
def parseEmpty (toks : List String) : Option (List Nat) := toks.mapM (·.toNat?)

/-- `some (ops routed)` or `none` for malformed -/
def parseOps (toks : List String) : Option (List (Nat × Op)) :=
  match toks with
  | ["open", i, c, q, p] =>
    match i.toNat?, c.toNat?, parseRat? q, parseRat? p with
    | some i, some c, some q, some p => some [(i, .recOpen c q p)]
    | _, _, _, _ => none
  | ["cancel", i, c] =>
    match i.toNat?, c.toNat? with
    | some i, some c => some [(i, .recCancel c)]
    | _, _ => none
  | ["resp", i, c, r] =>
    match i.toNat?, c.toNat?, (if r == "ok" then some true else if r == "err" then some false else none) with
    | some i, some c, some ok => some [(i, .cancelResp c ok)]
    | _, _, _ => none
  -- the error kind of a failed cancel (0..9, harness `order_error`) is not part of the model: a failed
  -- cancel is a failed cancel
  | ["resp", i, c, "err", k] =>
    match i.toNat?, c.toNat?, k.toNat? with
    | some i, some c, some k => if k < 10 then some [(i, .cancelResp c false)] else none
    | _, _, _ => none
  | "snap" :: rest => (parseSnap rest).map fun (i, s) => [(i, .snapshot s)]
  | "full" :: rest => (parseFull rest).map fun l => l.map fun (i, s) => (i, .snapshot s)
  | _ => none

def stateKind : Option Active → String
  | none => "U"
  | some .inFlight => "F"
  | some (.opn _) => "O"
  | some (.cancelInFlight none) => "C0"
  | some (.cancelInFlight (some _)) => "C1"

def inputKind : Op → String
  | .recOpen _ _ _ _ => "reqOpen"
  | .recCancel _ => "reqCancel"
  | .cancelResp _ true => "respOk"
  | .cancelResp _ false => "respErr"
  | .snapshot s => match s.state with
    | .inactive _ => "repFinished"
    | .active .inFlight => "repInFlight"
    | .active (.opn o) => if remZero s.quantity o then "repOpenNothingLeft" else "repOpen"
    | .active (.cancelInFlight _) => "repCancelMarker"

/-- branch tags `% <tracked state>x<input>` for the evidence histogram (not compared) -/
def tags (e : Engine) (ops : List (Nat × Op)) : List String :=
  (ops.foldl (fun (acc : Engine × List String) io =>
    let st := (acc.1[io.1]?).bind fun m => stateOf m io.2.cid
    (acc.1.apply io.1 io.2, acc.2 ++ [s!"% {stateKind st}x{inputKind io.2}"])) (e, [])).2

def model : Drv Engine where
  init := []
  step e toks :=
    match toks with
    | ["init", n] =>
      match n.toNat? with
      | some n => let e' : Engine := List.replicate n []; (e', obs e')
      | none => (e, ["bad-op"])
    -- `init n x`: the n instruments are spread over x exchanges (1..5); orders are tracked per instrument
    | ["init", n, x] =>
      match n.toNat?, x.toNat? with
      | some n, some x =>
        if 1 ≤ x && x ≤ 5 then let e' : Engine := List.replicate n []; (e', obs e') else (e, ["bad-op"])
      | _, _ => (e, ["bad-op"])
    -- `init n x b`: with b = 1 every account snapshot of the case (`full` / `empty`) carries balances next to
    -- the order reports; balances are no input of the order tracking
    | ["init", n, x, b] =>
      match n.toNat?, x.toNat? with
      | some n, some x =>
        if 1 ≤ x && x ≤ 5 && (b == "0" || b == "1") then let e' : Engine := List.replicate n []; (e', obs e')
        else (e, ["bad-op"])
      | _, _ => (e, ["bad-op"])
    | "attr" :: rest => if attrOk rest then (e, obs e) else (e, ["bad-op"])
    | "empty" :: rest =>
      match parseEmpty rest with
      | none => (e, ["bad-op"])
      | some ls => if ls.all (· < e.length) then (e, obs e) else (e, ["panic"])
    | _ =>
      match parseOps toks with
      | none => (e, ["bad-op"])
      | some ops =>
        if ops.all (fun io => io.1 < e.length) then
          let e' := e.run ops
          (e', obs e' ++ tags e ops)
        else (e, ["panic"])

/-- static fields the engine holds for a tracked order, as far as they are observed: (quantity, price) -/
abbrev Statics := Rat × Rat

/-- spec state: per instrument, association list cid ↦ the lifecycle states the property allows
(more than one only after a report whose exchange timestamp EQUALS the held one: the property
demands "never back to an older timestamp" and is silent on which of two equal-time reports is
kept), and cid ↦ the (quantity, price) pairs the property allows the engine to hold for that order
(`specStatics`; empty exactly when the id is untracked); `poisoned` once a hand-built
cancel-in-flight marker was seen (the lifecycle says nothing about those) -/
structure SpecSt where
  tables : List (List (Nat × List (Option Active)))
  statics : List (List (Nat × List Statics))
  poisoned : Bool

def specLookup (t : List (Nat × List (Option Active))) (c : Nat) : List (Option Active) :=
  ((t.find? (·.1 == c)).map (·.2)).getD [none]

def specSet (t : List (Nat × List (Option Active))) (c : Nat) (v : List (Option Active)) :
    List (Nat × List (Option Active)) :=
  (c, v) :: t.filter (·.1 != c)

def staticsLookup (t : List (Nat × List Statics)) (c : Nat) : List Statics :=
  ((t.find? (·.1 == c)).map (·.2)).getD []

def staticsSet (t : List (Nat × List Statics)) (c : Nat) (v : List Statics) : List (Nat × List Statics) :=
  (c, v) :: t.filter (·.1 != c)

/-- the other admissible outcome of an equal-timestamp open report: keep what is held -/
def tieAlternatives (st : Option Active) (op : Op) (c : Nat) : List (Option Active) :=
  match op.input c, st with
  | some (.reportOpen o false), some (.opn h) => if h.t == o.t then [some (.opn h), some (.opn o)] else []
  | some (.reportOpen o false), some (.cancelInFlight (some h)) =>
    if h.t == o.t then [some (.cancelInFlight (some h)), some (.cancelInFlight (some o))] else []
  | _, _ => []

def dedupStates (l : List (Option Active)) : List (Option Active) :=
  l.foldl (fun acc x => if acc.contains x then acc else acc ++ [x]) []

def dedupStatics (l : List Statics) : List Statics :=
  l.foldl (fun acc x => if acc.contains x then acc else acc ++ [x]) []

/-- The (quantity, price) pairs the property admits for the order `op` is about, AFTER `op`
(`held` = the pairs admitted before; `wasTracked` / `nowTracked` = the lifecycle verdict before / after).
Written from the property text, clause by clause:

* "an order becomes tracked when a request for it is sent or the exchange reports it open": the
  order that is tracked is the one the request / the report describes, so
  - an open request sent (`open i c q p`, `record_in_flight_open`) (re)creates the entry with the
    REQUEST's quantity and price, definite - also when the id was already tracked (ASSUMPTIONS
    reading 2: a re-sent open request replaces the entry);
  - a report that makes an UNTRACKED id tracked (open report with something left to fill; in-flight
    echo) creates the entry with the REPORT's quantity and price, definite;
* "it stops being tracked as soon as ...": nothing is held for an untracked id (`[]`);
* a report about an id that is tracked before and after: the text does not say whether the held
  quantity / price stay (what today's code does: it only assigns `.state`) or become the report's:
  both are admitted, and every pair admitted so far stays admitted together with the report's (a set,
  printed as `{a|b}` alternatives);
* a cancel request and a cancel response carry no quantity / price: the set is unchanged;
* "reports about one order never change another": `specApply` calls this for `op.cid` on `op`'s
  instrument ONLY - the sets of every other id and every other instrument are left as they are, so a
  report that rewrites another order's quantity or price is an oracle failure on that order's `ins`
  token.

Whether "nothing left to fill" holds is decided by the lifecycle table on the REPORT's quantity
(`Op.input`: `remZero s.quantity o`), never on a held one. -/
def specStatics (held : List Statics) (wasTracked nowTracked : Bool) : Op → List Statics
  | .recOpen _ q p _ => if nowTracked then [(q, p)] else []
  | .snapshot s =>
    if nowTracked then dedupStatics ((if wasTracked then held else []) ++ [(s.quantity, s.price)]) else []
  | .recCancel _ => if nowTracked then held else []
  | .cancelResp _ _ => if nowTracked then held else []

def specApply (s : SpecSt) (i : Nat) (op : Op) : SpecSt :=
  if !op.exchangeStatesOnly then { s with poisoned := true } else
  match s.tables[i]?, s.statics[i]? with
  | some t, some q =>
    let c := op.cid
    let prev := specLookup t c
    let next := dedupStates (prev.flatMap fun st =>
      Lifecycle.stepOp c st op :: tieAlternatives st op c)
    let held := specStatics (staticsLookup q c) (prev.any (·.isSome)) (next.any (·.isSome)) op
    { s with tables := s.tables.set i (specSet t c next), statics := s.statics.set i (staticsSet q c held) }
  | _, _ => s

def fmtAlt (c : Nat) (alts : List (Option Active)) : Option String :=
  let toks := alts.map fun a => match a with
    | some a => s!"{c}:{fmtActive a}"
    | none => "-"
  match toks with
  | ["-"] => none
  | [one] => some one
  | many => some ("{" ++ "|".intercalate many ++ "}")

/-- `ins` token of one id: every admitted (quantity, price) with every admitted lifecycle state (the
state part is exactly the `st` token's); no token for an untracked id -/
def fmtIns (c : Nat) (sts : List Statics) (alts : List (Option Active)) : Option String :=
  if alts.all (·.isNone) then none else
  let toks := sts.flatMap fun (q, p) => alts.filterMap fun a =>
    a.map fun a => s!"{c}:{fmtRat q}:{fmtRat p}:{fmtActive a}"
  match toks with
  | [one] => some one
  | many => some ("{" ++ "|".intercalate many ++ "}")

def specObs (s : SpecSt) : List String :=
  if s.poisoned then [] else
  (s.tables.zipIdx.map fun (t, i) =>
    -- an id that may or may not be tracked cannot be expressed positionally: stay silent on that table
    if t.any (fun (_, alts) => alts.length > 1 && alts.contains none) then [] else
    let q := (s.statics[i]?).getD []
    [ s!"ins{i} " ++ " ".intercalate ((sortByCid t).filterMap fun (c, alts) => fmtIns c (staticsLookup q c) alts),
      s!"st{i} " ++ " ".intercalate ((sortByCid t).filterMap fun (c, alts) => fmtAlt c alts) ]).flatten

def spec : Drv SpecSt where
  init := ⟨[], [], false⟩
  step s toks :=
    match toks with
    | ["init", n] =>
      match n.toNat? with
      | some n => let s' : SpecSt := ⟨List.replicate n [], List.replicate n [], false⟩; (s', specObs s')
      | none => (s, ["bad-op"])
    -- the property is per client order id and instrument, whatever exchange the instrument is on
    | ["init", n, x] =>
      match n.toNat?, x.toNat? with
      | some n, some x =>
        if 1 ≤ x && x ≤ 5 then
          let s' : SpecSt := ⟨List.replicate n [], List.replicate n [], false⟩; (s', specObs s')
        else (s, ["bad-op"])
      | _, _ => (s, ["bad-op"])
    -- balances inside an account snapshot are not reports about any order: every clause holds whatever they are
    | ["init", n, x, b] =>
      match n.toNat?, x.toNat? with
      | some n, some x =>
        if 1 ≤ x && x ≤ 5 && (b == "0" || b == "1") then
          let s' : SpecSt := ⟨List.replicate n [], List.replicate n [], false⟩; (s', specObs s')
        else (s, ["bad-op"])
      | _, _ => (s, ["bad-op"])
    -- static attributes: the property does not mention them, every clause holds whatever they are
    | "attr" :: rest => if attrOk rest then (s, specObs s) else (s, ["bad-op"])
    -- a snapshot that reports no order says nothing about any order
    | "empty" :: rest =>
      match parseEmpty rest with
      | none => (s, ["bad-op"])
      | some ls => if ls.all (· < s.tables.length) then (s, specObs s) else (s, ["panic"])
    | _ =>
      match parseOps toks with
      | none => (s, ["bad-op"])
      | some ops =>
        if ops.all (fun io => io.1 < s.tables.length) then
          let s' := ops.foldl (fun s io => specApply s io.1 io.2) s
          (s', specObs s')
        else (s, ["panic"])

end BarterModel.Driver.C01

def main (args : List String) : IO UInt32 :=
  BarterModel.Driver.runMain BarterModel.Driver.C01.model BarterModel.Driver.C01.spec args
