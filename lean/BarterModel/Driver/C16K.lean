import BarterModel.Driver.Common
import BarterModel.Model.Position
import BarterModel.Model.KeyedSummary
/-!
Line-protocol driver for the sub-check C16K (keyed trading summary, all fields).

Times are milliseconds relative to the engine start (`t0` of the harness). An interval is `D`, `A252`,
`A365` or `ms:<int>`; a metric value is `MAX`, `MIN` or `~n/d`; a drawdown is `~value t_start t_end` or
`none`; a mean drawdown is `~depth ms` or `none`.

Ops
* `init n m engine|direct rf`  `n` instruments, `m` assets, risk-free return `rf`. `engine`: events go
  through `Engine::process`, a summary is `Engine::trading_summary_generator(rf).generate(iv)`;
  `direct`: a long-lived `TradingSummaryGenerator` (initialised from a fresh engine state, both clocks
  at the engine start) updated by its own `update_from_*`.
* `initb n m engine|direct rf [a total free]…`  as `init`, with INITIAL balances given to
  `EngineStateBuilder::balances` (a HashMap: of two entries for one asset the last is kept), each applied by
  `build()` as a snapshot at the engine start (`bal a 0 total free`) through `AssetState::update_from_balance`
  before the engine / the generator taken from its state exists (the summary clock is not moved).
* `pos i t pnl entry qty`      (direct) a `PositionExited` of instrument `i` with `time_exit = t`.
* `rt i B|S entry qty exit feeIn feeOut tIn tOut`   (engine) opening fill at `tIn` + exactly closing
  fill at `tOut`.
* `flip i B|S entry qty exit feeIn feeOut t1 t2 t3`  (engine) open, flip by one opposite fill of twice
  the size, close the remainder at the same price: two exited positions.
* `bal a t total free`         balance snapshot of asset `a` (both modes).
* `snap a t total free [a t total free]…`  (engine) one full account snapshot with these balances.
* `gen iv`                     `generate(iv)` — direct: on the long-lived generator itself (mutating);
                               engine: on a fresh `trading_summary_generator`.
* `peek iv`                    direct: `generate(iv)` on a CLONE (the generator is not touched); engine: as `gen`.

Observations
* `rt` / `flip`: `closed i pnl entry qmax t_exit` per exited position; direct events: `end <clock>`.
* `gen` / `peek`: direct only `start <t>` `end <t>`; per instrument `k`: `i<k>.pnl`, `i<k>.iv` (the interval
  each of the four metrics carries), `i<k>.ror`, `i<k>.sharpe`, `i<k>.sortino`, `i<k>.calmar`, `i<k>.dd`,
  `i<k>.ddmean`, `i<k>.ddmax`, `i<k>.win`, `i<k>.pf`; per asset `k`: `a<k>.bal`, `a<k>.dd`, `a<k>.ddmean`,
  `a<k>.ddmax`.
-/
namespace BarterModel.Driver.C16K
open BarterModel.Driver BarterModel BarterModel.KeyedSummary

inductive Mode where
  | direct
  | engine
  deriving DecidableEq

/-! ### tokens -/

def fmtIv : Interval → String
  | .daily => "D"
  | .annual252 => "A252"
  | .annual365 => "A365"
  | .delta ms => "ms:" ++ toString ms

def parseIv? (s : String) : Option Interval :=
  if s == "D" then some .daily
  else if s == "A252" then some .annual252
  else if s == "A365" then some .annual365
  else match s.splitOn ":" with
    | ["ms", n] => n.toInt?.map .delta
    | _ => none

def fmtVal (r : Rat) : String :=
  if r == Metrics.decimalMax then "MAX" else if r == Metrics.decimalMin then "MIN" else fmtRatApprox r

def fmtOptVal : Option Rat → String
  | none => "none"
  | some r => fmtVal r

def fmtDD : Option Drawdown.Drawdown → String
  | none => "none"
  | some d => fmtRatApprox d.value ++ " " ++ toString d.timeStart ++ " " ++ toString d.timeEnd

def fmtMean : Option Drawdown.MeanDrawdown → String
  | none => "none"
  | some m => fmtRatApprox m.meanDrawdown ++ " " ++ toString m.meanDrawdownMs

def fmtBal : Option Balance → String
  | none => "none"
  | some b => fmtRat b.total ++ " " ++ fmtRat b.free

/-- The root the drivers plug in for `Decimal::sqrt` (√ truncated to 30 places, C17). -/
def root : Rat → Rat := DataSet.sqrtApprox

/-! ### ops -/

inductive Op where
  | init (n m : Nat) (mode : Mode) (rf : Rat)
  | initb (n m : Nat) (mode : Mode) (rf : Rat) (bals : List (Nat × Balance))
  | pos (i : Nat) (p : Exit)
  | fills (i : Nat) (exits : List Exit)
  | bal (a : Nat) (s : BalSnap)
  | snap (items : List (Nat × BalSnap))
  | gen (iv : Interval) (mutating : Bool)

def parseSide? (s : String) : Option Bool :=
  if s == "B" then some true else if s == "S" then some false else none

def exitOf (x : Position.PositionExited) : Exit :=
  ⟨x.timeExit, ⟨x.pnlRealised, x.priceEntryAverage, x.quantityAbsMax⟩⟩

/-- the exited position of a round trip, computed with the position model of C02 -/
def rtExits (i : Nat) (long : Bool) (entry qty exit feeIn feeOut : Rat) (tIn tOut : Int) :
    Option (List Exit) :=
  let side : Position.Side := if long then .buy else .sell
  let opp : Position.Side := if long then .sell else .buy
  let (pm1, x0) := Position.PositionManager.init.update ⟨0, i, tIn, side, entry, qty, feeIn⟩
  let (pm2, x1) := pm1.update ⟨1, i, tOut, opp, exit, qty, feeOut⟩
  match x0, x1, pm2.current with
  | none, some a, none => some [exitOf a]
  | _, _, _ => none

/-- the two exited positions of a flip, likewise -/
def flipExits (i : Nat) (long : Bool) (entry qty exit feeIn feeOut : Rat) (t1 t2 t3 : Int) :
    Option (List Exit) :=
  let side : Position.Side := if long then .buy else .sell
  let opp : Position.Side := if long then .sell else .buy
  let (pm1, x0) := Position.PositionManager.init.update ⟨0, i, t1, side, entry, qty, feeIn⟩
  let (pm2, x1) := pm1.update ⟨1, i, t2, opp, exit, 2 * qty, feeOut⟩
  let (pm3, x2) := pm2.update ⟨2, i, t3, side, exit, qty, 0⟩
  match x0, x1, x2, pm3.current with
  | none, some a, some b, none => some [exitOf a, exitOf b]
  | _, _, _, _ => none

def parseSnapItems : List String → Option (List (Nat × BalSnap))
  | [] => some []
  | a :: t :: total :: free :: rest =>
    match a.toNat?, t.toInt?, parseRat? total, parseRat? free, parseSnapItems rest with
    | some a, some t, some total, some free, some r => some ((a, ⟨t, ⟨total, free⟩⟩) :: r)
    | _, _, _, _, _ => none
  | _ => none

def parseBals : List String → Option (List (Nat × Balance))
  | [] => some []
  | a :: total :: free :: rest =>
    match a.toNat?, parseRat? total, parseRat? free, parseBals rest with
    | some a, some total, some free, some tl => some ((a, ⟨total, free⟩) :: tl)
    | _, _, _, _ => none
  | _ => none

/-- `EngineStateBuilder::balances` collects into a HashMap: a later entry for the same asset replaces the earlier -/
def dedupLast : List (Nat × Balance) → List (Nat × Balance)
  | [] => []
  | (a, b) :: tl => if tl.any (fun x => x.1 == a) then dedupLast tl else (a, b) :: dedupLast tl

/-- the initial balances as the snapshots `EngineStateBuilder::build` applies (time = engine start = 0) -/
def initEvs (bals : List (Nat × Balance)) : List Ev := (dedupLast bals).map fun (a, b) => .balance a ⟨0, b⟩

def parseOp : List String → Option Op
  | "initb" :: n :: m :: mode :: rf :: rest =>
    match n.toNat?, m.toNat?, (if mode == "direct" then some Mode.direct
        else if mode == "engine" then some Mode.engine else none), parseRat? rf, parseBals rest with
    | some n, some m, some mode, some rf, some bals => some (.initb n m mode rf bals)
    | _, _, _, _, _ => none
  | ["init", n, m, mode, rf] =>
    match n.toNat?, m.toNat?, (if mode == "direct" then some Mode.direct
        else if mode == "engine" then some Mode.engine else none), parseRat? rf with
    | some n, some m, some mode, some rf => some (.init n m mode rf)
    | _, _, _, _ => none
  | ["pos", i, t, pnl, entry, qty] =>
    match i.toNat?, t.toInt?, parseRat? pnl, parseRat? entry, parseRat? qty with
    | some i, some t, some pnl, some entry, some qty => some (.pos i ⟨t, ⟨pnl, entry, qty⟩⟩)
    | _, _, _, _, _ => none
  | ["rt", i, side, entry, qty, exit, feeIn, feeOut, tIn, tOut] =>
    match i.toNat?, parseSide? side, parseRat? entry, parseRat? qty, parseRat? exit, parseRat? feeIn,
        parseRat? feeOut, tIn.toInt?, tOut.toInt? with
    | some i, some long, some entry, some qty, some exit, some feeIn, some feeOut, some tIn, some tOut =>
      (rtExits i long entry qty exit feeIn feeOut tIn tOut).map (.fills i)
    | _, _, _, _, _, _, _, _, _ => none
  | ["flip", i, side, entry, qty, exit, feeIn, feeOut, t1, t2, t3] =>
    match i.toNat?, parseSide? side, parseRat? entry, parseRat? qty, parseRat? exit, parseRat? feeIn,
        parseRat? feeOut, t1.toInt?, t2.toInt?, t3.toInt? with
    | some i, some long, some entry, some qty, some exit, some feeIn, some feeOut, some t1, some t2, some t3 =>
      (flipExits i long entry qty exit feeIn feeOut t1 t2 t3).map (.fills i)
    | _, _, _, _, _, _, _, _, _, _ => none
  | ["bal", a, t, total, free] =>
    match a.toNat?, t.toInt?, parseRat? total, parseRat? free with
    | some a, some t, some total, some free => some (.bal a ⟨t, ⟨total, free⟩⟩)
    | _, _, _, _ => none
  | "snap" :: rest =>
    match parseSnapItems rest with
    -- an account snapshot without balances is legal (a fresh account): no event reaches the summary
    | some items => some (.snap items)
    | none => none
  | ["gen", iv] => (parseIv? iv).map (.gen · true)
  | ["peek", iv] => (parseIv? iv).map (.gen · false)
  | _ => none

def fmtClosed (i : Nat) (p : Exit) : String :=
  "closed " ++ toString i ++ " " ++ fmtRat p.closed.pnlRealised ++ " " ++
    fmtRat p.closed.priceEntryAverage ++ " " ++ fmtRat p.closed.quantityAbsMax ++ " " ++ toString p.timeExit

/-! ### concrete model -/

def zipIdx {α : Type} (l : List α) : List (Nat × α) := (List.range l.length).zip l

def obsInstrument (k : Nat) (s : Metrics.Sheet) : List String :=
  let p := "i" ++ toString k ++ "."
  [ p ++ "pnl " ++ fmtRat s.pnl,
    p ++ "iv " ++ fmtIv s.pnlReturn.interval ++ " " ++ fmtIv s.sharpeRatio.interval ++ " " ++
      fmtIv s.sortinoRatio.interval ++ " " ++ fmtIv s.calmarRatio.interval,
    p ++ "ror " ++ fmtVal s.pnlReturn.value,
    p ++ "sharpe " ++ fmtVal s.sharpeRatio.value,
    p ++ "sortino " ++ fmtVal s.sortinoRatio.value,
    p ++ "calmar " ++ fmtVal s.calmarRatio.value,
    p ++ "dd " ++ fmtDD s.drawdowns.current,
    p ++ "ddmean " ++ fmtMean s.drawdowns.mean,
    p ++ "ddmax " ++ fmtDD s.drawdowns.max,
    p ++ "win " ++ fmtOptRatApprox s.winRate,
    p ++ "pf " ++ fmtOptVal s.profitFactor ]

def obsAsset (k : Nat) (s : AssetSheet) : List String :=
  let p := "a" ++ toString k ++ "."
  [ p ++ "bal " ++ fmtBal s.balanceEnd,
    p ++ "dd " ++ fmtDD s.drawdowns.current,
    p ++ "ddmean " ++ fmtMean s.drawdowns.mean,
    p ++ "ddmax " ++ fmtDD s.drawdowns.max ]

def obsSummary (clock : Bool) (s : Summary) : List String :=
  (if clock then ["start " ++ toString s.timeEngineStart, "end " ++ toString s.timeEngineEnd] else []) ++
  ((zipIdx s.instruments).map fun (k, t) => obsInstrument k t).flatten ++
  ((zipIdx s.assets).map fun (k, t) => obsAsset k t).flatten

inductive MSt where
  | none
  | direct (n m : Nat) (g : SummaryGen)
  | engine (n m : Nat) (rf : Rat) (s : EngState)

/-- Would the code panic on this event (unknown key, or zero cost of investment)? The predicate lives in
the model (`KeyedSummary.Ev.panics`; `Props.C16K.ev_panics_iff`). Model mode runs the model's checked
steps (`stepChecked` / `runChecked`: `none` = `panic`); spec mode uses the same predicate — its `panic`
line is a copy, not an independent oracle. -/
abbrev evPanics (n m : Nat) : Ev → Bool := Ev.panics n m

def model : Drv MSt where
  init := .none
  step s toks :=
    match parseOp toks with
    | none => (s, ["bad-op"])
    | some (.init n m .direct rf) =>
      (.direct n m (SummaryGen.init rf 0 0 (EngState.init 0 n m)), [])
    | some (.init n m .engine rf) => (.engine n m rf (EngState.init 0 n m), [])
    | some (.initb n m mode rf bals) =>
      -- an unknown asset key panics in the builder (`AssetStates::asset_mut`)
      match (EngState.init 0 n m).runChecked root (initEvs bals) with
      | none => (.none, ["panic"])
      | some e =>
        match mode with
        | .direct => (.direct n m (SummaryGen.init rf 0 0 e), [])
        | .engine => (.engine n m rf e, [])
    | some (.pos i p) =>
      match s with
      | .direct n m g =>
        match g.stepChecked root (.position i p) with
        | none => (s, ["panic"])
        | some g' => (.direct n m g', ["end " ++ toString g'.timeEngineNow])
      | _ => (s, ["bad-op"])
    | some (.fills i exits) =>
      match s with
      | .engine n m rf e =>
        match e.runChecked root (exits.map (Ev.position i)) with
        | none => (s, ["panic"])
        | some e' => (.engine n m rf e', exits.map (fmtClosed i))
      | _ => (s, ["bad-op"])
    | some (.bal a b) =>
      match s with
      | .none => (s, ["bad-op"])
      | .direct n m g =>
        match g.stepChecked root (.balance a b) with
        | none => (s, ["panic"])
        | some g' => (.direct n m g', ["end " ++ toString g'.timeEngineNow])
      | .engine n m rf e =>
        match e.stepChecked root (.balance a b) with
        | none => (s, ["panic"])
        | some e' => (.engine n m rf e', [])
    | some (.snap items) =>
      match s with
      | .engine n m rf e =>
        match e.runChecked root (items.map fun x => Ev.balance x.1 x.2) with
        | none => (s, ["panic"])
        | some e' => (.engine n m rf e', [])
      | _ => (s, ["bad-op"])
    | some (.gen iv mutating) =>
      match s with
      | .none => (s, ["bad-op"])
      | .direct n m g =>
        let r := g.generate root iv
        ((if mutating then .direct n m r.1 else s), obsSummary true r.2)
      | .engine _ _ rf e => (s, obsSummary false ((SummaryGen.init rf 0 0 e).generate root iv).2)

/-! ### abstract spec: every entry recomputed from its own history after every request -/

def toExt (r : Rat) : Metrics.Ext :=
  if r == Metrics.decimalMax then .posInf else if r == Metrics.decimalMin then .negInf else .fin r

def wholeSeconds (i : Interval) : Bool := i.interval % 1000 == 0

/-- As in C16M: the spec speaks about a scaled value only where the documentation does — a finite
value, interval lengths the code can see exactly (whole seconds), a result a `Decimal` can hold. -/
def specScaled (linear : Bool) (v : Metrics.Ext) (src dst : Interval) : Option String :=
  match v with
  | .fin _ =>
    if wholeSeconds src && wholeSeconds dst then
      match (if linear then Metrics.specScaleLinear v src dst else Metrics.specScaleSqrt root v src dst) with
      | some e => if e.representable then some (fmtVal e.toDecimal) else none
      | none => none
    else none
  | _ => none

def keyed (key : String) : Option String → List String
  | some v => [key ++ " " ++ v]
  | none => []

structure SSt where
  started : Bool
  mode : Mode
  n : Nat
  m : Nat
  rf : Rat
  evs : List Ev
  /-- direct mode: entries whose mean / max drawdown generators have been fed a drawdown in progress
  by an earlier mutating `generate` (theorem `generate_at_flat_moments_is_harmless` covers the others) -/
  dirtyI : List Nat
  dirtyA : List Nat

/-- the snapshots of asset `a` the drawdown generators see -/
def seenSnaps (s : SSt) (a : Nat) : List BalSnap :=
  match s.mode with
  | .engine => runningMax [] (snapsOf a s.evs)
  | .direct => snapsOf a s.evs

def specInstrument (s : SSt) (k : Nat) (iv : Interval) : List String :=
  let p := "i" ++ toString k ++ "."
  let ps := exitsOf k s.evs
  let period := Metrics.specTradingPeriod 0 ps
  let curve := Metrics.specCurve ps
  let positive : Bool := decide (Drawdown.PositivePeaks curve)
  let clean : Bool := !(s.dirtyI.contains k)
  let rep := Drawdown.reported curve
  let ddmax := (Drawdown.specMax rep).map (·.value)
  let mt := Metrics.specMetrics root s.rf ps (ddmax.getD 0)
  let ts := TearSheet.specTearSheet (ps.map (·.closed))
  [ p ++ "pnl " ++ fmtRat ts.pnl,
    p ++ "iv " ++ fmtIv iv ++ " " ++ fmtIv iv ++ " " ++ fmtIv iv ++ " " ++ fmtIv iv ] ++
  keyed (p ++ "ror") (specScaled true mt.pnlReturn period iv) ++
  keyed (p ++ "sharpe") (specScaled false mt.sharpe period iv) ++
  keyed (p ++ "sortino") (specScaled false mt.sortino period iv) ++
  (if positive && clean then keyed (p ++ "calmar") (specScaled false mt.calmar period iv) else []) ++
  (if positive then [p ++ "dd " ++ fmtDD (Drawdown.decompose curve).2] else []) ++
  (if positive && clean then
    [ p ++ "ddmean " ++ fmtMean (Drawdown.specMean rep), p ++ "ddmax " ++ fmtDD (Drawdown.specMax rep) ]
   else []) ++
  [ p ++ "win " ++ fmtOptRatApprox ts.winRate, p ++ "pf " ++ fmtOptVal ts.profitFactor ]

def specAsset (s : SSt) (k : Nat) : List String :=
  let p := "a" ++ toString k ++ "."
  let snaps := seenSnaps s k
  let curve := curveOf snaps
  let positive : Bool := decide (Drawdown.PositivePeaks curve)
  let clean : Bool := !(s.dirtyA.contains k)
  let sh := assetSheetOf snaps
  [ p ++ "bal " ++ fmtBal sh.balanceEnd ] ++
  (if positive then [p ++ "dd " ++ fmtDD sh.drawdowns.current] else []) ++
  (if positive && clean then
    [ p ++ "ddmean " ++ fmtMean sh.drawdowns.mean, p ++ "ddmax " ++ fmtDD sh.drawdowns.max ]
   else [])

def clockOf (evs : List Ev) : Int :=
  evs.foldl (fun now e => let t := match e with | .position _ p => p.timeExit | .balance _ b => b.time
                          if now < t then t else now) 0

def specSummary (s : SSt) (iv : Interval) : List String :=
  (match s.mode with
   | .direct => ["start 0", "end " ++ toString (clockOf s.evs)]
   | .engine => []) ++
  ((List.range s.n).map fun k => specInstrument s k iv).flatten ++
  ((List.range s.m).map fun k => specAsset s k).flatten

/-- a mutating `generate` on the direct path: which entries have a drawdown in progress right now? -/
def markDirty (s : SSt) : SSt :=
  match s.mode with
  | .engine => s
  | .direct =>
    { s with
      dirtyI := s.dirtyI ++ (List.range s.n).filter fun k =>
        (Drawdown.decompose (Metrics.specCurve (exitsOf k s.evs))).2.isSome
      dirtyA := s.dirtyA ++ (List.range s.m).filter fun k =>
        (Drawdown.decompose (curveOf (snapsOf k s.evs))).2.isSome }

def spec : Drv SSt where
  init := ⟨false, .direct, 0, 0, 0, [], [], []⟩
  step s toks :=
    let push (evs : List Ev) (out : List String) : SSt × List String :=
      if evs.any (evPanics s.n s.m) then (s, ["panic"]) else
      let s' := { s with evs := s.evs ++ evs }
      (s', out ++ (if s.mode == .direct then ["end " ++ toString (clockOf s'.evs)] else []))
    match parseOp toks with
    | none => (s, ["bad-op"])
    | some (.init n m mode rf) => (⟨true, mode, n, m, rf, [], [], []⟩, [])
    | some (.initb n m mode rf bals) =>
      if (initEvs bals).any (evPanics n m) then (⟨false, .direct, 0, 0, 0, [], [], []⟩, ["panic"]) else
      -- the initial balances are the first snapshots of their assets' histories
      (⟨true, mode, n, m, rf, initEvs bals, [], []⟩, [])
    | some (.pos i p) =>
      if !s.started || s.mode != .direct then (s, ["bad-op"]) else push [.position i p] []
    | some (.fills i exits) =>
      if !s.started || s.mode != .engine then (s, ["bad-op"]) else
      push (exits.map (Ev.position i)) []
    | some (.bal a b) => if !s.started then (s, ["bad-op"]) else push [.balance a b] []
    | some (.snap items) =>
      if !s.started || s.mode != .engine then (s, ["bad-op"]) else
      push (items.map fun x => Ev.balance x.1 x.2) []
    | some (.gen iv mutating) =>
      if !s.started then (s, ["bad-op"]) else
      ((if mutating then markDirty s else s), specSummary s iv)

end BarterModel.Driver.C16K

def main (args : List String) : IO UInt32 :=
  BarterModel.Driver.runMain BarterModel.Driver.C16K.model BarterModel.Driver.C16K.spec args
