import BarterModel.Driver.Common
import BarterModel.Model.Connectors
/-!
Line-protocol driver for C13.

Ops
* `sub <exchange> <kind> <inst>*` — `kind ∈ {trades,l1,l2,liqs}`; `inst = base:quote:S | base:quote:P |
  base:quote:F<yyyymmdd> | base:quote:O<yyyymmdd>:<strike>:<C|P>` (formatted from the underlying:
  `Subscription<_, Keyed<usize, MarketDataInstrument>, _>`) or `@<name_exchange>:S | …:P | …:F<yyyymmdd> |
  …:O<yyyymmdd>:<strike>:<C|P>` (verbatim: `Subscription<_, MarketInstrumentData<usize>, _>`) or
  `=base:quote:<kind…>` (un-keyed: `Subscription<_, MarketDataInstrument, _>`, the instrument key is the stored
  instrument itself, printed `base:quote:<kind…>` with base / quote lower-cased); one `sub` line is all-formatted,
  all-verbatim or all-un-keyed (a Rust subscription list has one instrument type); in the first two forms the
  k-th instrument has key k.
* `keys <k0> <k1> …` — the instrument keys of the NEXT `sub` line (formatted or verbatim, as many as it has
  instruments, pairwise distinct): the k-th instrument is subscribed under key `k_k` instead of `k` (keys as a
  global `InstrumentIndex` assigns them: not from 0, not contiguous, not in subscription order). The model works
  on positions; the drivers print position `k` as `k_k` (a relabelling along an injective function: the code is
  generic in the key type and only stores, clones and compares keys). Answer `keys <n>`; anything else `bad-op`.
* `conf <channel> <symbol> <chanId>` — Bitfinex `subscribed` confirmation.
* `msg <channel> <symbol> <chanId> <item>*` — `item = price:amount:<b|s>:time_ms`.

Observations (model): `map k=id …` after `sub`/`conf`; after `msg`: `nev n`, then per event
`ev key exchange time` + one of `trade px |amt| side` & `amt a` & `sgn neg|zero|pos` (sign of
`PublicTrade.amount` as produced; the spec is silent on it) / `l1 bp ba ap aa` / `l2 b p a … a p a …`
/ `liq px qty side`, or `err unidentifiable` & `errid id`. The spec prints the subset the property
constrains.
-/
namespace BarterModel.Driver.C13
open BarterModel.Driver BarterModel.Connectors

def exchName : Exch → String
  | .binanceSpot => "binance_spot" | .binanceFuturesUsd => "binance_futures_usd"
  | .bitfinex => "bitfinex" | .bitmex => "bitmex" | .bybitSpot => "bybit_spot"
  | .bybitPerpetualsUsd => "bybit_perpetuals_usd" | .coinbase => "coinbase"
  | .gateioSpot => "gateio_spot" | .gateioFuturesUsd => "gateio_futures_usd"
  | .gateioFuturesBtc => "gateio_futures_btc" | .gateioPerpetualsUsd => "gateio_perpetuals_usd"
  | .gateioPerpetualsBtc => "gateio_perpetuals_btc" | .gateioOptions => "gateio_options"
  | .kraken => "kraken" | .okx => "okx"

def allExch : List Exch :=
  [.binanceSpot, .binanceFuturesUsd, .bitfinex, .bitmex, .bybitSpot, .bybitPerpetualsUsd, .coinbase,
   .gateioSpot, .gateioFuturesUsd, .gateioFuturesBtc, .gateioPerpetualsUsd, .gateioPerpetualsBtc,
   .gateioOptions, .kraken, .okx]

def parseExch (s : String) : Option Exch := allExch.find? fun e => exchName e == s

def parseKind : String → Option Kind
  | "trades" => some .publicTrades | "l1" => some .orderBooksL1
  | "l2" => some .orderBooksL2 | "liqs" => some .liquidations | _ => none

def parsePair (e k : String) : Option Pair := do
  let e ← parseExch e
  let k ← parseKind k
  let p : Pair := ⟨e, k⟩
  if supported.contains p then some p else none

def parseDate (s : String) : Option Date :=
  if s.length != 8 then none else do
    let y ← (s.take 4).toString.toNat?
    let m ← ((s.drop 4).take 2).toString.toNat?
    let d ← (s.drop 6).toString.toNat?
    let dt : Date := ⟨y, m, d⟩
    if dt.valid then some dt else none

def parseInst (s : String) : Option Inst :=
  match s.splitOn ":" with
  | [b, q, "S"] => some ⟨b.toList, q.toList, .spot⟩
  | [b, q, "P"] => some ⟨b.toList, q.toList, .perpetual⟩
  | [b, q, f] =>
    if f.startsWith "F" then (parseDate (f.drop 1).toString).map fun d => ⟨b.toList, q.toList, .future d⟩
    else none
  | [b, q, o, k, c] =>
    if o.startsWith "O" then do
      let d ← parseDate (o.drop 1).toString
      let k ← k.toNat?
      let c ← (match c with | "C" => some true | "P" => some false | _ => none)
      some ⟨b.toList, q.toList, .option d k c⟩
    else none
  | _ => none

/-- `@<name_exchange>:<kind…>`: the verbatim representation (`MarketInstrumentData`) -/
def parseVerbatim (s : String) : Option InstRep :=
  if !s.startsWith "@" then none else
  match (s.drop 1).toString.splitOn ":" with
  | [n, "S"] => some (.verbatim n.toList .spot)
  | [n, "P"] => some (.verbatim n.toList .perpetual)
  | [n, f] =>
    if f.startsWith "F" then (parseDate (f.drop 1).toString).map fun d => .verbatim n.toList (.future d)
    else none
  | [n, o, k, c] =>
    if o.startsWith "O" then do
      let d ← parseDate (o.drop 1).toString
      let k ← k.toNat?
      let c ← (match c with | "C" => some true | "P" => some false | _ => none)
      some (.verbatim n.toList (.option d k c))
    else none
  | _ => none

/-- `=base:quote:<kind…>`: the un-keyed representation (plain `MarketDataInstrument`) -/
def parseUnkeyed (s : String) : Option Inst :=
  if s.startsWith "=" then parseInst (s.drop 1).toString else none

/-- the instruments of one un-keyed `sub` line (non-empty, every token `=…`) -/
def parseUnkeyedAll (toks : List String) : Option (List Inst) :=
  if toks.isEmpty || !toks.all (·.startsWith "=") then none else
  toks.foldr (fun t acc => do let i ← parseUnkeyed t; let r ← acc; some (i :: r)) (some [])

def fmtIKind : IKind → String
  | .spot => "S"
  | .perpetual => "P"
  | .future d => "F" ++ String.ofList (fmtYmd4 d)
  | .option d k c => "O" ++ String.ofList (fmtYmd4 d) ++ ":" ++ toString k ++ ":" ++ (if c then "C" else "P")

/-- an instrument key of the un-keyed path, in the token syntax of the `sub` line -/
def fmtInst (i : Inst) : String :=
  String.ofList i.base ++ ":" ++ String.ofList i.quote ++ ":" ++ fmtIKind i.kind

def parseRep (s : String) : Option InstRep :=
  if s.startsWith "@" then parseVerbatim s else (parseInst s).map .formatted

def isVerbatim : InstRep → Bool
  | .verbatim _ _ => true
  | .formatted _ => false

def parseAll {α β} (f : α → Option β) : List α → Option (List β)
  | [] => some []
  | x :: xs => do let y ← f x; let ys ← parseAll f xs; some (y :: ys)

/-- the instruments of one `sub` line: all formatted or all verbatim -/
def parseReps (toks : List String) : Option (List InstRep) := do
  let rs ← parseAll parseRep toks
  if rs.all isVerbatim || rs.all (fun r => !isVerbatim r) then some rs else none

def parseItem (s : String) : Option Item :=
  match s.splitOn ":" with
  | [p, a, sd, t] => do
    let p ← parseRat? p
    let a ← parseRat? a
    let sd ← (match sd with | "b" => some Side.buy | "s" => some Side.sell | _ => none)
    let t ← t.toInt?
    -- the venues' epoch fields are unsigned (`u64` deserialisers): a negative time is no message (harness: same)
    if t < 0 then none else
    some ⟨p, a, sd, t⟩
  | _ => none

def parseMsg : List String → Option Msg
  | chan :: mkt :: cid :: items => do
    let cid ← cid.toNat?
    let items ← parseAll parseItem items
    some ⟨chan.toList, mkt.toList, cid, items⟩
  | _ => none

def sideStr : Side → String | .buy => "buy" | .sell => "sell"

def fmtLevel : Option (Rat × Rat) → String
  | none => "none none"
  | some (p, a) => fmtRat p ++ " " ++ fmtRat a

def fmtLevels (ls : List (Rat × Rat)) : String :=
  " ".intercalate (ls.map fun (p, a) => fmtRat p ++ " " ++ fmtRat a)

/-- insertion sort of map entries by key (keys are unique positions) -/
def sortByKey (m : IMap) : IMap :=
  m.foldl (fun acc e =>
    let (lo, hi) := acc.span (fun x => x.2 ≤ e.2)
    lo ++ e :: hi) []

/-- the key the `k`-th instrument is subscribed under: `k` itself unless a `keys` line preceded the `sub` -/
def keyOf (keys : List Nat) (k : Nat) : Nat := if keys.isEmpty then k else keys.getD k k

/-- `keys k0 k1 …`: naturals of at most 18 digits (a `usize`), pairwise distinct -/
def parseKeys (toks : List String) : Option (List Nat) := do
  let ks ← toks.mapM (fun t => if t.all Char.isDigit && t.length ≤ 18 then t.toNat? else none)
  if ks.eraseDups.length = ks.length then some ks else none

def fmtMapK (keys : List Nat) (m : IMap) : String :=
  "map " ++ " ".intercalate ((sortByKey m).map fun (id, k) => toString (keyOf keys k) ++ "=" ++ String.ofList id)

def fmtMap (m : IMap) : String := fmtMapK [] m

/-- the observation lines of an event whose key is printed as `key` -/
def fmtEventWith (key : String) (ev : Event) : List String :=
  ("ev " ++ key ++ " " ++ exchName ev.exch ++ " " ++ toString ev.time) ::
  match ev.kind with
  -- `dk <name> 1`: converted to `MarketEvent<_, DataKind>` (event.rs `From` impls) the event is of its own
  -- kind (`DataKind::kind_name`) and the accessor of that kind hands back the same event
  | .trade p a s => ["trade " ++ fmtRat p ++ " " ++ fmtRat (absR a) ++ " " ++ sideStr s, "amt " ++ fmtRat a,
                     "sgn " ++ (if a < 0 then "neg" else if a = 0 then "zero" else "pos"),
                     "dk public_trade 1"]
  | .l1 b a => ["l1 " ++ fmtLevel b ++ " " ++ fmtLevel a, "dk l1 1"]
  | .l2 bs as => ["l2 b " ++ fmtLevels bs ++ " a " ++ fmtLevels as, "dk l2 1"]
  | .liq p q s => ["liq " ++ fmtRat p ++ " " ++ fmtRat q ++ " " ++ sideStr s, "dk liquidation 1"]

def fmtEvent (ev : Event) : List String := fmtEventWith (toString ev.key) ev

def fmtEventK (keys : List Nat) (ev : Event) : List String := fmtEventWith (toString (keyOf keys ev.key)) ev

def fmtEventU (ev : EventU) : List String := fmtEventWith (fmtInst ev.key) ⟨0, ev.exch, ev.time, ev.kind⟩

/-- position of the LAST subscription whose stored instrument is `key` (the harness lists a map entry
there; for un-keyed subscriptions two entries never share a key: the id is a function of the key) -/
def lastPos (subs : List Inst) (key : Inst) : Nat :=
  (subs.zipIdx.foldl (fun acc (i, k) => if i.canon = key then k else acc) subs.length)

def fmtMapU (subs : List Inst) (m : UMap) : String :=
  let sorted := m.foldl (fun acc e =>
    let (lo, hi) := acc.span (fun x => lastPos subs x.2 ≤ lastPos subs e.2)
    lo ++ e :: hi) []
  "map " ++ " ".intercalate (sorted.map fun (id, k) => fmtInst k ++ "=" ++ String.ofList id)

structure St where
  pair : Option Pair := none
  map : IMap := []
  /-- `some (subs, map)`: the case subscribed un-keyed instruments; `map` above is then unused -/
  unkeyed : Option (List Inst × UMap) := none
  /-- the keys of the subscribed instruments by position (`[]`: key = position) -/
  keys : List Nat := []
  /-- a `keys` line waiting for its `sub` -/
  pending : Option (List Nat) := none

def parseNoise : String → Option Noise
  | "kraken_hb" => some .krakenHeartbeat
  | "kraken_err" => some .krakenError
  | "bybit_resp" => some .bybitResponse
  | "bybit_pong" => some .bybitPong
  | _ => none

def model : Drv St where
  init := {}
  step s toks :=
    match toks with
    | "keys" :: ks =>
      match parseKeys ks with
      | some ks => ({ s with pending := some ks }, ["keys " ++ toString ks.length])
      | none => ({ s with pending := none }, ["bad-op"])
    | "sub" :: e :: k :: insts =>
      let pend := s.pending
      let s := { s with pending := none }
      match parsePair e k, parseUnkeyedAll insts, parseReps insts with
      | some p, some subs, _ =>
        if pend.isSome then (s, ["bad-op"]) else
        -- the un-keyed path: `Map<MarketDataInstrument>` (`mapOfU`), events keyed by the instrument
        let m := mapOfU p subs
        (⟨some p, [], some (subs, m), [], none⟩, [fmtMapU subs m])
      | some p, none, some subs =>
        let keys := pend.getD []
        if pend.isSome && keys.length != subs.length then (s, ["bad-op"]) else
        let m := mapOfR p subs
        (⟨some p, m, none, keys, none⟩, [fmtMapK keys m])
      | _, _, _ => (s, ["bad-op"])
    | ["conf", chan, mkt, cid] =>
      match s.pair, cid.toNat? with
      | some p, some cid =>
        if p.exch = .bitfinex then
          match s.unkeyed with
          | some (subs, mu) =>
            let m := bitfinexSubscribedU mu chan.toList mkt.toList cid
            ({ s with unkeyed := some (subs, m) }, [fmtMapU subs m])
          | none =>
            let m := bitfinexSubscribed s.map chan.toList mkt.toList cid
            ({ s with map := m }, [fmtMapK s.keys m])
        else (s, ["bad-op"])
      | _, _ => (s, ["bad-op"])
    | "msg" :: rest =>
      match s.pair, parseMsg rest with
      | some p, some msg =>
        if !shapeOk p msg then (s, ["bad-op"]) else
        match s.unkeyed with
        | some (_, mu) =>
          match transformU p mu msg with
          | .events evs => (s, ("nev " ++ toString evs.length) :: (evs.map fmtEventU).flatten)
          | .unidentifiable id => (s, ["nev 1", "err unidentifiable", "errid " ++ String.ofList id])
        | none =>
        match transform p s.map msg with
        | .events evs => (s, ("nev " ++ toString evs.length) :: (evs.map (fmtEventK s.keys)).flatten)
        | .unidentifiable id => (s, ["nev 1", "err unidentifiable", "errid " ++ String.ofList id])
      | _, _ => (s, ["bad-op"])
    | ["noise", v] =>
      match s.pair, parseNoise v with
      | some p, some n =>
        if !n.sentBy p.exch then (s, ["bad-op"]) else
        match transformNoise p s.map n with
        | .events evs => (s, ("nev " ++ toString evs.length) :: (evs.map (fmtEventK s.keys)).flatten)
        | .unidentifiable id => (s, ["nev 1", "err unidentifiable", "errid " ++ String.ofList id])
      | _, _ => (s, ["bad-op"])
    | _ => (s, ["bad-op"])

/-! ### spec driver: the venue table + the attribution rule of the property -/

structure SpecSt where
  pair : Option Pair := none
  subs : List InstRep := []
  confs : List (Str × Nat) := []
  /-- un-keyed subscriptions: the instrument key the property demands IS the subscribed instrument -/
  unkeyed : Bool := false
  /-- the keys of the subscribed instruments by position (`[]`: key = position); a waiting `keys` line -/
  keys : List Nat := []
  pending : Option (List Nat) := none

/-- venues whose trade payload carries the symbol per trade: an empty message names no market -/
def perItemSymbol : Exch → Bool
  | .bitmex | .gateioFuturesUsd | .gateioFuturesBtc | .gateioPerpetualsUsd | .gateioPerpetualsBtc
  | .gateioOptions => true
  | _ => false

def specEvents (p : Pair) (key : String) (msg : Msg) : List String :=
  let hdr (t : Int) := "ev " ++ key ++ " " ++ exchName p.exch ++ " " ++ toString t
  match p.kind with
  | .publicTrades =>
    ("nev " ++ toString msg.items.length) ::
    (msg.items.map fun it =>
      let st := specTrade p.exch it
      [hdr st.time, "trade " ++ fmtRat st.price ++ " " ++ fmtRat st.qty ++ " " ++ sideStr st.side,
       "dk public_trade 1"]).flatten
  | .orderBooksL1 =>
    match msg.items with
    | [b, a] =>
      -- each side on its own: a stated (non-zero) price must come through with its amount; for an
      -- empty side (price 0) the property does not say whether it is reported as absent or as 0
      let side (it : Item) : String :=
        if it.price ≠ 0 then fmtRat it.price ++ " " ++ fmtRat it.amount
        else "{none|0} {none|" ++ fmtRat it.amount ++ "}"
      ["nev 1", hdr b.time, "l1 " ++ side b ++ " " ++ side a, "dk l1 1"]
    | _ => []
  | .orderBooksL2 =>
    match msg.items with
    | it :: _ =>
      ["nev 1", hdr it.time,
       "l2 b " ++ fmtLevels ((msg.items.filter (·.side = .buy)).map fun i => (i.price, i.amount)) ++
       " a " ++ fmtLevels ((msg.items.filter (·.side = .sell)).map fun i => (i.price, i.amount)),
       "dk l2 1"]
    | [] => []
  | .liquidations =>
    match msg.items with
    | [it] => ["nev 1", hdr it.time, "liq " ++ fmtRat it.price ++ " " ++ fmtRat it.amount ++ " " ++ sideStr it.side,
               "dk liquidation 1"]
    | _ => []

def spec : Drv SpecSt where
  init := {}
  step s toks :=
    match toks with
    | "keys" :: ks =>
      match parseKeys ks with
      | some ks => ({ s with pending := some ks }, [])
      | none => ({ s with pending := none }, ["bad-op"])
    | "sub" :: e :: k :: insts =>
      let pend := s.pending
      let s := { s with pending := none }
      match parsePair e k, parseUnkeyedAll insts, parseReps insts with
      | some p, some subs, _ =>
        if pend.isSome then (s, ["bad-op"]) else (⟨some p, subs.map .formatted, [], true, [], none⟩, [])
      | some p, none, some subs =>
        let keys := pend.getD []
        if pend.isSome && keys.length != subs.length then (s, ["bad-op"]) else
        (⟨some p, subs, [], false, keys, none⟩, [])
      | _, _, _ => (s, ["bad-op"])
    | ["conf", _, mkt, cid] =>
      match s.pair, cid.toNat? with
      | some p, some cid =>
        if p.exch = .bitfinex then ({ s with confs := s.confs ++ [(mkt.toList, cid)] }, [])
        else (s, ["bad-op"])
      | _, _ => (s, ["bad-op"])
    | "msg" :: rest =>
      match s.pair, parseMsg rest with
      | some p, some msg =>
        if !shapeOk p msg then (s, ["bad-op"]) else
        -- a message that names no market at all (heartbeat / empty batch) yields nothing
        if msg.items.isEmpty && (p.exch = .bitfinex || perItemSymbol p.exch) then (s, ["nev 0"]) else
        -- a message on ANOTHER channel than the one the subscription kind is published under (only the venues
        -- whose payload names its channel can send one: Okx `arg.channel`, Gateio `channel`, Bitmex `table`) is
        -- not a message for a subscribed (market, kind): rejected, whatever market it names
        if p.exch.readsChan && msg.chan ≠ venueChannel p then (s, ["nev 1", "err unidentifiable"]) else
        let symbol : Option Str :=
          if p.exch = .bitfinex then bitfinexSymbolOf s.confs msg.chanId else some msg.market
        match symbol with
        | none => (s, ["nev 1", "err unidentifiable"])
        | some m =>
          if s.unkeyed then
            -- un-keyed subscriptions: "the subscribed instrument" is the instrument as subscribed (asset
            -- names are case-insensitive: lower-cased); the same instrument subscribed twice is ONE
            -- instrument, two different instruments with one venue symbol leave the key open
            let shown (k : Nat) : String :=
              match s.subs[k]? with
              | some (.formatted i) => fmtInst ⟨lower i.base, lower i.quote, i.kind⟩
              | _ => toString k
            match holdersR p.exch s.subs m with
            | [] => (s, ["nev 1", "err unidentifiable"])
            | k :: ks =>
              if ks.all (fun j => shown j == shown k) then (s, specEvents p (shown k) msg) else (s, [])
          else
          match specVerdictR p.exch s.subs m with
          | .rejected => (s, ["nev 1", "err unidentifiable"])
          -- the key the property demands: the one the caller subscribed that instrument under
          | .attributed key => (s, specEvents p (toString (keyOf s.keys key)) msg)
          | .ambiguous => (s, [])
      | _, _ => (s, ["bad-op"])
    | ["noise", v] =>
      -- a message that is not market data and names no market yields neither an event nor an error
      match s.pair, parseNoise v with
      | some p, some n => if n.sentBy p.exch then (s, ["nev 0"]) else (s, ["bad-op"])
      | _, _ => (s, ["bad-op"])
    | _ => (s, ["bad-op"])

end BarterModel.Driver.C13

def main (args : List String) : IO UInt32 :=
  BarterModel.Driver.runMain BarterModel.Driver.C13.model BarterModel.Driver.C13.spec args
