import BarterModel.Driver.Common
import BarterModel.Model.Subscribe
/-!
Line-protocol driver for the sub-check C13V (support tables, validation, batch grouping); the op list is
documented in `harness/src/bin/c13v.rs`.

Tokens: exchange = declaration position 0..41, sub kind = 0..5, connector = position in
`Connectors.Exch` 0..14, instrument kind `s` | `p` | `f<expiry ms>` | `o<put>.<exercise>.<expiry>.<strike>`,
instrument `base/quote/kind`, subscription `exchange,instrument,kind`, batches separated by `|`.
-/
namespace BarterModel.Driver.C13V
open BarterModel.Driver BarterModel.Subscribe BarterModel.Names
open BarterModel.Connectors (Exch IMap)
open BarterModel.Index (Indexed Keyed Def)

/-! ### tokens -/

def parseIK (t : String) : Option IK :=
  if t == "s" then some .spot
  else if t == "p" then some .perpetual
  else if t.startsWith "f" then (t.drop 1).toString.toNat?.map .future
  else if t.startsWith "o" then
    match (t.drop 1).toString.splitOn "." with
    | [p, x, e, k] =>
      match p.toNat?, x.toNat?, e.toNat?, k.toNat? with
      | some p, some x, some e, some k => if p < 2 ∧ x < 3 then some (.option p x e k) else none
      | _, _, _, _ => none
    | _ => none
  else none

def ikTok : IK → String
  | .spot => "s"
  | .perpetual => "p"
  | .future e => "f" ++ toString e
  | .option p x e k => "o" ++ toString p ++ "." ++ toString x ++ "." ++ toString e ++ "." ++ toString k

def parseInst (t : String) : Option Inst :=
  match t.splitOn "/" with
  | [b, q, k] =>
    match b.toNat?, q.toNat?, parseIK k with
    | some b, some q, some k => some ⟨b, q, k⟩
    | _, _, _ => none
  | _ => none

def instTok (i : Inst) : String := toString i.base ++ "/" ++ toString i.quote ++ "/" ++ ikTok i.kind

def parseEx (t : String) : Option ExchangeId := t.toNat?.bind ExchangeId.ofNat?
def parseKind (t : String) : Option SubKind := t.toNat?.bind SubKind.ofNat?
def parseConn (t : String) : Option Exch := t.toNat?.bind fun n => connAll[n]?

def parseSub (t : String) : Option (Subscr Inst) :=
  match t.splitOn "," with
  | [e, i, k] =>
    match parseEx e, parseInst i, parseKind k with
    | some e, some i, some k => some ⟨e, i, k⟩
    | _, _, _ => none
  | _ => none

def subTok (s : Subscr Inst) : String :=
  toString s.exchange.toNat ++ "," ++ instTok s.instrument ++ "," ++ toString s.kind.toNat

/-- splits a token list at `|` -/
def splitBar : List String → List (List String)
  | [] => [[]]
  | t :: r =>
    match splitBar r with
    | cur :: rest => if t == "|" then [] :: cur :: rest else (t :: cur) :: rest
    | [] => [[t]]

def parseBatches (toks : List String) : Option (List (List (Subscr Inst))) :=
  if toks.isEmpty then some [] else (splitBar toks).mapM (fun b => b.mapM parseSub)

def famName : Chan → String
  | .trades => "trades"
  | .l1s => "l1s"
  | .l2s => "l2s"
  | .liquidations => "liquidations"

def parseFam (t : String) : Option Chan := Chan.all.find? (fun f => famName f == t)

def bits (l : List Bool) : String := String.ofList (l.map fun b => if b then '1' else '0')

def nats (l : List Nat) : String := " ".intercalate (l.map toString)

def sortNats (l : List Nat) : List Nat := l.mergeSort (fun a b => a ≤ b)

def exs (l : List ExchangeId) : String := nats (sortNats (l.map (·.toNat)))

def str (s : Str) : String := String.ofList s

def kindDisp (i : Inst) : Str := i.kind.toMD.display

/-- the instantiation of `sort_unstable_by_key` in the driver: the stable merge sort -/
def usortSubs (l : List (Subscr Inst)) : List (Subscr Inst) := stableSort l

def usortIdx (l : List (Nat × MInst)) : List (Nat × MInst) := stableSortIdx l

/-- representatives of the four instrument kind classes (any member gives the same answers) -/
def clsOfIK (k : IK) : IKC := k.cls

/-! ### definitions for the index ops -/

def parseDef (t : String) : Option Def :=
  match t.splitOn "/" with
  | [e, n, b, q, k] =>
    match e.toNat?, n.toNat?, b.toNat?, q.toNat?, parseIK k with
    | some e, some n, some b, some q, some k =>
      if e < 42 then
        some { exchange := e, nameInternal := n, nameExchange := n, base := ⟨b, b⟩, quote := ⟨q, q⟩,
               quoteAsset := 1,
               kind := (match k with
                 | .spot => .spot
                 | .perpetual => .perpetual 1 ⟨q, q⟩
                 | .future x => .future 1 ⟨q, q⟩ x
                 | .option p x ex st => .option 1 ⟨q, q⟩ p x ex st),
               spec := none }
      else none
    | _, _, _, _, _ => none
  | _ => none

def minstTok (i : MInst) : String :=
  toString i.key ++ ":" ++ toString i.nameExchange ++ ":" ++ ikTok i.kind

def parseIdxSub (t : String) : Option (Nat × Inst × SubKind) :=
  (parseSub t).map fun s => (s.exchange.toNat, s.instrument, s.kind)

/-! ### state -/

structure St where
  ii : Option Indexed := none
  ds : Chans := {}
  sb : Option (Builder Inst) := none
  multi : Option (Multi Inst) := none
  map : IMap := []

def famLines (c : Chans) : List String :=
  Chan.all.map fun f => "fam " ++ famName f ++ " " ++ exs (c.get f)

def builderObs (channels : List ExchangeId) (n : Nat) : List String :=
  ["chans " ++ exs channels, "futs " ++ toString n]

def parseList (t : String) : Option (List ExchangeId) :=
  if t == "-" then some [] else (t.splitOn ",").mapM parseEx

/-- what `init` of a builder printed: `Ok` with the channel owners | the error of the deciding future (its text
names the connector the future belongs to) | pending on the network -/
def preNetLine (channels : List ExchangeId) : Option (PreNet (Exch × SubscribeOutcome Inst)) → List String
  | none => ["% builder:no-future", "res ok " ++ exs channels]
  | some .network => ["% builder:network", "res network"]
  | some (.error (c, o)) =>
    [(match o with | .empty => "% builder:empty" | _ => "% builder:unsupported"),
      "res err " ++ str (o.text kindDisp c)]

/-- which branch of `try_join_all` decided, for the exploration histogram -/
def joinTags (n : Nat) (polls : List (Option (PreNet (Exch × SubscribeOutcome Inst)))) : List String :=
  [(if n ≤ tryJoinSmall then "% join:small" else "% join:big"),
    (match polls with
     | some (.error _) :: _ => "% join:first-future-fails"
     | _ => if polls.any (fun p => match p with | some (.error _) => true | _ => false)
            then "% join:later-future-fails" else "% join:no-future-fails")]

/-! ### model -/

def initLines (batches : List (List (Subscr Inst))) : List String :=
  match validateBatches instOps batches with
  | .error s =>
    let m := str ((InitErr.validation s).text kindDisp)
    ["% init:validation-error", "res err", "msg " ++ m] ++
      (match init instOps usortSubs batches with
       | .error e => ["real err " ++ str (e.text kindDisp)]
       | .ok _ => ["real ok"])
  | .ok vs =>
    match channels vs with
    | .error k => ["res ok", "nb " ++ toString vs.length, "chanerr " ++ toString k.toNat]
    | .ok chans =>
      let grp := (vs.zipIdx.flatMap fun (b, i) =>
        (groups usortSubs b).map fun g =>
          let hd := "grp " ++ toString i ++ " " ++ toString g.1.1.toNat ++ " " ++ toString g.1.2.toNat ++ " "
          match dispatch chans g with
          | .ok c => hd ++ famName c.chan ++ " " ++ " ".intercalate (c.instruments.map instTok)
          | .error .panic => hd ++ "panic"
          | .error _ => hd ++ "unsupported")
      let real :=
        match init instOps usortSubs batches with
        | .error e => "real err " ++ str (e.text kindDisp)
        | .ok r =>
          let n := r.conns.flatten.length
          if n = 0 then
            "real ok " ++ nats (Chan.all.map fun f => (r.chans.get f).length)
          else "real network " ++ toString n
      ["% init:accepted", (if vs.any (fun b => b.length > 20) then "% init:batch>20" else "% init:batch<=20"),
        (if vs.any (fun b => (groups usortSubs b).length > 1) then "% init:split-batch" else "% init:one-group-per-batch"),
        "res ok", "nb " ++ toString vs.length] ++ grp ++
        (Chan.all.map fun f => "chan " ++ famName f ++ " " ++ exs (chans.get f)) ++ [real]

def idxLines (ii : Indexed) : List String :=
  ("n " ++ toString ii.instruments.length) ::
    ii.instruments.map fun k =>
      "ins " ++ toString k.key ++ " " ++ toString k.value.exchange.value ++ " " ++
        toString k.value.nameExchange ++ " " ++ toString k.value.base ++ "/" ++ toString k.value.quote ++ " " ++
        ikTok (IK.ofKind k.value.kind)

def genLines (bs : List (List (Nat × MInst × SubKind))) : List String :=
  ("nb " ++ toString bs.length) ::
    bs.zipIdx.map fun (b, i) =>
      "b " ++ toString i ++ " " ++ " ".intercalate (b.map fun s =>
        toString s.1 ++ "," ++ minstTok s.2.1 ++ "," ++ toString s.2.2.toNat)

def model : Drv St where
  init := {}
  step s toks :=
    match toks with
    | ["tables"] =>
      (s, (ExchangeId.all.map fun e => "ik" ++ toString e.toNat ++ " " ++ bits (IKC.all.map (supportsIK e))) ++
          (ExchangeId.all.map fun e => "iksk" ++ toString e.toNat ++ " " ++
            " ".intercalate (IKC.all.map fun ik => bits (SubKind.all.map (supportsIKSK e ik)))))
    | ["sik", e, ik] =>
      match parseEx e, parseIK ik with
      | some e, some ik => (s, ["r " ++ fmtBool (supportsIK e ik.cls)])
      | _, _ => (s, ["bad-op"])
    | ["sikk", e, ik, k] =>
      match parseEx e, parseIK ik, parseKind k with
      | some e, some ik, some k => (s, ["r " ++ fmtBool (supportsIKSK e ik.cls k)])
      | _, _, _ => (s, ["bad-op"])
    | ["vdyn", t] =>
      match parseSub t with
      | some sub =>
        if sub.valid instOps then (s, ["res ok"])
        else (s, ["res err", "msg " ++ str (dynErrorText (kindDisp sub.instrument) sub.exchange sub.kind)])
      | none => (s, ["bad-op"])
    | ["vstat", c, k, i] =>
      match parseConn c, parseKind k, parseInst i with
      | some c, some k, some i =>
        (s, ["sel " ++ fmtBool (selector c k)] ++
          (if staticValid c i.kind.cls then ["res ok"]
           else ["res err", "msg " ++ str (statErrorText (kindDisp i) c)]))
      | _, _, _ => (s, ["bad-op"])
    | ["static"] =>
      (s, ("ids " ++ nats (connAll.map fun c => (connId c).toNat)) ::
        connAll.zipIdx.map fun (c, n) => "sel" ++ toString n ++ " " ++ bits (SubKind.all.map (selector c)))
    | ["arms"] =>
      (s, (arms.map fun a =>
            "arm " ++ toString a.1.toNat ++ " " ++ toString a.2.toNat ++ " " ++
              (match route a.2 with | some f => famName f | none => "none")) ++ ["fallback unsupported"])
    | ["kinds"] =>
      (s, (SubKind.all.map fun k => "kind" ++ toString k.toNat ++ " " ++ str k.display ++ " " ++ str k.asStr) ++
          ["ord " ++ fmtBool ((SubKind.all.map (·.toNat)) == List.range 6)])
    | ["empty"] => (s, ["res err " ++ str ((InitErr.subscriptionsEmpty : InitErr Inst).text kindDisp)])
    | "disp" :: ts =>
      match ts.mapM parseSub with
      | some subs => (s, ["out " ++ str (displayWithoutExchange Inst.display subs)])
      | none => (s, ["bad-op"])
    | ["dsub", t] =>
      match parseSub t with
      | some sub => (s, ["out " ++ str (subDisplay Inst.display sub)])
      | none => (s, ["bad-op"])
    | "vsubs" :: ts =>
      match ts.mapM parseSub with
      | some subs =>
        match validateSubscriptions instOps subs with
        | .ok v => (s, ["res ok", "subs " ++ " ".intercalate (v.map subTok)])
        | .error b => (s, ["res err", "msg " ++ str ((InitErr.validation b).text kindDisp)])
      | none => (s, ["bad-op"])
    | "init" :: ts =>
      match parseBatches ts with
      | some batches => (s, initLines batches)
      | none => (s, ["bad-op"])
    | "idx" :: ts =>
      match ts.mapM parseDef with
      | some defs =>
        match BarterModel.Index.build defs with
        | some ii => ({ s with ii := some ii }, idxLines ii)
        | none => (s, ["panic"])
      | none => (s, ["bad-op"])
    | "gen" :: ts =>
      match s.ii, ts.mapM parseKind with
      | some ii, some kinds => (s, genLines (generateBatches usortIdx ii kinds))
      | _, _ => (s, ["bad-op"])
    | "index" :: ts =>
      match s.ii, (if ts.isEmpty then some [] else (splitBar ts).mapM (fun b => b.mapM parseIdxSub)) with
      | some ii, some batches =>
        match indexBatches ii batches with
        | .ok bs =>
          (s, ["res ok", "nb " ++ toString bs.length] ++
            bs.zipIdx.map fun (b, i) =>
              "b " ++ toString i ++ " " ++ " ".intercalate (b.map fun x =>
                toString x.1 ++ "," ++ toString x.2.1.key ++ ":" ++ instTok x.2.1.value ++ "," ++
                  toString x.2.2.toNat))
        | .error .assetIndex => (s, ["res err", "why asset"])
        | .error .instrumentIndex => (s, ["res err", "why instrument"])
      | _, _ => (s, ["bad-op"])
    | ["ds", t, l1, l2, lq] =>
      match parseList t, parseList l1, parseList l2, parseList lq with
      | some t, some l1, some l2, some lq =>
        let c : Chans := ⟨t.eraseDups, l1.eraseDups, l2.eraseDups, lq.eraseDups⟩
        ({ s with ds := c }, famLines c)
      | _, _, _, _ => (s, ["bad-op"])
    | ["sel", f, e] =>
      match parseFam f, parseEx e with
      | some f, some e =>
        let (c, found) := s.ds.select f e
        ({ s with ds := c }, (if found then "r some " ++ toString e.toNat else "r none") :: famLines c)
      | _, _ => (s, ["bad-op"])
    | ["selall", f] =>
      match parseFam f with
      | some f =>
        let (c, got) := s.ds.selectAll f
        ({ s with ds := c }, ("r " ++ exs got) :: famLines c)
      | none => (s, ["bad-op"])
    | ["all"] =>
      let got := s.ds.everything
      ({ s with ds := {} }, ("r " ++ exs (got.map (·.2))) :: famLines {})
    | ["sb", k] =>
      match parseKind k with
      | some k =>
        if (route k).isSome then
          let b : Builder Inst := { kind := k }
          ({ s with sb := some b }, builderObs b.channels b.futures.length)
        else (s, ["bad-op"])
      | none => (s, ["bad-op"])
    | "sub" :: c :: ts =>
      match s.sb, parseConn c, ts.mapM parseInst with
      | some b, some c, some insts =>
        if selector c b.kind then
          let b' := b.subscribe c insts
          ({ s with sb := some b' }, builderObs b'.channels b'.futures.length)
        else (s, ["nosel"])
      | _, _, _ => (s, ["bad-op"])
    | ["sbinit"] =>
      match s.sb with
      | some b =>
        ({ s with sb := none },
          joinTags b.futures.length (b.firstPolls instOps) ++ preNetLine b.channels (b.init instOps))
      | none => (s, ["bad-op"])
    | ["mb"] => ({ s with multi := some {} }, builderObs [] 0)
    | ["madd"] =>
      match s.multi, s.sb with
      | some m, some b =>
        let m' := m.add b
        ({ s with multi := some m', sb := none }, builderObs m'.channels m'.futures.length)
      | _, _ => (s, ["bad-op"])
    | ["minit"] =>
      match s.multi with
      | some m =>
        ({ s with multi := none },
          joinTags m.futures.length (m.futures.map fun b => b.init instOps) ++
            preNetLine m.channels (m.init instOps))
      | none => (s, ["bad-op"])
    | "map" :: ts =>
      match ts.mapM (fun t => match t.splitOn "=" with
          | [k, v] => v.toNat?.map fun v => (k.toList, v)
          | _ => none) with
      | some kvs =>
        let m := mapFromIter kvs
        ({ s with map := m }, ["size " ++ toString m.length])
      | none => (s, ["bad-op"])
    | ["find", k] =>
      match mapFind s.map k.toList with
      | some v => (s, ["r some " ++ toString v])
      | none => (s, ["r err consumed unidentifiable message: " ++ k])
    | ["findmut", k, v] =>
      match v.toNat? with
      | some v =>
        match mapFindMutSet s.map k.toList v with
        | some m => ({ s with map := m }, ["r ok", "size " ++ toString m.length])
        | none => (s, ["r err consumed unidentifiable message: " ++ k, "size " ++ toString s.map.length])
      | none => (s, ["bad-op"])
    | _ => (s, ["bad-op"])

/-! ### spec: only what the documentation determines -/

/-- the documented table plus the `Liquidations` combination -/
def specSupports (e : ExchangeId) (ik : IKC) (k : SubKind) : Bool :=
  documented e ik k || undocumentedExtra e ik k

def specValid (s : Subscr Inst) : Bool := specSupports s.exchange s.instrument.kind.cls s.kind

/-- connector / instrument kind combinations on which the static `validate` contradicts the table (see
`Props.C13V.static_contradicts_documentation_iff`): the spec is silent there -/
def staticException (c : Exch) (ik : IKC) : Bool := staticValid c ik != documentedIK (connId c) ik

/-- the history of a hand-built `DynamicStreams` -/
structure SpecSt where
  ii : Option Indexed := none
  dsInit : Chans := {}
  dsHist : List SelOp := []
  sb : Option (Builder Inst) := none
  multi : Option (Multi Inst) := none
  map : List (Str × Nat) := []
  mapHist : List (Str × Nat) := []

def present (s : SpecSt) (f : Chan) (e : ExchangeId) : Bool := specPresent s.dsInit s.dsHist f e

def specFam (s : SpecSt) : List String :=
  Chan.all.map fun f => "fam " ++ famName f ++ " " ++ exs ((s.dsInit.get f).eraseDups.filter (present s f))

/-- What the documentation lets one expect of a future when it is first polled. -/
inductive SpecPoll where
  /-- `Ok` at once (a builder without any `subscribe` call) -/
  | ok
  /-- the static `validate` contradicts the README table for one of the instruments: the spec is silent -/
  | silent
  /-- fails before the network, with this `res` line -/
  | fails (line : String)
  /-- goes to the network -/
  | network

/-- one `subscribe` call, from the README table (`documentedIK`), not from the code's table -/
def specCall (c : Exch) (insts : List Inst) : SpecPoll :=
  if insts.any (fun i => staticException c i.kind.cls) then .silent
  else
    match insts.find? (fun i => !documentedIK (connId c) i.kind.cls) with
    | some i => .fails ("res err " ++ str ((SubscribeOutcome.unsupported i).text kindDisp c))
    | none =>
      if insts.isEmpty then .fails ("res err " ++ str ((SubscribeOutcome.empty : SubscribeOutcome Inst).text kindDisp c))
      else .network

/-- `try_join_all` (futures-util 0.3.34) on at most 30 futures: all are polled in one pass, the first that
fails in that pass is the result ("if any future returns an error … an error will be returned immediately") -/
def specJoinSmall : List SpecPoll → SpecPoll
  | [] => .ok
  | .ok :: t => specJoinSmall t
  | .fails l :: _ => .fails l
  | .silent :: _ => .silent
  | .network :: t =>
    match specJoinSmall t with
    | .fails l => .fails l
    | .silent => .silent
    | _ => .network

/-- on more than 30 futures the results are taken in order: the first future that is not `Ok` decides -/
def specJoinBig : List SpecPoll → SpecPoll
  | [] => .ok
  | .ok :: t => specJoinBig t
  | p :: _ => p

def specJoin (l : List SpecPoll) : SpecPoll := if l.length ≤ 30 then specJoinSmall l else specJoinBig l

def specBuilder (b : Builder Inst) : SpecPoll := specJoin (b.futures.map fun f => specCall f.1 f.2)

def specPollLines (channels : List ExchangeId) : SpecPoll → List String
  | .ok => ["res ok " ++ exs channels]
  | .silent => []
  | .fails l => [l]
  | .network => ["res network"]

/-! `#[derive(Ord)]` of `Subscription<ExchangeId, MarketDataInstrument, SubKind>` written out field by field
(names compared as `String`s), and "the set of the batch" by insertion: independent of the model's sort keys
and of its `sortDedup`. -/

def ikRank : IK → Nat
  | .spot => 0 | .perpetual => 1 | .future _ => 2 | .option .. => 3

def cmpIK : IK → IK → Ordering
  | .future e, .future e' => compare e e'
  | .option p x e k, .option p' x' e' k' =>
    (compare p p').then ((compare x x').then ((compare e e').then (compare k k')))
  | a, b => compare (ikRank a) (ikRank b)

def cmpName (a b : Nat) : Ordering := compare (String.ofList (assetName a)) (String.ofList (assetName b))

def cmpInst (a b : Inst) : Ordering :=
  (cmpName a.base b.base).then ((cmpName a.quote b.quote).then (cmpIK a.kind b.kind))

def cmpSub (a b : Subscr Inst) : Ordering :=
  (compare a.exchange.toNat b.exchange.toNat).then
    ((cmpInst a.instrument b.instrument).then (compare a.kind.toNat b.kind.toNat))

def insertSet {α : Type} (cmp : α → α → Ordering) (x : α) : List α → List α
  | [] => [x]
  | y :: t =>
    match cmp x y with
    | .lt => x :: y :: t
    | .eq => y :: t
    | .gt => y :: insertSet cmp x t

/-- "the subscriptions of the batch" as an ascending set -/
def specSubSet (l : List (Subscr Inst)) : List (Subscr Inst) := l.foldl (fun acc x => insertSet cmpSub x acc) []

/-- one connection per distinct `(exchange, kind)` of the batch (ascending), each with the batch's
subscriptions of that key -/
def specGroupsI (b : List (Subscr Inst)) : List ((ExchangeId × SubKind) × List (Subscr Inst)) :=
  let keys := b.foldl (fun acc s => insertSet
    (fun (x y : ExchangeId × SubKind) => (compare x.1.toNat y.1.toNat).then (compare x.2.toNat y.2.toNat)) s.gkey acc) []
  keys.map fun k => (k, (specSubSet b).filter fun s => s.gkey = k)

def spec : Drv SpecSt where
  init := {}
  step s toks :=
    match toks with
    | ["tables"] =>
      (s, (connAll.map fun c =>
            let e := connId c
            "ik" ++ toString e.toNat ++ " " ++
              (if IKC.all.any (staticException c) then
                "{" ++ bits (IKC.all.map (documentedIK e)) ++ "|" ++ bits (IKC.all.map (supportsIK e)) ++ "}"
               else bits (IKC.all.map (documentedIK e)))) ++
          (ExchangeId.all.map fun e => "iksk" ++ toString e.toNat ++ " " ++
            " ".intercalate (IKC.all.map fun ik => bits (SubKind.all.map (specSupports e ik)))))
    | ["sik", e, ik] =>
      match parseEx e, parseIK ik with
      | some e, some ik =>
        match connAll.find? (fun c => connId c == e) with
        | some c => if staticException c ik.cls then (s, []) else (s, ["r " ++ fmtBool (documentedIK e ik.cls)])
        | none => (s, [])
      | _, _ => (s, ["bad-op"])
    | ["sikk", e, ik, k] =>
      match parseEx e, parseIK ik, parseKind k with
      | some e, some ik, some k => (s, ["r " ++ fmtBool (specSupports e ik.cls k)])
      | _, _, _ => (s, ["bad-op"])
    | ["vdyn", t] =>
      match parseSub t with
      | some sub => (s, [if specValid sub then "res ok" else "res err"])
      | none => (s, ["bad-op"])
    | ["vstat", c, k, i] =>
      match parseConn c, parseKind k, parseInst i with
      | some c, some k, some i =>
        (s, ["sel " ++ fmtBool (documentedSK (connId c) k || (c == .binanceFuturesUsd && k == .liquidations))] ++
          (if staticException c i.kind.cls then []
           else [if documentedIK (connId c) i.kind.cls then "res ok" else "res err"]))
      | _, _, _ => (s, ["bad-op"])
    | ["static"] =>
      -- `ids` (Connector::ID of the 15 connector types) is correspondence-only: the documentation has no second source for it
      (s, connAll.zipIdx.map fun (c, n) =>
          "sel" ++ toString n ++ " " ++
            bits (SubKind.all.map fun k => IKC.all.any fun ik => specSupports (connId c) ik k))
    | ["arms"] => (s, [])
    | ["kinds"] => (s, [])
    | ["empty"] => (s, [])
    | "disp" :: _ => (s, [])
    | ["dsub", _] => (s, [])
    | "vsubs" :: ts =>
      match ts.mapM parseSub with
      | some subs =>
        if subs.all specValid then (s, ["res ok", "subs " ++ " ".intercalate ((specSubSet subs).map subTok)])
        else (s, ["res err"])
      | none => (s, ["bad-op"])
    | "init" :: ts =>
      match parseBatches ts with
      | some batches =>
        if specAccepts specValid batches then
          (s, ["res ok", "nb " ++ toString batches.length] ++
            (batches.zipIdx.flatMap fun (b, i) =>
              (specGroupsI b).map fun g =>
                "grp " ++ toString i ++ " " ++ toString g.1.1.toNat ++ " " ++ toString g.1.2.toNat ++ " " ++
                  (match route g.1.2 with | some f => famName f | none => "none") ++ " " ++
                  " ".intercalate (g.2.map fun x => instTok x.instrument)) ++
            (Chan.all.map fun f => "chan " ++ famName f ++ " " ++
              exs (ExchangeId.all.filter (specChanOwner batches f))))
        else (s, ["res err"])
      | none => (s, ["bad-op"])
    | "idx" :: ts =>
      match ts.mapM parseDef with
      | some defs =>
        match BarterModel.Index.build defs with
        | some ii => ({ s with ii := some ii }, [])
        | none => (s, [])
      | none => (s, ["bad-op"])
    | "gen" :: ts =>
      match s.ii, ts.mapM parseKind with
      | some ii, some kinds => (s, genLines (specGenerate ii kinds))
      | _, _ => (s, ["bad-op"])
    | "index" :: ts =>
      match s.ii, (if ts.isEmpty then some [] else (splitBar ts).mapM (fun b => b.mapM parseIdxSub)) with
      | some ii, some batches =>
        if batches.all (fun b => b.all (specIndexable ii)) then (s, ["res ok", "nb " ++ toString batches.length])
        else (s, ["res err"])
      | _, _ => (s, ["bad-op"])
    | ["ds", t, l1, l2, lq] =>
      match parseList t, parseList l1, parseList l2, parseList lq with
      | some t, some l1, some l2, some lq =>
        let s' := { s with dsInit := ⟨t, l1, l2, lq⟩, dsHist := [] }
        (s', specFam s')
      | _, _, _, _ => (s, ["bad-op"])
    | ["sel", f, e] =>
      match parseFam f, parseEx e with
      | some f, some e =>
        let was := present s f e
        let s' := { s with dsHist := s.dsHist ++ [.select f e] }
        (s', (if was then "r some " ++ toString e.toNat else "r none") :: specFam s')
      | _, _ => (s, ["bad-op"])
    | ["selall", f] =>
      match parseFam f with
      | some f =>
        let got := (s.dsInit.get f).eraseDups.filter (present s f)
        let s' := { s with dsHist := s.dsHist ++ [.selectAll f] }
        (s', ("r " ++ exs got) :: specFam s')
      | none => (s, ["bad-op"])
    | ["all"] =>
      let got := Chan.all.flatMap fun f => (s.dsInit.get f).eraseDups.filter (present s f)
      let s' := { s with dsHist := s.dsHist ++ [.everything] }
      (s', ("r " ++ exs got) :: specFam s')
    | ["sb", k] =>
      match parseKind k with
      | some k =>
        if (route k).isSome then ({ s with sb := some { kind := k } }, builderObs [] 0) else (s, ["bad-op"])
      | none => (s, ["bad-op"])
    | "sub" :: c :: ts =>
      match s.sb, parseConn c, ts.mapM parseInst with
      | some b, some c, some insts =>
        if IKC.all.any fun ik => specSupports (connId c) ik b.kind then
          let b' := b.subscribe c insts
          -- "actioned on a distinct WebSocket connection": one more future; the exchange owns a channel
          ({ s with sb := some b' },
            ["chans " ++ exs ((b'.futures.map fun f => connId f.1).eraseDups), "futs " ++ toString b'.futures.length])
        else (s, ["nosel"])
      | _, _, _ => (s, ["bad-op"])
    | ["sbinit"] =>
      match s.sb with
      | some b =>
        ({ s with sb := none }, specPollLines ((b.futures.map fun f => connId f.1).eraseDups) (specBuilder b))
      | none => (s, ["bad-op"])
    | ["mb"] => ({ s with multi := some {} }, builderObs [] 0)
    | ["madd"] =>
      match s.multi, s.sb with
      | some m, some b =>
        let m' := m.add b
        ({ s with multi := some m', sb := none },
          ["chans " ++ exs ((m'.futures.flatMap fun b => b.futures.map fun f => connId f.1).eraseDups),
           "futs " ++ toString m'.futures.length])
      | _, _ => (s, ["bad-op"])
    | ["minit"] =>
      match s.multi with
      | some m =>
        ({ s with multi := none },
          specPollLines ((m.futures.flatMap fun b => b.futures.map fun f => connId f.1).eraseDups)
            (specJoin (m.futures.map specBuilder)))
      | none => (s, ["bad-op"])
    | "map" :: ts =>
      match ts.mapM (fun t => match t.splitOn "=" with
          | [k, v] => v.toNat?.map fun v => (k.toList, v)
          | _ => none) with
      | some kvs =>
        ({ s with map := kvs, mapHist := [] }, ["size " ++ toString ((kvs.map (·.1)).eraseDups.length)])
      | none => (s, ["bad-op"])
    | ["find", k] =>
      -- the value bound last: by a later `find_mut` assignment, else by the last pair of `from_iter`
      match (s.map ++ s.mapHist).reverse.find? (fun kv => kv.1 == k.toList) with
      | some kv => (s, ["r some " ++ toString kv.2])
      | none => (s, ["r err consumed unidentifiable message: " ++ k])
    | ["findmut", k, v] =>
      match v.toNat? with
      | some v =>
        let n := (s.map.map (·.1)).eraseDups.length
        if s.map.any (fun kv => kv.1 == k.toList) then
          ({ s with mapHist := s.mapHist ++ [(k.toList, v)] }, ["r ok", "size " ++ toString n])
        else (s, ["r err consumed unidentifiable message: " ++ k, "size " ++ toString n])
      | none => (s, ["bad-op"])
    | _ => (s, ["bad-op"])

end BarterModel.Driver.C13V

def main (args : List String) : IO UInt32 :=
  BarterModel.Driver.runMain BarterModel.Driver.C13V.model BarterModel.Driver.C13V.spec args
