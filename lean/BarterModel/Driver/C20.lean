import BarterModel.Driver.Common
import BarterModel.Model.Backtest
/-! Line-protocol driver for C20.
Ops: `data_slow g k ...` (same as `data`, paced source), `data k (i:p[:K][@t] | R) ...` (`R` = `MarketStreamEvent::Reconnecting` marker, anywhere; `K` = kind of the Item, every `DataKind`;
an EMPTY dataset is legal input: `MarketDataInMemory::new` panics on it as on a marker-only one, `run` prints `panic`), `strat t:i:s:q ...` | `strat -`, `run n w`,
`longdata n k rp ro pm tm` (a LONG dataset given by the formula `Backtest.genEv`; `run` then prints the digests `lseen` / `linst` / `lreqs`),
`tracked t x` (before the dataset op: its last `t` instruments live on `x` exchanges U1..Ux WITHOUT execution link; markers
then name their exchange - `R` traded, `R1` / `R2` - and a marker `MktEv` carries that number in its `inst` field; a plan
that trades a tracked instrument is `bad-op`; the execution side is `linkedExchange cExchange` (requests for tracked
instruments are never answered); `t = k` = empty `executions`. The market side of model and spec does not look at the
links at all: `market_view_independent_of_execution_links`),
`cfg x o r u` (after `tracked`, before the dataset op: SET-UP SHAPE - `x` traded exchanges with a mock link each, `executions`
listed in order / reversed, per-backtest risk-free returns and repeated ids, one shared `Arc` of constant arguments, single runs
through `run_backtests`; validated (`cfgOk`, `x <= k - t`) and echoed, otherwise without effect on model and spec: see `cfgOk`).

`model` runs every strategy parameterisation alone with `run` under a lazy and an eager action list
(`schedActs`); for small systems it also builds the N machines, interleaves their action lists
round-robin into one global schedule, executes it with `sysRun` (the function of the isolation
theorem) and checks that every machine ended as it does alone (`bad-state isolation` otherwise). `seen` / `inst` / `reqs` are read off the final states
(schedule independent by `market_view_schedule_independent` + `concrete_market_view`); `own` checks
`eng = engFold processed` on the final state; `alone` is `1` when the two extreme schedules give the
same account-side summary and the non-deterministic token `{0|1}` when they do not (the real result
then depends on how tokio interleaves the execution responses with `Shutdown`).

Long datasets (`longdata`): `model` folds the digesting engine `lEngine` over the generated dataset
(`marketFold`: by `long_digest_schedule_independent` that is the digest under EVERY schedule that ends
with `Shutdown`, and by `long_digest_refines_recording` it is the digest of what `cEngine` records);
`alone` is `1` when the account view after every execution response (the eager extreme) equals the
initial one (the lazy extreme), `{0|1}` otherwise. `spec` states the digest from the op alone: `n`
stream events, `order=ok`, no repeats, nothing skipped, last position `n-1`, content hash / per
instrument figures folded over the formula, and the requests in closed form (`specReqs`).

`spec` is written from the property text only: every backtest sees exactly the dataset in order,
markers included (per instrument: the sub-sequence of that instrument's Items), its summary is its own engine's, and it is
the same as when run alone. -/
namespace BarterModel.Driver.C20
open BarterModel.Driver BarterModel.Backtest

/-- final states of one strategy parameterisation under the two extreme schedules -/
structure PlanRes where
  lazyS : BT CEng CExch MktEv AccEv
  eagerS : BT CEng CExch MktEv AccEv

/-- one strategy parameterisation over a long dataset: final digesting engine (any schedule that ends
with `Shutdown`), and whether the account view is the same at both scheduling extremes -/
structure LRes where
  fin : LEng
  det : Bool

structure St where
  k : Nat
  ds : List MktEv
  plans : List (List PlanItem)
  /-- per-plan results, computed at the first `run` of a case (they do not depend on `n`, `w`) -/
  cache : Option (List PlanRes) := none
  /-- `longdata`: the dataset is `genData p`, observations are digests -/
  lp : Option LParams := none
  lcache : Option (List LRes) := none
  /-- `tracked t x`: the last `t` instruments live on `x` exchanges without execution link (`(0, 0)`: none) -/
  tr : Nat × Nat := (0, 0)
  /-- `cfg x o r u`: number of TRADED exchanges the `k - t` traded instruments are spread over (`0`: no `cfg` op) -/
  cx : Nat := 0

/-- `cfg x o r u` is well formed: 1-3 traded exchanges, `executions` in order / reversed, risk-free returns and ids
(0 / per backtest / per backtest + repeated ids), sharing of the constant arguments (bit 0) and single runs through
`run_backtests` (bit 1). None of it is an input of the model's market forwarder, engine feed or shutdown sender: which
execution links exist and in which order they were listed (`market_view_independent_of_execution_links`), how the summary
is parameterised (`summary_own_engine`: a function of the backtest's own engine) and what `Arc` the read-only arguments
sit in (assumed: nothing mutable is shared) change no observation. The op is validated and echoed. -/
def cfgOk : List String → Option Nat
  | [x, o, r, u] =>
    match x.toNat?, o.toNat?, r.toNat?, u.toNat? with
    | some x, some o, some r, some u => if 1 ≤ x ∧ x ≤ 3 ∧ o ≤ 1 ∧ r ≤ 2 ∧ u ≤ 3 then some x else none
    | _, _, _, _ => none
  | _ => none

/-- `acct b 1` (printed after `cfg`): every account event the engine processed comes from its own execution side - the
initial snapshot of a configured traded exchange, a fill of one of its own requests, no failed order for an affordable
request. `drained_account_events_partial`: account events come only from the backtest's own execution side, whatever the
schedule; WHICH of them are processed before `Shutdown` is the known finding and not asked here. -/
def acctLine (cx b : Nat) : List String := if cx == 0 then [] else [s!"acct {b} 1"]

def parseEvents (k : Nat) (tr : Nat × Nat) (toks : List String) : Option (List MktEv) :=
  -- a marker names an exchange of the dataset: `R` the traded one (it needs an instrument: t < k, or no `tracked`
  -- at all), `R1` / `R2` the tracked-only exchanges U1 / U2 (needs x >= 1 / 2); its number goes into `inst`
  let marker (e : Nat) : Bool := if e == 0 then !(tr.1 == k && k > 0) else e ≤ tr.2
  let rec go (pos : Nat) : List String → Option (List MktEv)
    | [] => some []
    | "R" :: ts => if marker 0 then (go (pos + 1) ts).map (fun l => MktEv.reconnecting pos :: l) else none
    | "R1" :: ts => if marker 1 then (go (pos + 1) ts).map (fun l => ⟨pos, 1, 0, true⟩ :: l) else none
    | "R2" :: ts => if marker 2 then (go (pos + 1) ts).map (fun l => ⟨pos, 2, 0, true⟩ :: l) else none
    | t :: ts =>
      -- `i:p@t`: an explicit exchange time; the dataset order, not the time, is what the property is about
      -- `i:p:K`: the kind of the Item (`s` sell trade, `z` trade of amount 0, `l` L1, `b` / `u` order book snapshot /
      -- update, `c` candle, `q` liquidation): whatever its kind, an Item is one dataset element with an instrument and a price
      let item (i p : String) : Option (List MktEv) :=
        match i.toNat?, p.toNat? with
        | some i, some p =>
          if i < k then (go (pos + 1) ts).map (fun l => MktEv.trade pos i p :: l) else none
        | _, _ => none
      match ((t.splitOn "@").headD t).splitOn ":" with
      | [i, p] => item i p
      | [i, p, kd] => if ["t", "s", "z", "l", "b", "u", "c", "q"].contains kd then item i p else none
      | _ => none
  go 0 toks

def parseItem (k : Nat) (t : String) : Option PlanItem :=
  match t.splitOn ":" with
  | [tr, i, s, q] =>
    match tr.toNat?, i.toNat?, q.toNat? with
    | some tr, some i, some q =>
      if i < k then
        match s with
        | "B" => some ⟨tr, i, .buy, q⟩
        | "S" => some ⟨tr, i, .sell, q⟩
        | _ => none
      else none
    | _, _, _ => none
  | _ => none

/-- stable insertion sort by trigger (the harness uses `sort_by_key`, stable) -/
def insertItem (x : PlanItem) : List PlanItem → List PlanItem
  | [] => [x]
  | y :: ys => if x.trigger < y.trigger then x :: y :: ys else y :: insertItem x ys

def sortPlan (l : List PlanItem) : List PlanItem := l.foldl (fun acc x => insertItem x acc) []

def parsePlan (k : Nat) (toks : List String) : Option (List PlanItem) :=
  match toks with
  | ["-"] => some []
  | [] => none
  | _ => (toks.mapM (parseItem k)).map sortPlan

/-- `data_slow g k e...` is `data k e...` served by a data source that waits `g` ms of tokio time
before every event. How fast the source delivers is a scheduling matter (when `fwdMarket` is
taken); the theorems hold for every schedule, so model and spec treat it exactly like `data`. -/
def unpace : List String → Option (List String)
  | "data_slow" :: g :: rest => if g.toNat?.isSome then some ("data" :: rest) else none
  | toks => some toks

def ids (l : List Nat) : String := " ".intercalate (l.map toString)

/-- market stream as observed: item ids, `R` for a disconnect notice -/
def seenStr (l : List (Option Nat)) : String :=
  " ".intercalate (l.map fun | some i => toString i | none => "R")

/-- one dataset element as the harness's recorder prints it: the id of an Item; `R` / `R1` / `R2` for a
disconnect notice of the traded exchange / of U1 / U2 (the number a marker carries in `inst`) -/
def evTok (m : MktEv) : String :=
  if m.marker then (if m.inst == 0 then "R" else s!"R{m.inst}") else toString m.id

def evsStr (l : List MktEv) : String := " ".intercalate (l.map evTok)

/-- `tracked t x` is well formed -/
def trackedOk (t x : Nat) : Bool := decide (1 ≤ t) && decide (1 ≤ x) && decide (x ≤ t) && decide (x ≤ 2)

/-- The execution side of a case: links for the traded instruments only (`tracked`). -/
def xOf (k : Nat) (tr : Nat × Nat) : Exchange CExch Req AccEv :=
  linkedExchange cExchange (fun r => decide (r.item.inst < k - tr.1))

/-- `MarketDataInMemory::new` (market_data.rs:62-70) panics on a dataset without any `Item`. -/
def hasItem (ds : List MktEv) : Bool := ds.any (fun m => !m.marker)

def sideStr : Side → String
  | .buy => "B"
  | .sell => "S"

def reqStr (r : Req) : String :=
  s!"{r.item.trigger}:{r.item.inst}:{sideStr r.item.side}:{r.item.qty}@{r.price}"

def line (parts : List String) : String := " ".intercalate (parts.filter (· ≠ ""))

def fuelFor (s : St) : Nat := 8 * (s.ds.length + 4) + 40

/-- One backtest alone: action lists from the two policies, final states by `run`. -/
def planRes (s : St) (plan : List PlanItem) : PlanRes :=
  let fuel := fuelFor s
  let st := cInit s.k plan s.ds
  let X := xOf s.k s.tr
  { lazyS := run cEngine X st (schedActs cEngine X pickLazy fuel st),
    eagerS := run cEngine X st (schedActs cEngine X pickEager fuel st) }

/-- N concurrent backtests as one system under a round-robin global schedule (`sysRun`); by
`isolation` each machine must end as it does alone. Executed when the system is small enough to keep
the driver fast (N * dataset length <= 4000); returns `false` if some machine differs from its
alone run. -/
def sysAgrees (s : St) (n : Nat) (res : List PlanRes) : Bool :=
  if n * s.ds.length > 4000 then true else
  let fuel := fuelFor s
  let plan (b : Nat) : List PlanItem := s.plans.getD (b % s.plans.length) []
  let inits : List (BT CEng CExch MktEv AccEv) := (List.range n).map fun b => cInit s.k (plan b) s.ds
  let X := xOf s.k s.tr
  let lazyActs := inits.map fun st => schedActs cEngine X pickLazy fuel st
  let eagerActs := inits.map fun st => schedActs cEngine X pickEager fuel st
  -- machine b runs lazily when b is even, eagerly when odd: a mixed global schedule
  let mixed := (List.range n).map fun b => if b % 2 == 0 then lazyActs.getD b [] else eagerActs.getD b []
  let sys := sysRun cEngine X inits (interleave fuel mixed)
  (List.range n).all fun b =>
    match sys[b]?, res[b % s.plans.length]? with
    | some m, some r =>
      let alone := if b % 2 == 0 then r.lazyS else r.eagerS
      m.eng == alone.eng && m.processed == alone.processed && m.stopped == alone.stopped
        && m.exch == alone.exch
    | _, _ => false

def runModel (s : St) (n : Nat) (res : List PlanRes) : List String :=
  if !sysAgrees s n res then ["bad-state isolation"] else
  (List.range n).flatMap fun b =>
    let pi := b % s.plans.length
    match res[pi]? with
    | some r =>
      let l := r.lazyS
      let e := r.eagerS
      let e0 := cEng0 s.k (s.plans.getD pi [])
      let own := l.eng == engFold cEngine e0 l.processed
        && e.eng == engFold cEngine e0 e.processed
        && l.stopped == some .shutdown && e.stopped == some .shutdown
      let det := cSummarise l.eng == cSummarise e.eng
      -- what the engine task processed (`processed`), which is what its recorder holds (`mv.seen`); the markers'
      -- exchanges are read off the processed events
      let tok (m : MktEv) : Option Nat := if m.marker then none else some m.id
      if l.eng.mv.seen != (marketOf l.processed).map tok || marketOf e.processed != marketOf l.processed then
        ["bad-state recorder"] else
      [ line ["seen", toString b, evsStr (marketOf l.processed)] ] ++
      ((List.range s.k).map fun j => line ["inst", toString b, toString j, ids (l.eng.mv.instSeen.getD j [])]) ++
      [ line ["reqs", toString b, " ".intercalate (l.eng.mv.reqs.map reqStr)],
        line ["own", toString b, fmtBool own] ] ++ acctLine s.cx b ++
      [ line ["alone", toString b, if det then "1" else "{0|1}"] ]
    | none => ["bad-state"]


/-! ### long datasets -/

def parseLong : List String → Option LParams
  | [n, k, rp, ro, pm, tm] =>
    match n.toNat?, k.toNat?, rp.toNat?, ro.toNat?, pm.toNat?, tm.toNat? with
    | some n, some k, some rp, some ro, some pm, some tm =>
      if 1 ≤ n ∧ 1 ≤ k ∧ 1 ≤ pm ∧ (rp = 0 ∨ ro < rp) then some ⟨n, k, rp, ro, pm, tm⟩ else none
    | _, _, _, _, _, _ => none
  | _ => none

def longHasItem (p : LParams) : Bool := (List.range p.n).any fun pos => !p.isMarker pos

def kv (k : String) (v : String) : String := k ++ "=" ++ v

def optStr : Option Nat → String
  | some x => toString x
  | none => "none"

/-- One backtest over the long dataset. Market side: `marketFold` of the digesting engine (schedule
independent). Account side: lazy extreme = nothing processed = initial view; eager extreme = the
initial snapshot and every response of the exchange to the requests, in order. -/
def longRes (p : LParams) (plan : List PlanItem) : LRes :=
  let e0 := lEng0 p plan
  let fin := marketFold lEngine e0 (genData p)
  let resp := (respondAll cExchange { k := p.k, bal := initBals p.k } fin.mv.reqs).2
  let eager := (AccEv.snapshot (initBals p.k) :: resp).foldl AView.onAccount e0.av
  { fin := fin, det := eager == e0.av }

/-- `longdata` after `tracked t x`: the marker at `pos` names exchange `E[(pos / rp) mod |E|]`,
`E = [traded (if t < k), U1 .. Ux]` (numbers 0, 1 .. x). -/
def longMarkerExch (p : LParams) (tr : Nat × Nat) (pos : Nat) : Nat :=
  let first := if tr.1 < p.k then 0 else 1
  first + (pos / p.rp) % (tr.2 + 1 - first)

/-- `lmark b c0 .. cx`: disconnect notices per exchange. `consumes_all_before_shutdown`: the events a cleanly
shut down engine processed are exactly the dataset, so these are the dataset's counts (the digesting engine
itself only counts markers, `R=`). Printed only after `tracked`. -/
def lmarkLine (p : LParams) (tr : Nat × Nat) (b : Nat) : List String :=
  if tr.1 == 0 then [] else
  let marks := (List.range p.n).filter p.isMarker
  [ line (["lmark", toString b] ++ (List.range (tr.2 + 1)).map fun e =>
      toString (marks.filter fun pos => longMarkerExch p tr pos == e).length) ]

def seenLine (b : Nat) (n : Nat) (d : SeqDig) (h : Nat) : String :=
  line ["lseen", toString b, kv "n" (toString d.cnt), kv "items" (toString d.items), kv "R" (toString d.markers),
        kv "order" (match d.firstBad with
          | some i => toString i
          | none => if d.cnt < n then toString d.cnt else "ok"),
        kv "dups" (toString d.dups), kv "skipped" (toString (d.skipped + (n - d.expect))),
        kv "last" (if d.expect == 0 then "-" else toString (d.expect - 1)), kv "h" (toString h)]

def runLongModel (s : St) (p : LParams) (n : Nat) (res : List LRes) : List String :=
  (List.range n).flatMap fun b =>
    match res[b % s.plans.length]? with
    | some r =>
      [ seenLine b p.n r.fin.dg.seq r.fin.dg.hash ] ++
      ((List.range p.k).map fun j =>
        let d := r.fin.dg.inst.getD j (0, 0)
        line ["linst", toString b, toString j, kv "n" (toString d.1), kv "h" (toString d.2),
              kv "px" (optStr ((r.fin.mv.price[j]?).join))]) ++
      [ line ["lreqs", toString b, " ".intercalate (r.fin.mv.reqs.map reqStr)] ] ++ lmarkLine p s.tr b ++
      [ -- `summary_own_engine` holds for every engine and schedule
        line ["own", toString b, "1"] ] ++ acctLine s.cx b ++
      [ line ["alone", toString b, if r.det then "1" else "{0|1}"] ]
    | none => ["bad-state"]

/-- The requests of the plan strategy over the dataset of `p`, in closed form: item `j` (plan sorted by
trigger) is sent after the `c_j`-th Item, `c_j = max(trigger_j, c_(j-1), first Item of its instrument)`,
at the price of the last Item of its instrument among the first `c_j` Items; an item that can never be
sent blocks the ones behind it. -/
def specReqs (p : LParams) (plan : List PlanItem) : List Req :=
  let itemPos : Array Nat := ((List.range p.n).filter fun pos => !p.isMarker pos).toArray
  let instOf (pos : Nat) : Nat := (genEv p pos).ev.inst
  let firstCount (i : Nat) : Option Nat := (itemPos.findIdx? fun pos => instOf pos == i).map (· + 1)
  let priceAt (i c : Nat) : Option Nat :=
    (((itemPos.extract 0 c).toList.reverse.find? fun pos => instOf pos == i)).map fun pos => (genEv p pos).ev.price
  let rec go (idx cPrev : Nat) : List PlanItem → List Req
    | [] => []
    | it :: rest =>
      match firstCount it.inst with
      | none => []
      | some fc =>
        let c := max (max it.trigger cPrev) fc
        if c > itemPos.size then [] else
        match priceAt it.inst c with
        | some px => ⟨idx, it, px⟩ :: go (idx + 1) c rest
        | none => []
  go 0 0 plan

/-- The property text over the dataset of `p`, as digests: every backtest processed exactly the `n`
dataset elements, in order (`order=ok`), none twice, none skipped, the last one being position `n-1`;
content hash, per-instrument figures and the strategy's requests are those of the dataset. -/
def runLongSpec (s : St) (p : LParams) (n : Nat) : List String :=
  let pos := List.range p.n
  let items := (pos.filter fun x => !p.isMarker x).length
  let h := pos.foldl (fun h x => mixEv h (genEv p x)) 0
  let instLines (b : Nat) := (List.range p.k).map fun j =>
    let mine := pos.filter fun x => !p.isMarker x && (genEv p x).ev.inst == j
    line ["linst", toString b, toString j, kv "n" (toString mine.length),
          kv "h" (toString (mine.foldl mix 0)), kv "px" (optStr (mine.getLast?.map fun x => (genEv p x).ev.price))]
  let reqs := s.plans.map (specReqs p)
  (List.range n).flatMap fun b =>
    [ line ["lseen", toString b, kv "n" (toString p.n), kv "items" (toString items), kv "R" (toString (p.n - items)),
            kv "order" "ok", kv "dups" "0", kv "skipped" "0", kv "last" (toString (p.n - 1)), kv "h" (toString h)] ] ++
    instLines b ++
    [ line ["lreqs", toString b, " ".intercalate ((reqs.getD (b % s.plans.length) []).map reqStr)] ] ++
    lmarkLine p s.tr b ++
    [ line ["own", toString b, "1"] ] ++ acctLine s.cx b ++ [ line ["alone", toString b, "1"] ]

def model : Drv St where
  init := { k := 0, ds := [], plans := [] }
  step s toks :=
    match unpace toks with
    | none => (s, ["bad-op"])
    | some toks =>
    match toks with
    | ["tracked", t, x] =>
      match t.toNat?, x.toNat? with
      | some t, some x =>
        if trackedOk t x then ({ k := 0, ds := [], plans := [], tr := (t, x) }, [s!"tracked {t} {x}"])
        else ({ k := 0, ds := [], plans := [] }, ["bad-op"])
      | _, _ => ({ k := 0, ds := [], plans := [] }, ["bad-op"])
    | "cfg" :: args =>
      match cfgOk args with
      | some x => ({ k := 0, ds := [], plans := [], tr := s.tr, cx := x }, [" ".intercalate ("cfg" :: args.map fun a => toString a.toNat!)])
      | none => ({ k := 0, ds := [], plans := [], tr := s.tr }, ["bad-op"])
    | "data" :: k :: evs =>
      match k.toNat? with
      | some k =>
        if s.tr.1 > k || s.cx > k - s.tr.1 then ({ k := 0, ds := [], plans := [], tr := s.tr, cx := s.cx }, ["bad-op"]) else
        match parseEvents k s.tr evs with
        | some ds => ({ k := k, ds := ds, plans := [], tr := s.tr, cx := s.cx }, [s!"data {k} {ds.length}"])
        | none => ({ k := 0, ds := [], plans := [], tr := s.tr, cx := s.cx }, ["bad-op"])
      | none => (s, ["bad-op"])
    | "longdata" :: args =>
      match parseLong args with
      | some p =>
        if s.tr.1 > p.k || s.cx > p.k - s.tr.1 then ({ k := 0, ds := [], plans := [], tr := s.tr, cx := s.cx }, ["bad-op"]) else
        ({ k := p.k, ds := [], plans := [], lp := some p, tr := s.tr, cx := s.cx }, [s!"longdata {p.k} {p.n}"])
      | none => (s, ["bad-op"])
    | "strat" :: items =>
      -- a plan may only trade instruments of the traded exchange
      match parsePlan (s.k - s.tr.1) items with
      | some p => ({ s with plans := s.plans ++ [p], cache := none, lcache := none }, [s!"strat {s.plans.length}"])
      | none => (s, ["bad-op"])
    | ["run", n, w] =>
      match n.toNat?, w.toNat? with
      | some n, some _ =>
        if let some p := s.lp then
          if s.plans.isEmpty then (s, ["bad-op"]) else
          if !longHasItem p then (s, ["panic"]) else
          let res := match s.lcache with
            | some r => r
            | none => s.plans.map (longRes p)
          ({ s with lcache := some res }, runLongModel s p n res)
        else
        if s.plans.isEmpty then (s, ["bad-op"]) else
        if !hasItem s.ds then (s, ["panic"]) else
        let res := match s.cache with
          | some r => r
          | none => s.plans.map (planRes s)
        ({ s with cache := some res }, runModel s n res)
      | _, _ => (s, ["bad-op"])
    | ["sweep", n, w] =>
      -- a large sweep, observed in aggregate: by `isolation` every machine ends as it does alone, so
      -- the n results are those of the plans' alone runs, one per request, in request order
      match n.toNat?, w.toNat? with
      | some n, some _ =>
        if s.plans.isEmpty || !hasItem s.ds then (s, ["bad-op"]) else
        let res := match s.cache with
          | some r => r
          | none => s.plans.map (planRes s)
        let whole := s.ds.map fun m => if m.marker then none else some m.id
        let allSeen := res.all fun r => r.lazyS.eng.mv.seen == whole && r.eagerS.eng.mv.seen == whole
        ({ s with cache := some res },
          [ s!"sweep_n {n}", "sweep_ids 1", "sweep_seen " ++ fmtBool allSeen ])
      | _, _ => (s, ["bad-op"])
    | _ => (s, ["bad-op"])

/-- The property text, as observations: for each of the `n` backtests. -/
def runSpec (s : St) (n : Nat) : List String :=
  (List.range n).flatMap fun b =>
    [ line ["seen", toString b, evsStr s.ds] ] ++
    ((List.range s.k).map fun j =>
      line ["inst", toString b, toString j, ids ((s.ds.filter (fun m => !m.marker && m.inst == j)).map (·.id))]) ++
    [ line ["own", toString b, "1"] ] ++ acctLine s.cx b ++ [ line ["alone", toString b, "1"] ]

def spec : Drv St where
  init := { k := 0, ds := [], plans := [] }
  step s toks :=
    match unpace toks with
    | none => (s, ["bad-op"])
    | some toks =>
    match toks with
    | ["tracked", t, x] =>
      match t.toNat?, x.toNat? with
      | some t, some x =>
        if trackedOk t x then ({ k := 0, ds := [], plans := [], tr := (t, x) }, [])
        else ({ k := 0, ds := [], plans := [] }, ["bad-op"])
      | _, _ => ({ k := 0, ds := [], plans := [] }, ["bad-op"])
    | "cfg" :: args =>
      match cfgOk args with
      | some x => ({ k := 0, ds := [], plans := [], tr := s.tr, cx := x }, [])
      | none => ({ k := 0, ds := [], plans := [], tr := s.tr }, ["bad-op"])
    | "data" :: k :: evs =>
      match k.toNat? with
      | some k =>
        if s.tr.1 > k || s.cx > k - s.tr.1 then ({ k := 0, ds := [], plans := [], tr := s.tr, cx := s.cx }, ["bad-op"]) else
        match parseEvents k s.tr evs with
        | some ds => ({ k := k, ds := ds, plans := [], tr := s.tr, cx := s.cx }, [])
        | none => ({ k := 0, ds := [], plans := [], tr := s.tr, cx := s.cx }, ["bad-op"])
      | none => (s, ["bad-op"])
    | "longdata" :: args =>
      match parseLong args with
      | some p =>
        if s.tr.1 > p.k || s.cx > p.k - s.tr.1 then ({ k := 0, ds := [], plans := [], tr := s.tr, cx := s.cx }, ["bad-op"]) else
        ({ k := p.k, ds := [], plans := [], lp := some p, tr := s.tr, cx := s.cx }, [])
      | none => (s, ["bad-op"])
    | "strat" :: items =>
      match parsePlan (s.k - s.tr.1) items with
      | some p => ({ s with plans := s.plans ++ [p] }, [])
      | none => (s, ["bad-op"])
    | ["run", n, w] =>
      match n.toNat?, w.toNat? with
      | some n, some _ =>
        if let some p := s.lp then
          if s.plans.isEmpty then (s, ["bad-op"])
          else if !longHasItem p then (s, ["panic"])
          else (s, runLongSpec s p n)
        else
        if s.plans.isEmpty then (s, ["bad-op"])
        else if !hasItem s.ds then (s, ["panic"])  -- documented precondition: at least one Item
        else (s, runSpec s n)
      | _, _ => (s, ["bad-op"])
    | ["sweep", n, w] =>
      -- the property ranges over any number of concurrent backtests: each request gets its own
      -- summary (one per request, in request order) and consumes the whole dataset
      match n.toNat?, w.toNat? with
      | some n, some _ =>
        if s.plans.isEmpty || !hasItem s.ds then (s, ["bad-op"])
        else (s, [ s!"sweep_n {n}", "sweep_ids 1", "sweep_seen 1" ])
      | _, _ => (s, ["bad-op"])
    | _ => (s, ["bad-op"])

end BarterModel.Driver.C20

def main (args : List String) : IO UInt32 :=
  BarterModel.Driver.runMain BarterModel.Driver.C20.model BarterModel.Driver.C20.spec args
