import BarterModel.Driver.Common
import BarterModel.Model.L2Pipeline
/-!
Line-protocol driver for C06E (end-to-end Binance L2 pipeline).

Ops
* `init spot|fut n m`                   rule set; `n` subscribed instruments (subscription id = key = `0..n-1`);
                                        the manager's `OrderBookMapMulti` holds default books for keys `0..m-1`
* `venue k id:b|a:price:amount …`       ground truth of instrument `k` (used by `spec` only)
* `snap k s | p:a … | p:a …`            REST snapshot of instrument `k` for the connection being prepared
* `snapu k s | … | …`                   an `OrderBookEvent::Update` among the initial events (makes `init` fail)
* `buf <frame>`                         a websocket message buffered during subscription validation
* `open`                                one more invocation of the `init` closure with the prepared snapshots / buffer
* `f <frame>`                           one more frame on the socket of the last connection
* `eos`                                 the socket of the last connection ends
* frames: `upd sym U u pu | p:a … | p:a …` (text), `bin sym U u pu | … | …` (binary), `bad i` (undeserialisable
  text), `binbad i` (undeserialisable Binary payload; `i % 9 = 8`: bytes that are not UTF-8), `ping`, `pong`, `raw`, `close`, `err kind`

* `depth k n`                           the REST snapshots of instrument `k` hold the best `n` levels per side only (the code's
                                        fetchers request `limit=100`): from then on every observation also carries, after the
                                        `book` lines, one line `lv<k>:<b|a>:<price> <amount>` per price of `venue k` (per side,
                                        ascending) = the managed book's amount at that price (0: no level); `spec` states
                                        them at exactly the prices the snapshot covers, an admitted update wrote or the venue
                                        changed since the snapshot id (`Props.C06E.pipeline_book_is_truth_on`)

The `book` / `lv` lines of `model` are the manager's cells run with `upsert_single`'s real binary search
(`Result.booksBS`, C05M's `upsertBS`); they are the pipeline model's `books` whenever every snapshot side is
strictly ordered (`Props.C06E.books_follow_the_code_search`).

After `open`, `f`, `eos` the WHOLE pipeline is run from scratch on the input so far; observations:
`fin …`, the new `ev …` (stream events the manager received) and `he …` (handler calls) since the previous
observation, the totals `notices n` / `nerr n`, and `book<k> seq | bids | asks` for every managed book.
-/
namespace BarterModel.Driver.C06E
open BarterModel.Driver BarterModel.Book BarterModel.BinanceL2 BarterModel.ExStream BarterModel.L2Pipeline

def fmtLevels (ls : List Level) : String :=
  " ".intercalate (ls.map fun l => fmtRat l.price ++ ":" ++ fmtRat l.amount)

def fmtBook (b : OrderBook) : String :=
  toString b.sequence ++ " " ++ fmtLevels b.bids ++ " | " ++ fmtLevels b.asks

def parseLevel? (s : String) : Option Level :=
  match s.splitOn ":" with
  | [p, a] =>
    match parseRat? p, parseRat? a with
    | some p, some a => some ⟨p, a⟩
    | _, _ => none
  | _ => none

def parseLevels? : List String → Option (List Level)
  | [] => some []
  | t :: ts =>
    match parseLevel? t, parseLevels? ts with
    | some l, some ls => some (l :: ls)
    | _, _ => none

/-- `| bids | asks` -/
def parseSides? (toks : List String) : Option (List Level × List Level) :=
  match toks with
  | "|" :: rest =>
    let bidToks := rest.takeWhile (· != "|")
    match rest.dropWhile (· != "|") with
    | "|" :: askToks =>
      match parseLevels? bidToks, parseLevels? askToks with
      | some b, some a => some (b, a)
      | _, _ => none
    | _ => none
  | _ => none

def parseRules? : String → Option Rules
  | "spot" => some .spot
  | "fut" => some .futures
  | _ => none

def parseChange? (s : String) : Option Change :=
  match s.splitOn ":" with
  | [i, sd, p, a] =>
    let side? : Option Side := if sd == "b" then some .bids else if sd == "a" then some .asks else none
    match i.toNat?, side?, parseRat? p, parseRat? a with
    | some i, some sd, some p, some a => some ⟨i, sd, p, a⟩
    | _, _, _, _ => none
  | _ => none

def parseChanges? : List String → Option (List Change)
  | [] => some []
  | t :: ts =>
    match parseChange? t, parseChanges? ts with
    | some c, some cs => some (c :: cs)
    | _, _ => none

def parseMsg? : List String → Option Update
  | sym :: bU :: u :: pu :: rest =>
    match sym.toNat?, bU.toNat?, u.toNat?, pu.toNat?, parseSides? rest with
    | some sym, some bU, some u, some pu, some (b, a) => some ⟨sym, bU, u, pu, b, a⟩
    | _, _, _, _, _ => none
  | _ => none

/-- `k s | bids | asks` -/
def parseSnap? : List String → Option (Nat × OrderBook)
  | k :: s :: rest =>
    match k.toNat?, s.toNat?, parseSides? rest with
    | some k, some s, some (b, a) => some (k, OrderBook.new s b a)
    | _, _, _ => none
  | _ => none

/-- The deserialiser of the driver: a payload is the op's own tokens (`upd sym U u pu | … | …`); anything
else does not deserialise. (Glue: the harness sends the corresponding JSON through the real serde type.) -/
def deText (t : String) : Option Update :=
  match tokens t with
  | "upd" :: rest => parseMsg? rest
  | _ => none

def driverDe : De Update where
  text := deText
  binary := fun bs =>
    match utf8Decode bs with
    | .ok cs => deText (String.ofList cs)
    | .err _ _ => none

def parseWsError? : String → Option WsError
  | "closed" => some .connectionClosed
  | "already" => some .alreadyClosed
  | "io" => some .io
  | "proto_reset" => some (.protocol .resetWithoutClosingHandshake)
  | "utf8" => some .utf8
  | "capacity" => some .capacity
  | _ => none

/-- a frame op (without the leading `f` / `buf`) -/
def parseFrame? : List String → Option Frame
  | "upd" :: rest =>
    match parseMsg? rest with
    | some _ => some (.ok (.text (" ".intercalate ("upd" :: rest))))
    | none => none
  | "bin" :: rest =>
    match parseMsg? rest with
    | some _ => some (.ok (.binary (utf8Bytes (" ".intercalate ("upd" :: rest)))))
    | none => none
  | ["bad", i] => i.toNat?.map fun i => .ok (.text ("bad " ++ toString i))
  -- a Binary frame that does not deserialise: some bad text's bytes, or (i % 9 = 8) bytes that are not UTF-8
  | ["binbad", i] => i.toNat?.map fun i =>
      .ok (.binary (if i % 9 == 8 then [0xff, 0xfe, 0x7b] else utf8Bytes ("bad " ++ toString i)))
  | ["ping"] => some (.ok (.ping []))
  | ["pong"] => some (.ok (.pong []))
  | ["raw"] => some (.ok (.frame []))
  | ["close"] => some (.ok (.close none))
  | ["err", k] => (parseWsError? k).map .error
  | _ => none

def fmtEvent : StreamEvent → String
  | .reconnecting => "ev reconnecting"
  | .item k (.snapshot b) => "ev snap " ++ toString k ++ " " ++ fmtBook b
  | .item k (.update b) => "ev upd " ++ toString k ++ " " ++ fmtBook b

def fmtHandled : PipeError → String
  | .socket (.deserialise _) => "he deser"
  | .socket (.terminated _) => "he terminated"
  | .socket (.webSocket _) => "he ws"
  | .data (.unidentifiable s) => "he unident " ++ toString s
  | .data (.invalidSequence p f) => "he invalid-sequence " ++ toString p ++ " " ++ toString f

def fmtFin : Streams.Fin → String
  | .initPending => "fin initPending"
  | .initError => "fin initError"
  | .pending => "fin pending"
  | .ended => "fin ended"

def fmtBooks (books : Books) : List String :=
  books.map fun (k, b) => "book" ++ toString k ++ " " ++ fmtBook b

def policy : Streams.Policy := ⟨125, 2, 60000⟩

def sideTag : Side → String
  | .bids => "b"
  | .asks => "a"

def lvKey (k : Nat) (sd : Side) (p : Rat) : String :=
  "lv" ++ toString k ++ ":" ++ sideTag sd ++ ":" ++ fmtRat p

structure Draft where
  snapshots : List MarketEv := []
  buffered : List WsMessage := []

structure MSt where
  started : Bool := false
  cfg : Config := ⟨.spot, driverDe, [], policy⟩
  books0 : Books := []
  conns : List ConnInput := []
  draft : Draft := {}
  seenEvents : Nat := 0
  seenHandled : Nat := 0
  /-- `venue k` ops (only the price universe of the `lv` lines is read from them) -/
  venues : List (Nat × Venue) := []
  /-- instruments with a declared REST depth -/
  depths : List Nat := []

/-- per-level observation of the managed books of the instruments with a declared depth -/
def MSt.lvLines (s : MSt) (books : Books) : List String :=
  books.flatMap fun (k, b) =>
    if s.depths.contains k then
      [Side.bids, Side.asks].flatMap fun sd =>
        (uniPrices ((s.venues.lookup k).getD []) sd).map fun p =>
          lvKey k sd p ++ " " ++ fmtRat (abs (sideOf b sd) p)
    else []

def countNotices (evs : List StreamEvent) : Nat :=
  (evs.filter fun e => match e with | .reconnecting => true | _ => false).length

/-- run the whole pipeline on the input so far -/
def MSt.observe (s : MSt) : MSt × List String :=
  let r := pipeline s.cfg (enoughFuel s.cfg s.conns) s.books0 s.conns
  let newEv := r.events.drop s.seenEvents
  let newHe := r.handled.drop s.seenHandled
  ({ s with seenEvents := r.events.length, seenHandled := r.handled.length },
    [fmtFin r.fin] ++ newEv.map fmtEvent ++ newHe.map fmtHandled ++
      ["notices " ++ toString (countNotices r.events), "nerr " ++ toString r.handled.length] ++
      fmtBooks (r.booksBS s.books0) ++ s.lvLines (r.booksBS s.books0))

/-- the last connection of the input, changed by `g`; `none` when there is none or it has ended -/
def modifyLast (conns : List ConnInput) (g : ConnInput → ConnInput) : Option (List ConnInput) :=
  match conns.reverse with
  | [] => none
  | c :: rest => if c.ended then none else some ((g c :: rest).reverse)

def model : Drv MSt where
  init := {}
  step s toks :=
    match toks with
    | ["init", r, n, m] =>
      match parseRules? r, n.toNat?, m.toNat? with
      | some r, some n, some m =>
        ({ started := true
           cfg := ⟨r, driverDe, (List.range n).map fun k => (k, k), policy⟩
           books0 := (List.range m).map fun k => (k, OrderBook.default) }, [])
      | _, _, _ => (s, ["bad-op"])
    | "venue" :: k :: cs =>
      match k.toNat?, parseChanges? cs with
      | some k, some cs => ({ s with venues := (k, cs) :: s.venues }, [])
      | _, _ => (s, ["bad-op"])
    | ["depth", k, n] =>
      match k.toNat?, n.toNat? with
      | some k, some _ => ({ s with depths := k :: s.depths }, [])
      | _, _ => (s, ["bad-op"])
    | "snap" :: body =>
      match parseSnap? body with
      | some (k, b) => ({ s with draft := { s.draft with snapshots := s.draft.snapshots ++ [(k, Event.snapshot b)] } }, [])
      | none => (s, ["bad-op"])
    | "snapu" :: body =>
      match parseSnap? body with
      | some (k, b) => ({ s with draft := { s.draft with snapshots := s.draft.snapshots ++ [(k, Event.update b)] } }, [])
      | none => (s, ["bad-op"])
    | "buf" :: body =>
      match parseFrame? body with
      | some (.ok w) => ({ s with draft := { s.draft with buffered := s.draft.buffered ++ [w] } }, [])
      | _ => (s, ["bad-op"])
    | ["open"] =>
      if !s.started then (s, ["bad-op"]) else
      MSt.observe { s with conns := s.conns ++ [({ snapshots := s.draft.snapshots, buffered := s.draft.buffered, frames := [], ended := false } : ConnInput)], draft := {} }
    | "f" :: body =>
      match parseFrame? body with
      | none => (s, ["bad-op"])
      | some fr =>
        match modifyLast s.conns fun c => { c with frames := c.frames ++ [fr] } with
        | none => (s, ["bad-op"])
        | some conns => MSt.observe { s with conns := conns }
    | ["eos"] =>
      match modifyLast s.conns fun c => { c with ended := true } with
      | none => (s, ["bad-op"])
      | some conns => MSt.observe { s with conns := conns }
    | _ => (s, ["bad-op"])

/-! ### spec driver: ids + ground truth only -/

structure SSt where
  started : Bool := false
  m : Nat := 0
  oracle : Oracle := Oracle.init .spot []
  draft : Draft := {}
  /-- a connection has been opened by an `open` op and its socket has not been ended by `eos` (op
  well-formedness only, mirrors `modifyLast`) -/
  lastOpen : Bool := false

def SSt.observe (s : SSt) : List String :=
  let o := s.oracle
  match o.fin with
  | .pending =>
    [fmtFin o.fin, "notices " ++ toString o.notices, "nerr " ++ toString o.errors] ++
      ((o.insts.filter fun i => i.constrained && i.full && decide (i.key < s.m)).map fun i =>
        "book" ++ toString i.key ++ " " ++ fmtBook i.expected) ++
      ((o.insts.filter fun i => i.constrained && i.limit.isSome && decide (i.key < s.m)).flatMap fun i =>
        [Side.bids, Side.asks].flatMap fun sd =>
          ((uniPrices i.venue sd).filter (i.known sd)).map fun p =>
            lvKey i.key sd p ++ " " ++ fmtRat (i.expectedAt sd p))
  | f => [fmtFin f]

def spec : Drv SSt where
  init := {}
  step s toks :=
    match toks with
    | ["init", r, n, m] =>
      match parseRules? r, n.toNat?, m.toNat? with
      | some r, some n, some m =>
        ({ started := true, m := m, oracle := Oracle.init r ((List.range n).map fun k => (k, k, [])) }, [])
      | _, _, _ => (s, ["bad-op"])
    | "venue" :: k :: cs =>
      match k.toNat?, parseChanges? cs with
      | some k, some cs =>
        ({ s with oracle := { s.oracle with insts := s.oracle.insts.map fun i =>
            if i.key = k then { i with venue := cs } else i } }, [])
      | _, _ => (s, ["bad-op"])
    | ["depth", k, n] =>
      match k.toNat?, n.toNat? with
      | some k, some n =>
        ({ s with oracle := { s.oracle with insts := s.oracle.insts.map fun i =>
            if i.key = k then { i with limit := some n } else i } }, [])
      | _, _ => (s, ["bad-op"])
    | "snap" :: body =>
      match parseSnap? body with
      | some (k, b) => ({ s with draft := { s.draft with snapshots := s.draft.snapshots ++ [(k, Event.snapshot b)] } }, [])
      | none => (s, ["bad-op"])
    | "snapu" :: body =>
      match parseSnap? body with
      | some (k, b) => ({ s with draft := { s.draft with snapshots := s.draft.snapshots ++ [(k, Event.update b)] } }, [])
      | none => (s, ["bad-op"])
    | "buf" :: body =>
      match parseFrame? body with
      | some (.ok w) => ({ s with draft := { s.draft with buffered := s.draft.buffered ++ [w] } }, [])
      | _ => (s, ["bad-op"])
    | ["open"] =>
      if !s.started then (s, ["bad-op"]) else
      let s := { s with oracle := s.oracle.openConn s.draft.snapshots (s.draft.buffered.map fun w => frameKind driverDe (.ok w)),
                        draft := {}, lastOpen := true }
      (s, s.observe)
    | "f" :: body =>
      match parseFrame? body with
      | none => (s, ["bad-op"])
      | some fr =>
        if !s.lastOpen then (s, ["bad-op"]) else
        let s := { s with oracle := s.oracle.frame (frameKind driverDe fr) }
        (s, s.observe)
    | ["eos"] =>
      if !s.lastOpen then (s, ["bad-op"]) else
      let s := { s with oracle := s.oracle.eos, lastOpen := false }
      (s, s.observe)
    | _ => (s, ["bad-op"])

end BarterModel.Driver.C06E

def main (args : List String) : IO UInt32 :=
  BarterModel.Driver.runMain BarterModel.Driver.C06E.model BarterModel.Driver.C06E.spec args
