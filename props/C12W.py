N = {"quick": 400, "thorough": 8000}
EXHAUSTIVE = {"quick": False, "thorough": True}
RULE = ("cases = committed corpus (corpus/C12W: fixed vectors for the conventions and observations named in the theorems) + seeded generator of harness/src/bin/c12w.rs. "
        "60 %: stream cases - 0-4 messages buffered during subscription validation (real process_buffered_events), ExchangeStream::new with an explicit initial buffer of 0-3 "
        "Ok/Err items and a stateful scripted Transformer (Input = Vec<u32>, running sum, one output per element, error on multiples of 7), then 0-30 / 0-60 ops over "
        "push <Text|Binary|Ping|Pong|Close(None|code,reason)|Frame|Err(18 tungstenite error kinds)|Pending>, end, poll, drain, collect; payloads from valid Vec<u32> JSON "
        "(0-4 elements, whitespace variants), 18 malformed texts and 22 non-UTF-8 byte strings (one per Utf8Error class); the REAL ExchangeStream<WebSocketParser, _, _> is "
        "polled by hand over an in-memory inner stream with scripted readiness, and additionally over futures::stream::iter + StreamExt::collect; after every poll the result, "
        "the pub buffer, the transformer state and the inner queue length are compared. 12 %: WebSocketParser::parse and the process_* helpers called directly, "
        "is_websocket_disconnected on every constructible tungstenite::Error kind. 28 %: de.rs helpers through serde_json (newtype wrappers with deserialize_with; a "
        "DeserializeSeed visitor for extract_next; a serde_json Serializer for se_element_to_vector) on catalogues of 40 integer and 64 float numerals (boundaries of u64, "
        "2^53, chrono's last second, ties of round-half-even at the nanosecond, inf/nan/sign/exponent/whitespace variants) and 16 non-string JSON values; instants compared as "
        "exact integer nanoseconds, f64 values as exact fractions. Thorough additionally enumerates every inner script of length <= 4 over 9 symbols with and without a "
        "pre-filled buffer (7 381 scripts) and every catalogue entry through every helper. A case is distinct by the SHA-1 of its op lines and non-trivial when the "
        "implementation's observation blocks differ at least once")
ASSUMPTIONS = [
    "a poll is a function call: wakers are not modelled (the harness polls with a no-op waker); the inner stream is a script of poll results followed by Ready(None) for ever (ended) or Pending for ever",
    "the Transformer is an arbitrary stateful function, the exchange-message deserialiser an arbitrary pair of functions (text / bytes), From<SocketError> an arbitrary function: the theorems quantify over all of them; "
    "the driver instantiates them with the harness's scripted transformer and a strict Vec<u32> JSON reader (glue, exercised by the correspondence)",
    "the text of serde_json::Error is not modelled; errors are compared by kind (json / empty / digit / overflow / fempty / finvalid / missing:<field>)",
    "third-party behaviour visible in observable strings is modelled from its source and exercised by the correspondence: tungstenite 0.26 CloseCode::from(u16) and derived Debug, "
    "bytes 1.x Debug for Bytes, core::str::from_utf8 (valid_up_to / error_len and their Display), u64::from_str, the grammar of f64::from_str, `f64 as u64`, "
    "Duration::from_secs_f64 (round half to even), chrono's last representable second 8 210 266 876 799",
    "f64: the decimal -> binary64 rounding of str::parse::<f64> is a parameter (FloatSem) in every theorem; the driver instantiates it with IEEE-754 round-to-nearest-even on exact "
    "rationals (subnormals and overflow included) and compares exactly, not with a tolerance",
    "the spec driver decides the f64 helpers only on numerals that binary64 represents exactly (so no rounding is involved) and on strings containing a character foreign to the "
    "documented grammar of f64::from_str; panics are never required by the spec (where the code panics the spec is silent)",
    "JSON values reach the de.rs model pre-lexed (plain string / string with escapes / unsigned integer literal / anything else); the lexer is driver glue",
    "a numeral followed by junk inside one JSON token (e.g. `18446744073709551615x`) is not generated for the bare-number helper: serde_json calls the helper before it sees the junk",
]
SOURCE_FILES = ["barter-integration/src/stream/mod.rs", "barter-integration/src/protocol/websocket.rs",
                "barter-integration/src/protocol/mod.rs", "barter-integration/src/de.rs",
                "barter-integration/src/error.rs", "barter-data/src/lib.rs"]


def signature(ops, k, key, impl_line, spec_line):
    key = key.rstrip("0123456789")  # out<i> / col<i> are positional keys
    op = ops[k].split() if k < len(ops) else ["?"]
    kind = op[0]
    if kind in ("parse", "push", "bpush") and len(op) > 1:
        kind += ":" + op[1]
    return f"clause={key}/op={kind}"


CLAIM = False
TECHNIQUE = ("Lean 4: ExchangeStream::poll_next as a state machine over an arbitrary parser / stateful transformer / inner-stream script; poll-by-poll refinement to a trace "
             "specification (every message replaced by its outputs, Pending kept in place) by induction over the script; conservation (emitted ++ owed = total), splitting law, "
             "no read-ahead; the WebSocket parser as a total decision table; de.rs as exact integer / rational arithmetic with the f64 rounding abstract; correspondence with the "
             "real ExchangeStream, WebSocketParser, process_buffered_events and de.rs helpers")
LEVEL_TEXT = ("Proof (sub-check of C12). lean/BarterModel/Props/C12W.lean proves, for EVERY parser, error conversion, stateful transformer, initial buffer and inner-stream script: "
              "the n-th poll_next result is the n-th entry of the specification trace - buffer first, then every message replaced by err(parse error) / nothing / the transformer's "
              "outputs with the transformer state threaded in message order, every Pending of the inner stream kept in place, then Ready(None) (ended) or Pending for ever "
              "(polls_refine_spec, polls_eq_prefix_then_exhausted); hence every item once and in order (outputs_complete, outputs_prefix, emitted_plus_future), buffer first "
              "(buffer_first, buffer_emitted_first), the stream ends iff the inner stream ended and everything was handed out and stays ended (ends_iff, after_end_always_none), "
              "Pending only where the inner stream was pending (pending_count, pending_after_script_iff, pending_leaves_state), no read-ahead and state threading "
              "(transformer_threaded, final_transformer_state), splitting and extension laws (spec_out_append, script_extension_stable), error items never end the stream "
              "(error_does_not_end_stream, close_does_not_end_stream), process_buffered_events = the stream with parse failures dropped (buffered_events_first, buffered_like_live). "
              "WebSocketParser::parse for every deserialiser: skipped iff Ping/Pong/Frame, Close -> Terminated(Debug of the frame), transport error passed on, Ok only from the "
              "deserialiser on a data payload, a failed text / UTF-8 binary payload is carried in the error (text_failure_carries_payload, binary_failure_carries_payload), "
              "a failed non-UTF-8 binary payload is NOT: the payload field holds the UTF-8 error text (binary_failure_not_utf8_reports_error_text, binary_payload_lost_witness); "
              "is_websocket_disconnected is true for exactly four errors (disconnected_iff); close-code classes. de.rs: u64 ms exact, rejected iff not a u64 literal, PANICS iff "
              "beyond chrono's range (u64_ms_exact, u64_ms_rejects_iff, u64_ms_panics_iff); de_str needs an escape-free string literal; u64::from_str accepts exactly +?digits+ "
              "fitting u64 (parse_u64_ok_iff); string and number encodings agree (str_u64_agrees_with_u64); f64 ms truncates, negative and NaN become the epoch, inf panics "
              "(f64_ms_value, f64_ms_truncates, f64_ms_negative_is_epoch, f64_ms_nan_is_epoch, f64_ms_inf); f64 s is the nearest nanosecond, within delta*1e9 + 1/2 ns of the "
              "decimal for any rounding error delta, and PANICS on negative / NaN / inf / >= 2^64 (f64_s_value, f64_s_nearest_nanosecond, f64_s_within_tolerance, f64_s_panics); "
              "extract_next sequences (extract_all_ok, extract_all_missing); se_element_to_vector. The parser and is_websocket_disconnected refine a documentation-level "
              "decision table wherever it is not silent, and it is silent exactly for a failed non-UTF-8 binary payload (parse_refines_spec, spec_silent_iff, "
              "disconnected_refines_spec). End to end from the characters of a decimal / scientific numeral: f64::from_str reads the rounding of the denoted value "
              "(f64_from_str_numerals, f64_from_str_scientific, f64_from_str_rejects), the seconds helper is within delta*1e9 + 1/2 ns of it (f64_s_decimal_within_tolerance), "
              "the milliseconds helper truncates (f64_ms_decimal_end_to_end, f64_ms_huge_panics), a negative numeral is the epoch / a panic (negative_numeral). A poll reads "
              "no further than needed (poll_is_lazy). Every ExchangeStream run is one connection script of the C12 model (exchange_stream_is_a_c12_connection). "
              "No theorem is _partial. Self-test: 18 hand-written changes of the modelled code (mutants/C12W_*.patch) - 17 reported with a concrete violating input, "
              "1 (binary payload rendered lossily instead of as the UTF-8 error text, where the documentation is silent) as no-failing-input-found.")
LEVEL_NOTE = ("Trusted: Lean kernel; axioms propext/Classical.choice/Quot.sound only; the hand-written model (Model/ExchangeStream.lean) tied to the code by sampled correspondence "
              "(400 quick / 8 000 random + 7 381 enumerated scripts + full catalogues thorough); harness, driver glue (JSON lexer, Vec<u32> reader, scripted transformer on both "
              "sides); the modelled slices of tungstenite / bytes / core / chrono named in the assumptions. Wakers, serde_json error texts, tracing and `connect` are not modelled.")
