N = {"quick": 400, "thorough": 8000}
EXHAUSTIVE = {"quick": False, "thorough": True}
RULE = ("cases = committed corpus (corpus/C12W: fixed vectors for the conventions and observations named in the theorems; D_review_*: the hand-made inputs of the review of the "
        "sub-check theorems - the f64 helpers between chrono's last instant and 2^64 and half a binary64 spacing either side of the bound, numerals with exponents of up to "
        "10^32 (`0e99999999999`, `1e-99999999999`: a driver must answer without computing 10^huge), the binary64 overflow / underflow thresholds, raw non-ASCII op tokens) "
        "+ seeded generator of harness/src/bin/c12w.rs. "
        "60 %: stream cases - 0-4 messages buffered during subscription validation (real process_buffered_events), ExchangeStream::new with an explicit initial buffer of 0-3 "
        "Ok/Err items and a stateful scripted Transformer (Input = Vec<u32>, running sum, one output per element, error on multiples of 7), then 0-30 / 0-60 ops over "
        "push <Text|Binary|Ping|Pong|Close(None|code,reason)|Frame|Err(18 tungstenite error kinds)|Pending>, end, poll, drain, collect; payloads from valid Vec<u32> JSON "
        "(0-4 elements, whitespace variants), 18 malformed texts and 22 non-UTF-8 byte strings (one per Utf8Error class); the REAL ExchangeStream<WebSocketParser, _, _> is "
        "polled by hand over an in-memory inner stream with scripted readiness, and additionally over futures::stream::iter + StreamExt::collect; after every poll the result, "
        "the pub buffer, the transformer state and the inner queue length are compared. 12 %: WebSocketParser::parse and the process_* helpers called directly, "
        "is_websocket_disconnected on every constructible tungstenite::Error kind. 28 %: de.rs helpers through serde_json (newtype wrappers with deserialize_with; a "
        "DeserializeSeed visitor for extract_next; a serde_json Serializer for se_element_to_vector) on catalogues of 40 integer and 64 float numerals (boundaries of u64, "
        "2^53, chrono's last second, ties of round-half-even at the nanosecond, inf/nan/sign/exponent/whitespace variants) and 16 non-string JSON values; instants compared as "
        "exact integer nanoseconds, f64 values as exact fractions. Thorough additionally enumerates every inner script of length <= 4 over 9 symbols with and without a "
        "pre-filled buffer (7 381 scripts) and every catalogue entry through every helper. "
        "Input-domain family dlong (separately seeded, appended after the random cases; 30 quick / N/20 thorough): 1-3 runs of 20-50 / 20-80 consecutive "
        "skippable frames (ping / pong / raw frame with empty, 1-byte, 125-byte and JSON-looking payloads, now and then a Pending) each followed by a message of 8-40 elements (text or "
        "binary), an empty text / binary payload, Close(None) or a transport error; such long messages also among 1-11 events buffered during validation; an explicit initial buffer of "
        "10-30 items with payloads up to u64::MAX; initial transformer state up to 2^40; then end, drains, poll, collect. "
        "A case is distinct by the SHA-1 of its op lines and non-trivial when the "
        "implementation's observation blocks differ at least once")
ASSUMPTIONS = [
    "a poll is a function call: wakers are not modelled (the harness polls with a no-op waker); the inner stream is a script of poll results followed by Ready(None) for ever (ended) or Pending for ever",
    "the Transformer is an arbitrary stateful function, the exchange-message deserialiser an arbitrary pair of functions (text / bytes), From<SocketError> an arbitrary function: the theorems quantify over all of them; "
    "the driver instantiates them with the harness's scripted transformer and a strict Vec<u32> JSON reader (glue, exercised by the correspondence)",
    "the text of serde_json::Error is not modelled; errors are compared by kind (json / empty / digit / overflow / fempty / finvalid / missing:<field>)",
    "third-party behaviour visible in observable strings is modelled from its source and exercised by the correspondence: tungstenite 0.26 CloseCode::from(u16) and derived Debug, "
    "bytes 1.x Debug for Bytes, core::str::from_utf8 (valid_up_to / error_len and their Display), u64::from_str, the grammar of f64::from_str, `f64 as u64`, "
    "Duration::from_secs_f64 (round half to even), chrono's last representable second 8 210 266 876 799",
    "f64: the decimal -> binary64 rounding of str::parse::<f64> is a parameter (FloatSem) in every theorem; the driver instantiates it with IEEE-754 round-to-nearest-even on exact "
    "rationals (subnormals and overflow included) and compares exactly, not with a tolerance",
    "the spec driver decides the VALUE of the f64 helpers only on unsigned numerals that binary64 represents exactly (so no rounding is involved; its own reader of the documented "
    "grammar and its own test `k*2^x, k < 2^53`, not the model's parseNumber / nearestF64) and rejects strings containing a character foreign to the documented grammar of "
    "f64::from_str; since the review it REQUIRES the panic of all four time helpers on a value beyond chrono's last instant (u64: ms/1000 > 8 210 266 876 799; f64: the decimal is "
    ">= the bound minus half a binary64 spacing there - 1/2 ms resp. 2^-11 s, hand-derived from the binary64 format and checked against `ieee` by four kernel-evaluated examples - "
    "or has a non-zero mantissa and a decimal exponent >= 400); the doc comments of de.rs say nothing about panics: the bound is chrono's, the clause records what the code does "
    "and is exercised by mutants C12W_f64_ms_saturates_at_chrono_max / C12W_f64_s_out_of_range_is_error; on signed numerals, inf / nan words and non-exact values the spec stays silent",
    "numerals with huge exponents: the model's parseNumber denotes the exact rational m*10^E, which no program can evaluate for E = 99999999999; the driver evaluates the model through "
    "parseF64Fast (Model/ExchangeStream.lean): zero mantissa => 0, non-zero mantissa with E >= 400 => +-inf, with E + #digits <= -400 => 0, otherwise the exact value handed to the "
    "rounding. f64_fast_agrees proves parseF64Fast = parseF64Str for EVERY rounding outside the two clamped branches; inside them the equality is a property of `ieee` "
    "(10^400 > 2^1024, 10^-400 < 2^-1075) that is NOT proved for all arguments - three kernel-evaluated witnesses at the thresholds and the correspondence on the corpus stand for it",
    "JSON values reach the de.rs model pre-lexed (plain string / string with escapes / unsigned integer literal / anything else); the lexer is driver glue",
    "a numeral followed by junk inside one JSON token (e.g. `18446744073709551615x`) is not generated for the bare-number helper: serde_json calls the helper before it sees the junk",
]
SOURCE_FILES = ["barter-integration/src/stream/mod.rs", "barter-integration/src/protocol/websocket.rs",
                "barter-integration/src/protocol/mod.rs", "barter-integration/src/de.rs",
                "barter-integration/src/error.rs", "barter-data/src/lib.rs"]


def signature(ops, k, key, impl_line, spec_line):
    key = key.rstrip("0123456789")  # out<i> / col<i> are positional keys
    op = ops[k].split() if k < len(ops) else ["?"]
    kind = op[0]
    if kind in ("parse", "push", "bpush") and len(op) > 1:
        kind += ":" + op[1]
    return f"clause={key}/op={kind}"


CLAIM = False
TECHNIQUE = ("Lean 4: ExchangeStream::poll_next as a state machine over an arbitrary parser / stateful transformer / inner-stream script; poll-by-poll refinement to a trace "
             "specification (every message replaced by its outputs, Pending kept in place) by induction over the script; conservation (emitted ++ owed = total), splitting law, "
             "no read-ahead; the WebSocket parser as a total decision table; de.rs as exact integer / rational arithmetic with the f64 rounding abstract; correspondence with the "
             "real ExchangeStream, WebSocketParser, process_buffered_events and de.rs helpers")
LEVEL_TEXT = ("Proof (sub-check of C12). lean/BarterModel/Props/C12W.lean (91 theorems) proves, for EVERY parser, error conversion, stateful transformer, initial buffer and inner-stream script: "
              "the n-th poll_next result is the n-th entry of the specification trace - buffer first, then every message replaced by err(parse error) / nothing / the transformer's "
              "outputs with the transformer state threaded in message order, every Pending of the inner stream kept in place, then Ready(None) (ended) or Pending for ever "
              "(polls_refine_spec, polls_eq_prefix_then_exhausted: the single point of strength of part A); hence every item once and in order (outputs_complete, outputs_prefix, "
              "emitted_plus_future), buffer first (buffer_first, buffer_emitted_first), no read-ahead and state threading (transformer_threaded, final_transformer_state), a poll reads "
              "no further than needed (poll_is_lazy), process_buffered_events = the stream with parse failures dropped (buffered_like_live). Statements about the SPECIFICATION trace "
              "only, which reach the model through polls_refine_spec / outputs_complete: the trace ends iff the inner stream ended and everything was handed out and stays ended "
              "(ends_iff, after_end_always_none - under the scripted-inner-stream assumption, see the note), Pending only where the inner stream was pending (pending_count, "
              "pending_after_script_iff), splitting and extension laws (spec_out_append, script_extension_stable), error items never end it (error_does_not_end_stream, "
              "close_does_not_end_stream, housekeeping_invisible), buffered_events_first. "
              "LINK TO C12 (restated after the review): for every run of more polls than the script determines, the Ready(Some _) outputs of polls/pollNext in order - Pendings "
              "dropped: a Pending carries no content at the C12 level - together with whether the last poll was Ready(None) ARE the inner stream connStream elems hang of one C12 "
              "connection, whose steps are every buffered item and every output of every message once and in order and which ends iff the socket-level stream ended "
              "(exchange_stream_run_is_a_c12_connection, run_ends_iff_inner_ended); an unfinished run has handed over a prefix (unfinished_run_is_a_prefix_of_the_c12_connection); "
              "two inner streams with the same messages and Pendings at different moments present the same connection (pendings_carry_nothing_to_c12). "
              "WebSocketParser::parse for every deserialiser: skipped iff Ping/Pong/Frame (skipped_iff_housekeeping), Ok only from the deserialiser on a data payload "
              "(ok_only_from_data), a failed text / UTF-8 binary payload is carried in the error (text_failure_carries_payload, binary_failure_carries_payload, "
              "ascii_binary_failure_verbatim), a failed non-UTF-8 binary payload is NOT: the payload field holds the UTF-8 error text "
              "(binary_failure_not_utf8_reports_error_text, binary_payload_lost_witness); is_websocket_disconnected is true for exactly four errors (disconnected_iff); close-code "
              "classes (close_code_classes, _reserved, _iana, _library). de.rs: u64 ms exact, rejected iff not a u64 literal, PANICS iff beyond chrono's range (u64_ms_exact, "
              "u64_ms_rejects_iff, u64_ms_panics_iff); de_str needs an escape-free string literal and never panics itself; u64::from_str accepts exactly +?digits+ fitting u64 "
              "(parse_u64_ok_iff); string and number encodings agree (str_u64_agrees_with_u64); f64 ms truncates, negative / NaN / -inf become the epoch (f64_ms_value, "
              "f64_ms_truncates, f64_ms_negative_is_epoch, f64_ms_nan_is_epoch, f64_ms_inf) and it PANICS iff the value is +inf, >= 2^64 or its whole milliseconds lie beyond "
              "chrono's last second (f64_ms_panics_iff, from f64_ms_huge_panics + f64_ms_panics_beyond_chrono); f64 s is the nearest nanosecond, within delta*1e9 + 1/2 ns of the "
              "decimal for any rounding error delta (f64_s_value, f64_s_nearest_nanosecond, f64_s_within_tolerance - delta stays abstract), and PANICS iff the value is NaN, "
              "infinite, negative, >= 2^64 or rounds to a nanosecond count beyond chrono's last second (f64_s_panics_iff, from f64_s_panics + f64_s_panics_beyond_chrono; the last "
              "disjunct is literally the negation of the hypothesis hr of f64_s_value / f64_ms_value - before the review the band between chrono's last second and 2^64 was in no "
              "theorem); extract_next sequences (extract_all_ok, extract_all_missing). End to end from the characters of a decimal / scientific numeral: f64::from_str reads the "
              "rounding of the denoted value (f64_from_str_numerals, f64_from_str_scientific), a zero mantissa is 0 whatever the exponent (f64_zero_mantissa_any_exponent), the "
              "seconds helper is within delta*1e9 + 1/2 ns of it (f64_s_decimal_within_tolerance), the milliseconds helper truncates (f64_ms_decimal_end_to_end), a negative numeral "
              "is the epoch / a panic (negative_numeral); the evaluation the driver uses for numerals with huge exponents is the model's outside two clamped branches "
              "(f64_fast_agrees). The parser and is_websocket_disconnected agree with a second, documentation-level decision table wherever that is not silent, and it is silent "
              "exactly for a failed non-UTF-8 binary payload (parse_refines_spec, spec_silent_iff, disconnected_refines_spec - two tables by the same hand, see the note). "
              "Definitional / bookkeeping statements, in the file but not results (proved by rfl or true of every list): pending_leaves_state, exhausted_is_fixed, "
              "datetime_from_duration (its 'panics exactly when' is the `if` of the definition), close_is_terminated, transport_error_passed, se_element_is_singleton, "
              "f64_words_accepted, f64_from_str_rejects, from_millis_total, skippable_contributes_nothing, parse_error_is_passed_downstream, text_ok, binary_ok, "
              "exchange_stream_is_a_c12_connection (holds for every list and flag: any_list_is_a_c12_connection) - they pin the model's conventions for the reader. "
              "No theorem is _partial. Self-test: 20 hand-written changes of the modelled code (mutants/C12W_*.patch) - 19 reported with a concrete violating input, "
              "1 (binary payload rendered lossily instead of as the UTF-8 error text, where the documentation is silent) as no-failing-input-found.")
LEVEL_NOTE = ("Trusted: Lean kernel; axioms propext/Classical.choice/Quot.sound only; the hand-written model (Model/ExchangeStream.lean) tied to the code by sampled correspondence "
              "(400 quick / 8 000 random + 7 381 enumerated scripts + full catalogues thorough); harness, driver glue (JSON lexer, Vec<u32> reader, scripted transformer on both "
              "sides, the `big` abbreviation of f64 values with |binary exponent| beyond 60 / 120 that the harness prints); the modelled slices of tungstenite / bytes / core / chrono "
              "named in the assumptions. Wakers, serde_json error texts, tracing and `connect` are not modelled. "
              "Reading guide after the review of the sub-check theorems: (a) ends_iff, after_end_always_none, pending_count, pending_after_script_iff, script_extension_stable, "
              "buffered_events_first and the specOut laws are statements about the specification trace; they hold of poll_next only through polls_refine_spec / outputs_complete, "
              "which therefore carry part A. (b) 'stays ended' rests on the scripted-inner-stream assumption: the model's inner stream answers Ready(None) for ever once ended, "
              "whereas the real poll_next re-polls the inner stream after None, so an inner stream that yields again after None (not fused) would be passed through - outside the "
              "model. (c) specParse is the parser's table re-nested through `disposition`, specDisconnected the code's table with the Protocol / Tls rows left open: "
              "parse_refines_spec, spec_silent_iff and disconnected_refines_spec compare two tables written by the same hand; their content is the reading of the doc comments "
              "recorded in those tables, and the one place where the tables differ (failed non-UTF-8 binary payload). (d) f64_s_within_tolerance keeps the rounding error delta "
              "abstract; no theorem bounds delta for the driver's `ieee` (half an ulp), so the end-to-end statement for the real rounding exists only as kernel-evaluated examples "
              "and through the exact correspondence - left open. (e) outside |E| < 400 the driver does not evaluate the model's parseF64Str but parseF64Fast; equality there is "
              "argued (10^400 > 2^1024, 10^-400 < 2^-1075), witnessed at the thresholds and exercised by the corpus, not proved. (f) the spec driver's panic clause for values "
              "beyond chrono's last instant is not in the documentation of de.rs; it was added on request of the review so that the panic band is an oracle key and not only a "
              "correspondence key.")
