N = {"quick": 300, "thorough": 10000}
EXHAUSTIVE = {"quick": False, "thorough": True}
RULE = ("random histories (1-5 exchanges, length <= 40/80, notice rate 5/15/40 %) over {mkt,acc,mktre,accre} x exchange, "
        "driven through the real Engine::process; plus a separately seeded family (N/3 cases, ids d...) with 1-10 exchanges, trading "
        "enabled or disabled, every DataKind (trade, l1, book snapshot / empty book update, candle, liquidation) and every "
        "AccountEventKind (trade, balance snapshot, full account snapshot empty / non-empty, order snapshot, cancel response) as the item, "
        "a warm-up that heals every link in shuffled order (60 %), single-kind cases (33 %) and two-exchange focus (20 %); "
        "plus a separately seeded family (N/3 cases, ids cfg...) over the set-up shapes `init n <on|off> <kinds> <links> <via>`: 1-10 exchanges whose "
        "instruments are of several kinds on one exchange (spot / perpetual / future / option, derivatives adding a settlement asset), the execution "
        "link of every exchange healthy / closed / missing (tracked but not traded, `None` slot of the MultiExchangeTxMap) / refusing, trading enabled "
        "with a strategy that emits one open request after every item (60 %), and the events fed through Engine::process, "
        "barter::engine::process_with_audit or straight into EngineState::update_from_market / update_from_account (+ Engine::update_from_*_stream for "
        "the notices); "
        "thorough additionally enumerates every history of length <= 5 over 2 exchanges "
        "(8 symbols, 37 449 histories). A case is distinct by the SHA-1 of its op lines and non-trivial when the implementation's "
        "observation (global, links, disconnect log) changes at least once")
ASSUMPTIONS = [
    "at least one exchange (n >= 1); with n = 0 no event can be routed and global stays Reconnecting",
    "at most 10 exchanges in the harness (labels 0..9 = ten distinct ExchangeIds; `init n` with n > 10 is `bad-op` on both sides); the theorems are for every n",
    "every event names an exchange the engine was built with (the code panics otherwise; the harness and model both report `panic`)",
    "ExchangeId lookups and ExchangeIndex lookups address the same slot (distinct exchange ids, C11)",
    "set-up shapes: every tracked exchange carries at least one instrument (IndexedInstruments derives its exchanges from the instruments; an exchange without instruments cannot be built through the public API) and starts Reconnecting (EngineStateBuilder offers no initial connectivity); the strategy is the harness's logging OnDisconnectStrategy (a custom on_disconnect that itself mutates connectivity is outside the text); clock = HistoricalClock",
]
SOURCE_FILES = ["barter/src/engine/state/connectivity/mod.rs", "barter/src/engine/mod.rs", "barter/src/engine/state/mod.rs", "barter-instrument/src/exchange.rs"]
CLAIM = True
TECHNIQUE = "Lean 4: invariant (global = conjunction of links) by induction over event histories + refinement to a history-only spec; correspondence of the model with Engine::process"
LEVEL_TEXT = ("Proof. Lean theorems over the connectivity model (lean/BarterModel/Props/C14.lean): for every n >= 1 and every finite history of "
              "market/account items and disconnect notices from the all-reconnecting state, global = Healthy iff all links are healthy "
              "(global_healthy_iff), a notice marks exactly that link (market/account_notice_marks), the next item heals exactly that link "
              "(market/account_item_heals), on-disconnect is invoked once per notice with the right exchange (on_disconnect_once), and the whole "
              "state is a function of the history (refines_spec). Unbounded in n and in history length, which the single-step tests cannot reach. "
              "The model is tied to the code by running the same histories through the real Engine::process on every run.")
PREBUILD = [["python3", "tools/rust2lean_sm.py", "--require", "connectivity,connectivity_updates"]]
LEVEL_NOTE = ("Health / ConnectivityState / all_healthy are additionally regenerated from the source by tools/rust2lean_sm.py and proved equal to the model (kernels_agree_with_source). "
              "So are the four update arms of ConnectivityStates, the readers connectivity / connectivity_index and ExchangeIndex::index (Generated/Machines3.lean, group connectivity_updates; the &mut accessors read in place, the IndexMap through the translator's explicit map vocabulary): proved equal to the model for all states in which the addressed exchange exists (update_arms_agree_with_source); the translator, its prelude and the stated meaning of the map vocabulary are trusted for that tie. "
              "Trusted: Lean kernel; axioms propext/Classical.choice/Quot.sound only; the hand-written model (tied by sampled correspondence: 300 quick / "
              "10k random + all 37k histories of length <=5 over 2 exchanges thorough); harness and driver. Assumes n >= 1, events name known exchanges, "
              "distinct exchange ids (ExchangeId and ExchangeIndex lookups hit the same slot).")
