N = {"quick": 300, "thorough": 10000}
RULE = ("random engines (1-3 exchanges with links healthy/closed(receiver dropped)/missing(None), 1-5 instruments, trading on/off) and histories of 1-25/40 events through the real "
        "Engine::process: SendOpenRequests / SendCancelRequests commands (requests addressed to the instrument's exchange, another exchange or an unknown exchange index), "
        "CancelOrders / ClosePositions with filters, trading-state toggles, order snapshots, cancel responses, fills, prices, shutdown; 55% of events come with a scripted "
        "strategy output (0-2 cancels, 0-2 opens, 25% of them with client order ids the scripted risk manager refuses). Observed: what every execution receiver got during the tick, "
        "the audit outputs/errors, every instrument's order table, trading state. Distinct by SHA-1 of op lines; non-trivial when the observations change at least once. "
        "Plus a separately seeded input-domain family (one `d` case per five random ones, same op vocabulary; corpus/C03/domain.ops holds fixed instances): open requests with prices / quantities over "
        "the signed Decimal domain (0, negative, fractional, 1e-8, 1e12), client order ids 0 / 4999 / 5000.. / 8999 also in COMMANDS (commands bypass the risk manager: a cid the scripted risk manager "
        "would refuse is sent), exchange indices far beyond the link table, empty commands (OneOrMany::Many([])) and batches of 6-12 requests per command / strategy output, filters with several elements "
        "(OneOrMany::Many: duplicates, known + unknown exchange, out-of-range instrument, reversed / degenerate / unknown underlyings), order snapshots OpenInFlight / fully filled / over-filled / zero "
        "quantity / negative or far-ahead exchange time, fills and prices with fractional / 1e-8 / 1e12 magnitudes and price 0 / negative, up to 6 instruments, every tenth case a history of 120-200 events. "
        "Plus a separately seeded configuration-shape family (one `cfg` case per five random ones; corpus/C03/cfg_shapes.ops holds fixed instances): 2-5 exchanges (the r / d families stop at three; with label 4 = Bitfinex "
        "the harness label differs from the ExchangeIndex, the builder sorting by ExchangeId), exchanges / instruments ADDED in a permuted, interleaved order (never label order; IndexedInstruments::builder().build() "
        "normalises it), link tables of 4-5 slots over all four letters, forced link shapes (only the last ExchangeIndex linked with `None` slots before it, only the first one missing, no usable link at all)")
ASSUMPTIONS = [
    "PARTIAL (runtime): an unbounded tokio mpsc channel accepts a send iff its receiver is alive and delivers FIFO - assumption of the model, exercised (not proved) by the correspondence run",
    "links: besides healthy / receiver dropped / no transmitter, the generic MultiExchangeTxMap<Tx> is also instantiated with a transmitter that refuses every item with an error that is not is_unrecoverable() "
    "(letter U; the default UnboundedTx can never answer that, the engine's Recoverable(ExecutionChannelUnhealthy) arm exists for every other Tx): reported failed, not fatal, not delivered, no in-flight mark, the tick goes on",
    "strategy output and risk verdict are arbitrary per-tick inputs (the risk manager is modelled as a partition of the strategy's requests by a predicate on the order key)",
    "requests name instruments the engine knows (record_in_flight panics otherwise)",
    "protocol limits of the shared engine protocol (harness/src/engine_proto.rs + Driver/EngineCommon.lean), found by the input-domain audit and NOT generated: `ev fill` is a fill on a FLAT instrument "
    "(the engine model sets the position; increasing / flipping fills are C02's subject); the link table is fixed per case (a link that dies mid-history, or a transmitter that fails intermittently, cannot be "
    "expressed: per tick the theorems quantify over every link table, the correspondence run does not change it between ticks); client order ids and order ids are numerals, strategy id is fixed; inactive "
    "order snapshots are Cancelled only; client order ids 9000-9099 are reserved for the injected close-position id generator",
    "set-up shapes of the shared engine protocol found by the configuration-shape audit and NOT generated (fixed by harness/src/engine_proto.rs / engine_util.rs, which this check may not change): every instrument is a SPOT "
    "instrument (no perpetual / future / option in the engine state); every exchange of the link table has at least one instrument and every exchange with an instrument has a slot (a link table shorter or LONGER than the "
    "exchange table, or ordered differently from the ExchangeIndex order, cannot be expressed: a request for an index beyond the exchange table always fails); the clock is HistoricalClock, the engine state starts without "
    "balances / positions / orders (positions and orders are reached through events at the head of a third of the cases), the strategy / risk manager are the scripted ones (DefaultStrategy / DefaultRiskManager never sit in "
    "the engine; C03R checks DefaultRiskManager on its own), audits are read from Engine::process directly (no run loop, no audit channel on / off: C10)",
    "cancel_orders iterates a hash map: the order of the cancel requests it generates within one instrument is canonicalised (sorted by client order id) on both sides",
    "examined boundary (DESIGN F8): when an algo send fails fatally the audit carries the errors but omits the AlgoOrders output although the healthy part was delivered and marked in flight; "
    "the property demands reported-sent => delivered, which holds (audit_algo_is_generated)",
]
SOURCE_FILES = ["barter/src/engine/mod.rs", "barter/src/engine/action/send_requests.rs", "barter/src/engine/action/generate_algo_orders.rs",
                "barter/src/engine/action/cancel_orders.rs", "barter/src/engine/action/close_positions.rs", "barter/src/engine/execution_tx.rs",
                "barter/src/engine/state/trading/mod.rs", "barter/src/risk/mod.rs", "barter/src/engine/error.rs", "barter/src/execution/request.rs",
                "barter-integration/src/channel.rs", "barter-integration/src/lib.rs"]
PREBUILD = [["python3", "tools/rust2lean_sm.py", "--require", "send_requests"]]
CLAIM = True
TECHNIQUE = "Lean 4: the engine's request path as pure functions over a delivery log; theorems by unfolding + list algebra (filter/partition), induction over ticks; in-flight marks via the C01 order model; correspondence with the real Engine over real channels"
LEVEL_TEXT = ("Proof (logic) + correspondence (runtime), PARTIAL as to channel semantics. lean/BarterModel/Props/C03.lean proves for every engine state, event, strategy output, risk verdict and link table: "
              "the delivery log grows by exactly the requests reported sent, once each, in order, per exchange (send_requests_partition, send_requests_per_exchange, process_delivers_exactly_sent, "
              "run_delivers_exactly_sent over any history); failed requests carry an unrecoverable error of the right kind and are not delivered (failed_error_kind, failed_not_delivered); "
              "sent opens are in flight and sent cancels of tracked orders are cancel-in-flight afterwards (sent_open_in_flight_command, sent_cancel_in_flight_command, sent_in_flight_algo); "
              "orders named by no sent request keep their state, so failed/refused requests leave no mark (unsent_leaves_no_mark); refused requests are reported and never delivered "
              "(refused_not_delivered); disabled => no generation, commands still actioned, re-enabling generates on that very tick, shutdown / fatal command skip generation.")
LEVEL_NOTE = ("Trusted: Lean kernel; axioms propext/Classical.choice/Quot.sound; hand-written engine model tied to the code by sampled correspondence through the real Engine with real "
              "tokio channels (300 quick / 10k thorough). Channel FIFO/liveness semantics assumed. The spec view for the oracle is the (proved) model restricted to the observables the property "
              "determines uniquely (deliveries, sent/failed/refused reports, fatality, in-flight marks, trading state). "
              "send_request / send_requests (SendRequests for Engine), SendRequestsOutput / SendCancelsAndOpensOutput readers, EngineError and the traits ExecutionTxMap / Tx / Unrecoverable (as records) are additionally regenerated from the source by "
              "tools/rust2lean_sm.py (Generated/Machines4.lean, group send_requests; the transmitter map an abstract parameter: find -> link or error, send -> result, a &self trait method read as a function of its arguments) and proved, for all engines / "
              "maps / transmitters / requests, to be: find, then send, with the three error kinds; the order-preserving partition into sent / errors (either spelling of the source: iterator chain or for loop); the model's SendOut under the instantiation "
              "LinksAgree; unrecoverable_errors().is_none() = not fatal (send_requests_agree_with_source). The delivery into the channel is the untranslated effect of Tx::send; the translator, its prelude and the reading of traits as records are trusted for that tie.")
SUBCHECKS = ["C03R", "C03N"]
