N = {"quick": 420, "thorough": 10500}
RULE = "tbd"
ASSUMPTIONS = []
SOURCE_FILES = []
CLAIM = True
TECHNIQUE = "tbd"
LEVEL_TEXT = "tbd"
LEVEL_NOTE = "tbd"
