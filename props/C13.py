N = {"quick": 420, "thorough": 10500}
EXHAUSTIVE = {"quick": False, "thorough": False}
RULE = ("cases cycle through all 21 (ExchangeId, SubKind) arms of DynamicStreams::init (20 cases per pair quick, 500 thorough). Each case: "
        "1-4 (thorough 1-6) instruments over a 22-name pool with mixed case, digits and shared prefixes (btc/BTC/Btc/bt/b, cusd/usd/usdc, "
        "1inch, a1/A1 ...) so that case variants and concatenation collisions (bt+cusd vs btc+usd) occur, instrument kinds as the builder "
        "accepts for the pair (Okx: spot/perpetual/future/option; Gateio futures/options dated, incl. expiries whose ISO week-year differs from "
        "the calendar year), then 2-6 (thorough 2-10) messages: 55 % for a subscribed instrument's venue symbol, 15 % for an unsubscribed "
        "instrument, 30 % a mutation of a subscribed symbol (lower-cased, suffix added, last char dropped, separators removed/swapped, first "
        "char changed); multi-trade batches of 0-3 trades, Bitfinex heartbeats and channel ids confirmed in shuffled order (some unconfirmed, "
        "some for unsubscribed symbols). A third of the cases (every third round over the 21 pairs) subscribe through the engine's indexed-stream "
        "instrument type MarketInstrumentData<usize> (the third Identifier<Market> impl of every connector: name_exchange VERBATIM; `@<name>:<kind>` tokens): "
        "the name is the venue's symbol for the underlying (70 %), that symbol in the wrong case (15 %) or ANOTHER venue's symbol for the same underlying (15 %); "
        "messages then name the venue's symbol or the subscribed name. A quarter of the remaining (formatted) cases - every fourth formatted round over the 21 pairs - "
        "subscribe the plain UN-KEYED MarketDataInstrument (the first Identifier<Market> impl of every connector, the README form; `=<base>:<quote>:<kind>` tokens): the "
        "instrument map is a Map<MarketDataInstrument> and every event key is the instrument itself, printed canonically. Real WebSocketSubMapper::map (over "
        "Subscription<E, Keyed<usize, MarketDataInstrument>, K>, Subscription<E, MarketInstrumentData<usize>, K> or Subscription<E, MarketDataInstrument, K>), synthesised JSON "
        "through THE TRANSFORMER THE REPOSITORY BINDS to the pair: the harness projects the transformer type out of <E as StreamSelector<Instrument, Kind>>::Stream "
        "(= ExchangeWsStream<T>) and drives T's ExchangeTransformer::init, serde into T's own associated Transformer::Input type, and T's Transformer::transform - it names neither "
        "the transformer nor the venue message type (all 21 pairs x 3 instrument types, the Binance L2 transformers included). "
        "After the N random cases a separately seeded INPUT-DOMAIN family of N/4 cases (ids `<n>-dom<class>-..`; the random cases are unchanged by it), again cycling over "
        "the 21 pairs, with the instrument-set class walking through: 0 the EMPTY set, 1 one instrument whose base and quote are the same asset (or differ only in case), "
        "2 30-40 instruments with numbered names (btc1 a prefix of btc12; a1+2usd vs a12+usd), 3 names differing only in case + the same subscription twice, "
        "4 one base/quote under EVERY instrument kind the builder accepts for the pair (Okx: spot, perpetual, two futures expiries, options differing only in strike / only in "
        "call-put / only in expiry; Gateio futures three expiries, options six contracts) plus prefix relatives (bt+cusd, b+tc, btc+us, btc+usdc), 5 a small random set; "
        "formatted 50 % / verbatim 25 % / un-keyed 25 %; 4-8 messages: 45 % a subscribed market, 10 % an outsider, 17 % a SIBLING (same base/quote, another kind / expiry / strike / "
        "C-P; a base extended by one char on single-kind venues), 28 % further mutations (first char dropped, char prepended, ONE letter case-flipped, kind suffix dropped or "
        "`-SWAP` appended, last digit changed); on the venues whose payload names its channel (Okx, Bitmex, Gateio) 22 % of the messages on ANOTHER channel (upper-cased, last char "
        "dropped, or one of tickers / bbo-tbt / books / trade / trades / Trades / quote / spot.book_ticker / spot.trades / futures.trades / options.trades / futures.book_ticker); "
        "prices and amounts 55 % from exact extremes (1e12, 2^40+1/2, 2^52, 123456789.015625, 2^-20, 2^-27, 2^-10; for the Decimal-valued L1 / L2 levels also 0.00000001, "
        "123456789012.12345678, 99999999999.99999999, 31415.92653589793), amount 0 (`0`, `0.0`, `0.000`) in 15 % of the items; exchange times from base 0 / 1000 / 1.7e12 / 4.1e12 ms, "
        "each item equal to the previous one (40 %), one step less, one step more, or a jump; batches of 0 / 1 / 2 / 3 / 5 trades; Bitfinex channel ids from 0 and u32::MAX. "
        "corpus/C13/domain.ops holds one hand-written case per class. "
        "After that a separately seeded CONFIGURATION-SHAPE family of N/5 cases (ids `<n>-cfgk-..`; all earlier cases unchanged), cycling over the 21 pairs: a `keys` line before "
        "the `sub` gives the instruments the keys a global InstrumentIndex would (reversed positions, positions + 1 / 7 / 1000, a shuffled sparse subset of 0..60, 10^15 + ..; "
        "pairwise distinct), 2-6 instruments with pairwise distinct venue symbols, formatted 50 % / verbatim 50 %, Bitfinex confirmations in reverse subscription order, 3-7 messages "
        "(80 % a subscribed market). In ALL cases the Binance L2 transformers are initialised with one snapshot per subscribed instrument in SUBSCRIPTION order (the instrument map "
        "iterates in hash order), each at a sequence derived from its own market's name (100, 110 .. 180), and the update of a message is numbered from the market the message "
        "names: it is a valid first update only if the transformer put that market's snapshot under the instrument. corpus/C13/cfg_keys.ops holds hand-written cases. "
        "A case is distinct by the SHA-1 of its op lines and non-trivial when the implementation's trace shows at least two different "
        "observation blocks")
ASSUMPTIONS = [
    "asset names are ASCII (the model maps case with ASCII rules; Rust's to_lowercase/to_uppercase are Unicode)",
    "pairwise distinct subscription ids / venue symbols among the subscribed instruments (two instruments the venue itself cannot tell "
    "apart, e.g. bt+cusd and btc+usd on a concatenating venue, or the same pair in two spellings, are outside the property: the map keeps the last one; "
    "the spec driver does not constrain the key for them)",
    "instrument kinds are those the dynamic builder accepts for the pair (exchange_supports_instrument_kind_sub_kind); integer option strikes",
    "Bitmex / Gateio futures-perpetual-option batches carry the symbol per trade; all trades of one generated batch name the same symbol "
    "(the code identifies the batch by its first trade); an empty batch names no market and yields nothing",
    "Bitfinex: the channel-id re-keying of BitfinexWebSocketSubValidator::validate (needs a live socket) is applied to the instrument map directly "
    "from a deserialised `subscribed` event; the venue confirms each symbol at most once and under pairwise distinct channel ids",
    "Binance L2: each update is given to a freshly initialised transformer (one empty snapshot per subscribed instrument, in subscription order, at a per-market sequence "
    "100 .. 180) as a valid first update for the market it names, with at most one level per side; sequencing and book sorting are C06/C05",
    "instrument keys of the keyed representations are pairwise distinct (`keys` line; default key = position). The model works on positions and the drivers relabel position k as "
    "the k-th key: the code is generic in the key type (bounds Debug + Clone + Eq), so along an injective key assignment nothing but the printed key can change. TWO instruments "
    "under ONE key (a non-injective assignment, legal in the API) are not driven: the Binance L2 transformers look their initial snapshots up BY KEY (spot/l2.rs:99-101), "
    "so two books sharing a key would both start from the first snapshot found - reported as open by the configuration-shape audit",
    "prices/amounts are multiples of 1/8 (exact in f64 and Decimal; f64 parsing is not modelled); Kraken times are multiples of 125 ms "
    "(its seconds-as-f64 timestamps are then exact); the sign of PublicTrade.amount is not constrained by the spec (see LEVEL_NOTE): it is an "
    "observation (`amt`, `sgn`) compared between code and model only; theorem amount_sign_convention states the convention per connector",
    "exchange times are >= 0 ms (the venues' epoch fields are deserialised as u64: a negative time is not a message; harness and drivers answer `bad-op`); Kraken's "
    "seconds-as-decimal-string times go through f64 (Duration::from_secs_f64 truncates): a time that is not a multiple of 125 ms can come out 1 ms (1 us) early - outside "
    "the generator, reported as a candidate finding by the input-domain audit, not constrained here",
    "a message on another channel than the one the subscription kind is published under (possible only where the payload names its channel: Okx arg.channel, Gateio channel, "
    "Bitmex table) is not a message for a subscribed (market, kind): the spec driver demands the unidentifiable error for it whatever market it names (theorem `rejected`)",
    "verbatim path (MarketInstrumentData): the supplied name_exchange IS the venue symbol as far as the property is concerned (the user supplies it; nothing "
    "normalises it: lowercase_verbatim_name_is_rejected); a `sub` line is all-formatted, all-verbatim or all-un-keyed (one Rust subscription list has one instrument type; "
    "the theorems cover arbitrary mixtures of formatted and verbatim)",
    "un-keyed path (plain MarketDataInstrument, key = the instrument): the spec demands the subscribed instrument itself as the event key, with base / quote lower-cased "
    "(asset names are case-insensitive: AssetNameInternal); the same instrument subscribed twice is one instrument (the key is determined), two DIFFERENT instruments with "
    "one venue symbol leave the key open as on the keyed paths",
    "which connector TYPE and which kind value belong to a (name, kind) pair of the op protocol is still the harness's table (21 lines); the arm bodies of DynamicStreams::init "
    "are C13V's subject (audit finding C13-H3)",
]
SOURCE_FILES = [
    "barter-data/src/subscriber/mapper.rs", "barter-data/src/transformer/stateless.rs", "barter-data/src/exchange/subscription.rs",
    "barter-data/src/subscription/mod.rs", "barter-data/src/streams/builder/dynamic/mod.rs",
    "barter-data/src/exchange/binance/trade.rs", "barter-data/src/exchange/binance/book/l1.rs", "barter-data/src/exchange/binance/book/l2.rs",
    "barter-data/src/exchange/binance/market.rs", "barter-data/src/exchange/binance/channel.rs",
    "barter-data/src/exchange/binance/futures/liquidation.rs", "barter-data/src/exchange/binance/spot/l2.rs",
    "barter-data/src/exchange/binance/futures/l2.rs",
    "barter-data/src/exchange/okx/trade.rs", "barter-data/src/exchange/okx/market.rs",
    "barter-data/src/exchange/kraken/trade.rs", "barter-data/src/exchange/kraken/book/l1.rs", "barter-data/src/exchange/kraken/market.rs",
    "barter-data/src/exchange/coinbase/trade.rs", "barter-data/src/exchange/coinbase/market.rs",
    "barter-data/src/exchange/bybit/trade.rs", "barter-data/src/exchange/bybit/message.rs", "barter-data/src/exchange/bybit/market.rs",
    "barter-data/src/exchange/gateio/spot/trade.rs", "barter-data/src/exchange/gateio/perpetual/trade.rs",
    "barter-data/src/exchange/gateio/market.rs", "barter-data/src/exchange/gateio/channel.rs",
    "barter-data/src/exchange/bitmex/trade.rs", "barter-data/src/exchange/bitmex/message.rs", "barter-data/src/exchange/bitmex/market.rs",
    "barter-data/src/exchange/bitfinex/validator.rs", "barter-data/src/exchange/bitfinex/message.rs",
    "barter-data/src/exchange/bitfinex/trade.rs", "barter-data/src/exchange/bitfinex/market.rs",
    "barter-instrument/src/asset/name.rs", "barter-instrument/src/instrument/name.rs",
    "barter-data/src/instrument.rs", "barter-data/src/streams/builder/dynamic/indexed.rs",
    "barter-data/src/lib.rs", "barter-data/src/exchange/mod.rs", "barter-data/src/exchange/binance/mod.rs", "barter-data/src/exchange/binance/spot/mod.rs",
    "barter-data/src/exchange/binance/futures/mod.rs", "barter-data/src/exchange/bitfinex/mod.rs", "barter-data/src/exchange/bitmex/mod.rs",
    "barter-data/src/exchange/bybit/mod.rs", "barter-data/src/exchange/coinbase/mod.rs", "barter-data/src/exchange/kraken/mod.rs", "barter-data/src/exchange/okx/mod.rs",
    "barter-data/src/exchange/gateio/spot/mod.rs", "barter-data/src/exchange/gateio/future/mod.rs", "barter-data/src/exchange/gateio/perpetual/mod.rs",
    "barter-data/src/exchange/gateio/option/mod.rs", "barter-instrument/src/instrument/market_data/mod.rs",
    "barter-data/src/exchange/bitfinex/channel.rs", "barter-data/src/exchange/bitmex/channel.rs", "barter-data/src/exchange/bybit/channel.rs",
    "barter-data/src/exchange/coinbase/channel.rs", "barter-data/src/exchange/kraken/channel.rs", "barter-data/src/exchange/okx/channel.rs",
]


def signature(ops, k, key, impl_line, spec_line):
    """violated clause + connector/kind of the case (the `sub` op) + class of the message"""
    sub = next((o.split() for o in ops if o.startswith("sub ")), ["sub", "?", "?"])
    exch, kind = sub[1], sub[2]
    clause = {"nev": "count", "ev": "attribution", "err": "rejection", "trade": "trade-fields", "l1": "l1-fields",
              "l2": "l2-fields", "liq": "liquidation-fields"}.get(key, key)
    cls = "subscribed-market" if spec_line.startswith(("ev", "nev", "trade", "l1", "l2", "liq")) and not spec_line.startswith("nev 1") else "message"
    if "unidentifiable" in spec_line:
        cls = "unsubscribed-market"
    elif "unidentifiable" in impl_line or impl_line.startswith("nev 1"):
        cls = "subscribed-market-rejected"
    rep = " rep=verbatim" if any(t.startswith("@") for t in sub[3:]) else (" rep=unkeyed" if any(t.startswith("=") for t in sub[3:]) else "")
    # a message on another channel than the subscribed kind's (venues whose payload names its channel)
    venue_chan = {"okx": "trades", "bitmex": "trade", "gateio_spot": "spot.trades", "gateio_options": "options.trades"}
    op = ops[k].split() if 0 <= k < len(ops) else []
    if len(op) >= 3 and op[0] == "msg" and (exch in venue_chan or exch.startswith("gateio_")):
        if op[1] != venue_chan.get(exch, "futures.trades"):
            cls = "other-channel"
    if impl_line.startswith("deser-error"):
        cls = "message-not-deserialised"
    return f"clause={clause} connector={exch} kind={kind} input={cls}{rep}"


CLAIM = True
TECHNIQUE = ("Lean 4: per-connector id algebra (payload-side id = subscribe-side id, market = venue symbol, '|' decoding) proved for the whole "
             "21-pair table, hash-map-insert lemmas by induction over the subscription list, refinement of Transformer::transform to a venue-symbol "
             "attribution spec; correspondence of the model with the real mapper / serde types / transformers")
LEVEL_TEXT = ("Proof. Lean theorems (lean/BarterModel/Props/C13.lean) over the executable model the driver runs, for every one of the 21 (connector, kind) pairs, "
              "every list of subscribed instruments (unbounded length, any ASCII spelling, any kind/expiry/strike) and every message: market_is_venue_symbol "
              "(subscribe-side market = venue symbol; no hypothesis on the current tree), channel_is_venue_channel, payload_id_agrees, attributed (message for "
              "the k-th instrument's market => exactly the events of key k), events_key_exchange + trade/l1/l2/liq_fields_as_stated (key, exchange id, price, "
              "quantity, side, time copied), rejected + rejected_never_event (unsubscribed (channel, market) => Unidentifiable(id), never an event), "
              "sep_injective(_channels), refines_spec (transform = the property's attribution rule stated on venue symbols only), and for Bitfinex "
              "bitfinex_attributed / bitfinex_rejected / bitfinex_heartbeat / bitfinex_refines_spec over arbitrary confirmation sequences. BOTH instrument representations "
              "(InstRep = formatted-from-underlying | verbatim name_exchange, the MarketInstrumentData impl the engine's indexed stream uses): the model over the sum (marketR, "
              "subscriptionIdR, mapOfR, venueSymbolR, specVerdictR) restricted to formatted instruments is the old one (formatted_is_the_old_path); market_is_venue_symbol_verbatim "
              "(identity), market_is_venue_symbol_rep, payload_id_agrees_rep, attributed_rep, rejected_rep, rejected_never_event_rep, refines_spec_rep, bitfinex_*_rep over lists of "
              "either representation (any mixture); verbatim_agrees_with_formatted (names = venue symbols of the underlyings => same ids, same map, same transform); witnesses "
              "lowercase_verbatim_name_is_rejected / other_venue_verbatim_name_is_rejected (nothing normalises a verbatim name). The THIRD representation, un-keyed "
              "Subscription<_, MarketDataInstrument, _> (key = the instrument; Map<MarketDataInstrument> = UMap, mapOfU, transformU): canon_same_market / unkeyed_same_id (the un-keyed "
              "path subscribes under exactly the ids of the keyed path), unkeyed_map_is_keyed_map (the un-keyed map is the positional map with every position replaced by the "
              "instrument subscribed there, for every list, duplicates and colliding ids included), unkeyed_conf (Bitfinex re-keying preserves that), unkeyed_transform (for every "
              "message the un-keyed result is the positional result with the instrument in place of the position), attributed_unkeyed, rejected_unkeyed. amount_sign_convention / events_amount_sign: per "
              "connector which sign PublicTrade.amount carries (Bitfinex abs; Gateio futures/perpetuals/options signed; others as stated). All full strength; "
              "hypotheses: pairwise distinct ids / venue symbols, builder-accepted instrument kinds (refinement only), non-empty batch where the id is read off "
              "the first trade, '|' not in a payload-supplied channel, Bitfinex confirmations with distinct symbols and distinct channel ids.")
LEVEL_NOTE = ("Trusted: Lean kernel; axioms propext/Classical.choice/Quot.sound only; the hand-written model (tied by sampled correspondence: 420 quick / 10.5k "
              "thorough cases over all 21 pairs and all three instrument representations through the real WebSocketSubMapper::map and the transformer + input message type the "
              "repository itself binds in each connector's `impl StreamSelector` (type-level projection, not a harness table); the name -> connector type table of the harness); the venue "
              "table of the spec (from the repository's fixtures and doc comments); harness and driver. serde glue is exercised, not proved. Bitfinex's "
              "channel-id re-keying is driven by constructing the post-validation instrument map directly (same two statements as the validator's Subscribed "
              "arm, on a really deserialised BitfinexPlatformEvent) - no loop-back websocket. Binance L2 only as a first update on a fresh transformer. "
              "ASCII names only. Not constrained by the spec (reported; observed as `amt` / `sgn`, model mirrors the code, theorem amount_sign_convention): Gateio "
              "futures/perpetual/option sells carry a negative PublicTrade.amount while "
              "every other connector reports the absolute quantity; batches that mix symbols are attributed wholly to the first trade's instrument.")
SUBCHECKS = ["C13S", "C13Q", "C13V", "C13D"]
