N = {"quick": 400, "thorough": 12000}
EXHAUSTIVE = {"quick": False, "thorough": True}
RULE = ("random cases: 8 % exercise Level's derived Ord / PartialEq (2-8 pairs over 8 values incl. 0, 0.0, 1, 1.0, negatives; cmp, ==, <, <=, >, >=, "
        "max, min, partial_cmp, Vec::sort of 0-12 levels); 92 % allocate 1-4 Arc<RwLock<OrderBook>> cells (OrderBook::default() or OrderBook::new on a "
        "clean or an arbitrary body: 0-12 (thorough 0-16) unsorted levels per side over a grid of 2-7 (thorough 2-10) prices at 6 scales incl. negative "
        "prices, 10/30/60 % zero amounts written 0 / 0.0 / 0.000, duplicate prices; time_engine absent, 0, -1 ms or one of 5 close timestamps), build an "
        "OrderBookMapSingle or an OrderBookMapMulti from 0-5 (key, cell) pairs (repeated keys, several keys sharing one cell, unmapped cells), query keys() "
        "and find() for every candidate key and an unknown one, then queue 1-25 (thorough 1-40) stream items - Update (90 %) or Snapshot (10 %, clean or "
        "arbitrary) events built with OrderBook::new for a candidate key or a never-configured key, Reconnecting notices - interleaved with "
        "OrderBookMapMulti::insert, snapshot(depth) for depth in {0,1,2,3,5,100} and runs of the real OrderBookL2Manager::run (10/35/100 % after each "
        "item; over stream::iter or over an unbounded channel fed by a concurrent producer task on a current-thread tokio runtime; the manager owns a "
        "clone of the map, the books are read through the original handles afterwards, every cell is printed after every run, and later runs continue "
        "from the books the earlier ones left). 12 % of the cases use long books (24-48, thorough 24-70 distinct prices per side) so that the binary "
        "search runs over many levels. thorough additionally enumerates, for bids and for asks, every base side of <= 4 levels over 3 prices "
        "(duplicates allowed, amounts distinct by position) x one upserted level over 7 prices x {delete, set} (3 388 cases). A case is distinct by "
        "the SHA-1 of its op lines and non-trivial when the implementation's observation block changes at least once")
ASSUMPTIONS = [
    "slice::binary_search_by is modelled by a transcription of the loop of core::slice (std >= 1.82: size halving without early exit, base moves right "
    "unless the probe compares Greater, one final comparison); std documents the hit among equal elements as unspecified - the transcription fixes it "
    "to the last equal level, which the correspondence checks on duplicate-price books on every run (the exhaustive tier enumerates all of them up to "
    "4 levels). Nothing proved about strictly ordered books depends on that choice (binary_search_is_scan)",
    "sort_unstable_by is modelled as a stable sort. Proved: for input with pairwise distinct prices every sorting algorithm gives the model's result, "
    "and for any input the price sequence is determined (new_sort_determined); only the order among equal-priced levels is the algorithm's choice - "
    "std's unstable sort is an insertion sort (stable) up to 20 elements, and the generators keep every level list that may contain a duplicate price "
    "at <= 16 levels (longer lists have distinct prices)",
    "the constructor does not de-duplicate prices and does not drop zero amounts (its documentation promises only sorting): "
    "OrderBook::new(1, None, [(100,1),(100,2)], []) holds two bid levels at 100, later updates act on only one of them, only a Snapshot clears the "
    "duplicate; OrderBook::new(1, None, [], [(101,0)]) holds an ask of amount 0 which is the best ask. C05's strict invariant therefore needs clean "
    "Snapshot / constructor input (reachable_well_formed); for arbitrary input the weak order, the per-price level counts and the price bag are "
    "proved instead (reachable_weakly_ordered, upsert_level_counts, manager_refines_spec)",
    "Decimal is an exact rational; volume_weighed_mid_price is compared to 1e-18 and its Decimal division by zero (two best levels with amounts summing "
    "to 0: only after a zero-amount constructor input, or with negative amounts) is modelled as a panic; generated amounts are >= 0, prices may be negative",
    "time_engine is an integer number of milliseconds (DateTime<Utc> range and sub-millisecond precision not modelled)",
    "Arc<RwLock<OrderBook>> cells are indices into a list of books; the manager is run on a current-thread runtime over a finite stream, so lock "
    "contention with concurrent readers / writers and fairness are not modelled; tracing output (warn on Reconnecting / unknown instrument, debug on "
    "deleting an absent level) is not observed",
    "FnvHashMap is an association list with one entry per key (insert replaces); the iteration order of keys() is unspecified in Rust and is compared "
    "sorted",
    "init_multi_order_book_l2_manager (needs live exchange connections) is modelled only as far as its map construction goes (multiOf: later "
    "duplicate keys win, every book starts as OrderBook::default()) and is not driven; serde (de)serialisation of OrderBook / Level is out of scope",
    "there is no OrderBookSide::best() / OrderBookSide::new() in this tree: best = levels().first() (what mid_price uses), construction = "
    "OrderBookSide::bids / ::asks",
]
SOURCE_FILES = ["barter-data/src/books/mod.rs", "barter-data/src/books/manager.rs", "barter-data/src/books/map.rs",
                "barter-data/src/subscription/book.rs"]

_CLAUSE = [("snap", "depth_snapshot"), ("mid", "mid_price"), ("def", "default_book"), ("found", "map_find"), ("keys", "map_keys"),
           ("cmp", "level_order"), ("eq", "level_order"), ("rel", "level_order"), ("max", "level_order"), ("min", "level_order"),
           ("sorted", "level_sort"), ("ev", "constructor"), ("bp", "price_sequence"), ("ap", "price_sequence"), ("bb", "best_level"),
           ("ba", "best_level"), ("vw", "volume_weighted_mid_price"), ("h", "sequence_and_time_of_last_event"), ("b", "levels"), ("a", "levels")]


def signature(ops, k, key, impl_line, spec_line):
    op = ops[k].split()[0] if k < len(ops) else "?"
    clause = key
    for prefix, name in _CLAUSE:
        if key == prefix or (key.startswith(prefix) and key[len(prefix):].isdigit()):
            clause = name
            break
    return f"clause={clause} op={op}"


CLAIM = False
TECHNIQUE = ("Lean 4: loop invariant of the transcribed slice::binary_search_by; list surgery characterisation of upsert_single; equality with the "
             "C05 scan model on strictly ordered sides; weak-order / level-count / price-bag invariants for arbitrary constructor input by induction "
             "over histories and over the inductively defined set of reachable books; per-cell fold of OrderBookL2Manager::run over shared cells "
             "(frame, per-instrument, concatenation); refinement to an executable per-cell specification; correspondence with the real Level, "
             "OrderBook, OrderBookMapSingle/Multi and OrderBookL2Manager on a tokio runtime")
LEVEL_TEXT = ("Proof (sub-check of C05). Lean theorems over the model of lean/BarterModel/Model/BookManager.lean (Props/C05M.lean), all full strength "
              "(no _partial), for all level lists (unsorted, duplicate prices, zero amounts), maps (keys may share cells) and finite streams: "
              "Level's derived order is the lexicographic order on (price, amount), lawful, consistent with ==, max/min are bounds "
              "(level_order_is_lexicographic, level_order_lawful, level_max_min, level_sort_determined); the transcribed binary_search_by returns the "
              "last equal level or the unique insertion point on every weakly ordered side (binary_search_correct) and upsert_single with it equals "
              "the C05 scan model on strictly ordered sides, turning C05's scan assumption into a theorem (binary_search_is_scan, agrees_with_c05_model); "
              "weak order and the per-price level counts of the four documented scenarios hold on every side (upsert_keeps_weak_order, "
              "upsert_level_counts); OrderBook::new keeps exactly the given levels in weak book order for every input, is strict iff the input prices are "
              "distinct, is determined by its specification and idempotent (new_any_input, new_strict_iff_input_distinct, new_sort_determined, "
              "new_idempotent); a Snapshot replaces all four fields and makes earlier history irrelevant, an Update copies sequence and time_engine "
              "(update_snapshot, update_update, snapshot_resets_history, fields_of_last_event); every book reachable through the public API is weakly "
              "ordered, and well-formed when constructor / Snapshot input is clean (reachable_weakly_ordered, reachable_well_formed, "
              "strict_iff_weak_and_distinct); snapshot(depth) is the prefix, composes to the smaller depth, best = head is an extremum "
              "(snapshot_is_prefix, snapshot_laws, best_is_extremum); OrderBookMapSingle/Multi find / keys / insert laws (single_map, multi_insert, "
              "multi_of_pairs, keys_iff_find); the manager: the book of a cell after any stream is the fold of exactly the events resolving to it, per "
              "instrument when no cell is shared, unknown instruments and Reconnecting change nothing, runs concatenate, all books keep the weak (resp. "
              "C05) invariant and are C05 runs in C05's domain (manager_per_cell, manager_per_instrument, manager_frame, manager_resumes, "
              "manager_keeps_invariants, manager_cell_is_c05_run); refinement of books and of the whole manager to the executable per-cell "
              "specification - copied fields, price bag in book order, mid-price, and the C05 map specification while clean (spec_of_new, "
              "spec_observables, manager_refines_spec, spec_initial). The model is tied to the code by running the same cases through the real code "
              "on every run.")
LEVEL_NOTE = ("Trusted: Lean kernel; axioms propext/Classical.choice/Quot.sound only; the hand-written model incl. the transcription of "
              "core::slice::binary_search_by (sampled correspondence: 400 quick / 12k random + 3 388 small-scope exhaustive thorough); harness, driver, "
              "orchestrator. Not a contradiction of the documentation but worth knowing: OrderBook::new neither de-duplicates nor drops zero-amount "
              "levels, and an upsert touches only one of several equal-priced levels. Exact rationals instead of rust_decimal; lock contention, "
              "tracing output, serde and init_multi_order_book_l2_manager's network part not modelled.")
