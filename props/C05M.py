N = {"quick": 400, "thorough": 12000}
EXHAUSTIVE = {"quick": False, "thorough": True}
RULE = ("committed corpus (corpus/C05M: the inputs of review A - a clean book with a negative amount on which volume_weighed_mid_price panics, the "
        "same through the manager, -0 amounts, 100 / 100.0 / 100.00 as one price, 24 levels at one price, repeated keys / insert / insert on a single "
        "map) + random cases: 8 % exercise Level's derived Ord / PartialEq (2-8 pairs over 8 values incl. 0, 0.0, 1, 1.0, negatives; cmp, ==, <, <=, >, >=, "
        "max, min, partial_cmp, Vec::sort of 0-12 levels); 92 % allocate 1-4 Arc<RwLock<OrderBook>> cells (OrderBook::default() or OrderBook::new on a "
        "clean or an arbitrary body: 0-12 (thorough 0-16) unsorted levels per side over a grid of 2-7 (thorough 2-10) prices at 6 scales incl. negative "
        "prices, 10/30/60 % zero amounts written 0 / 0.0 / 0.000, duplicate prices; time_engine absent, 0, -1 ms or one of 5 close timestamps), build an "
        "OrderBookMapSingle or an OrderBookMapMulti from 0-5 (key, cell) pairs (repeated keys, several keys sharing one cell, unmapped cells), query keys() "
        "and find() for every candidate key and an unknown one, then queue 1-25 (thorough 1-40) stream items - Update (90 %) or Snapshot (10 %, clean or "
        "arbitrary) events built with OrderBook::new for a candidate key or a never-configured key, Reconnecting notices - interleaved with "
        "OrderBookMapMulti::insert, snapshot(depth) for depth in {0,1,2,3,5,100} and runs of the real OrderBookL2Manager::run (10/35/100 % after each "
        "item; over stream::iter or over an unbounded channel fed by a concurrent producer task on a current-thread tokio runtime; the manager owns a "
        "clone of the map, the books are read through the original handles afterwards, every cell is printed after every run, and later runs continue "
        "from the books the earlier ones left). 12 % of the cases use long books (24-48, thorough 24-70 distinct prices per side) so that the binary "
        "search runs over many levels. thorough additionally enumerates, for bids and for asks, every base side of <= 4 levels over 3 prices "
        "(duplicates allowed, amounts distinct by position) x one upserted level over 7 prices x {delete, set} (3 388 cases). Input-domain family (one `d` "
        "case per five random ones, own random stream; class by case index): signed - negative amounts incl. pairs that cancel exactly (the modelled "
        "division-by-zero panic of volume_weighed_mid_price through cells, snapshots and the manager), -0, price grids below / at / above zero; edges - "
        "sequence numbers 0 ... 2^32 ... 2^53+1 ... 2^63 ... u64::MAX in any order and time_engine from year 0, -1 ms, 0, 1 ms, now, year 9999 (equal and "
        "decreasing); magnitude - prices at 1e-8 and 1e12, amounts 1e-8 ... 1e12; long - sides of 100-260 levels and update lists of up to 300 levels "
        "with duplicate prices and zero amounts; levels - Level's order over -0, +-1e-8, +-1e12, 100.25 = 100.250; snapshot depths from {0..8, 16, 100, "
        "2^63, usize::MAX}. corpus/C05M/dom_input_domain.ops holds one hand-written case per class. Configuration-shape family (one `cfg` case per "
        "eight random ones, own random stream; shape by case index): reader - the usual small set-up with most runs as `runr`: the channel-fed manager "
        "plus a second reader task that holds its own clones of every cell's Arc and polls try_read() on all books each time the manager waits for the "
        "next event (`rdlocked`: how often a book was found write-locked between two events; 0 by the documented use 'clone the map for viewing the up to "
        "date OrderBooks elsewhere'); many - 5-12 cells (pre-populated or default), an OrderBookMapMulti of 5-12 distinct sparse keys (0, 1, 7, 2^8, 2^16, "
        "2^32-1 ... 2^32+7, 2^63, usize::MAX; one shared and one unmapped cell), only 1-3 of the instruments ever receive an event, events for "
        "unconfigured keys incl. ones sharing the low 32 bits of a configured key, 25 % Snapshots onto pre-populated books; single - an "
        "OrderBookMapSingle with a large key on a cell other than the first among 2-5 pre-populated cells, events for the key, its low 32 bits, its "
        "2^32-twin, 0 and 1. corpus/C05M/cfg_setup_shapes.ops holds one hand-written case per shape. A case is distinct by "
        "the SHA-1 of its op lines and non-trivial when the implementation's observation block changes at least once")
ASSUMPTIONS = [
    "slice::binary_search_by is modelled by a transcription of the loop of core::slice (std >= 1.82: size halving without early exit, base moves right "
    "unless the probe compares Greater, one final comparison); std documents the hit among equal elements as unspecified - the transcription fixes it "
    "to the last equal level, which the correspondence checks on duplicate-price books on every run (the exhaustive tier enumerates all of them up to "
    "4 levels). Nothing proved about strictly ordered books depends on that choice (binary_search_is_scan)",
    "the constructors sort with slice::sort_by (books/mod.rs:154, :182; /repo at 911b9f8 'sort order book levels stably'), which std documents as "
    "stable; the model's sortLevels is List.mergeSort, a stable sort as well, so equal-priced levels keep their input order on both sides for lists of "
    "any length (new_sort_stable; corpus/C05M stable_sort_24_equal_prices: 24 levels at one price). The earlier caveat (sort_unstable_by modelled as a "
    "stable sort, duplicate-price lists kept at <= 16 levels) is obsolete; that the generators still draw at most 12 / 16 levels for lists that may "
    "repeat a price is a size choice, not a soundness condition. new_sort_determined (what is fixed by 'a permutation in price order' alone) is kept",
    "the constructor does not de-duplicate prices and does not drop zero amounts (its documentation promises only sorting): "
    "OrderBook::new(1, None, [(100,1),(100,2)], []) holds two bid levels at 100, later updates act on only one of them, only a Snapshot clears the "
    "duplicate; OrderBook::new(1, None, [], [(101,0)]) holds an ask of amount 0 which is the best ask. C05's strict invariant therefore needs clean "
    "Snapshot / constructor input (reachable_well_formed); for arbitrary input the weak order, the per-price level counts and the price bag are "
    "proved instead (reachable_weakly_ordered, upsert_level_counts, manager_refines_spec)",
    "Decimal is an exact rational (Rat): rounding to 28 significant digits and OVERFLOW of the 96-bit Decimal mantissa are outside the model. In "
    "particular mid_price ((bid + ask) / 2, books/mod.rs:301-303) and volume_weighted_mid_price (two products, a sum, a quotient, :309-312) panic in "
    "the code when an intermediate sum / product exceeds Decimal::MAX, where the model and the spec compute the exact value. Witness (review A, C05M "
    "item 2; audit/sub/scratch_A/C05M_edge.ops): `cell 2 - | 79228162514264337593543950335:1 | 79228162514264337593543950335:1` - the code panics "
    "in mid_price (rust_decimal 'Addition overflowed': Decimal::MAX + Decimal::MAX; the harness prints `panic` / `# panicmsg addition-overflowed`), model and spec print mid ~79228162514264337593543950335. Not in the corpus "
    "(it fails by design); generated prices have at most 15 digits, amounts at most 13 (every product within 28 digits). volume_weighed_mid_price is compared to 1e-18 (relative)",
    "the Decimal DIVISION BY ZERO of volume_weighted_mid_price is modelled, as a panic: the call panics iff both sides are non-empty and the two best "
    "amounts sum to zero (vw_mid_panics_iff); every statement about its value carries the explicit guard `not vwMidPanics` (spec_observables, "
    "vw_mid_value) and the spec prints `vw panic` from its own condition on the price -> amount maps (vwMidUndefined). The guard is NOT implied by clean "
    "input: OrderBook::new(1, None, [(100,1)], [(101,-1)]) is clean and panics (vw_mid_witness, corpus/C05M vw_clean_negative_amount); it is implied by "
    "positive amounts (vw_mid_safe_of_positive_amounts). The random (`r`) cases draw amounts >= 0 (their panics need a zero-amount constructor input); the "
    "input-domain (`d`) cases and the corpus draw negative amounts, cancelling pairs included; prices may be negative",
    "the harness reports a sequence number or a depth that is not a u64 / usize as bad-op, and so do both drivers (>= 2^64); a time_engine outside "
    "chrono's DateTime range is not generated (the harness would panic where the drivers accept any integer)",
    "time_engine is an integer number of milliseconds (DateTime<Utc> range and sub-millisecond precision not modelled)",
    "Arc<RwLock<OrderBook>> cells are indices into a list of books; the manager is run on a current-thread runtime over a finite stream, so lock "
    "contention with concurrent readers / writers and fairness are not modelled - except for one observation of `runr`: a second reader task (own "
    "Arc clones) that polls try_read() on every book whenever the manager is waiting for the next event never finds a book locked (`rdlocked 0`, a "
    "constant on the model and the spec side: the manager takes the write lock per event and releases it before awaiting the next one); two managers "
    "writing to the same cells concurrently and a multi-thread runtime are not driven; tracing output (warn on Reconnecting / unknown instrument, debug on "
    "deleting an absent level) is not observed",
    "FnvHashMap is an association list with one entry per key (insert replaces); the iteration order of keys() is unspecified in Rust and is compared "
    "sorted",
    "init_multi_order_book_l2_manager (needs live exchange connections) is modelled only as far as its map construction goes (multiOf: later "
    "duplicate keys win, every book starts as OrderBook::default()) and is not driven",
    "serde is out of scope, and with it one way of obtaining a book: OrderBook / OrderBookSide derive Deserialize (books/mod.rs:16, :121), which fills "
    "`levels` as they stand in the document without sorting. `Reachable` (the books of reachable_weakly_ordered / reachable_well_formed) has constructors "
    "for default, new, update with Snapshot / Update events built by new, and snapshot(depth) only - no Deserialize: a deserialised book may hold its "
    "sides in any order and no invariant is claimed for it",
    "there is no OrderBookSide::best() / OrderBookSide::new() in this tree: best = levels().first() (what mid_price uses), construction = "
    "OrderBookSide::bids / ::asks",
]
SOURCE_FILES = ["barter-data/src/books/mod.rs", "barter-data/src/books/manager.rs", "barter-data/src/books/map.rs",
                "barter-data/src/subscription/book.rs"]

_CLAUSE = [("rdlocked", "reader_not_shut_out_between_events"), ("snap", "depth_snapshot"), ("mid", "mid_price"), ("def", "default_book"), ("found", "map_find"), ("keys", "map_keys"),
           ("cmp", "level_order"), ("eq", "level_order"), ("rel", "level_order"), ("max", "level_order"), ("min", "level_order"),
           ("sorted", "level_sort"), ("ev", "constructor"), ("bp", "price_sequence"), ("ap", "price_sequence"), ("bb", "best_level"),
           ("ba", "best_level"), ("vw", "volume_weighted_mid_price"), ("h", "sequence_and_time_of_last_event"), ("b", "levels"), ("a", "levels")]


def signature(ops, k, key, impl_line, spec_line):
    op = ops[k].split()[0] if k < len(ops) else "?"
    clause = key
    for prefix, name in _CLAUSE:
        if key == prefix or (key.startswith(prefix) and key[len(prefix):].isdigit()):
            clause = name
            break
    return f"clause={clause} op={op}"


CLAIM = False
TECHNIQUE = ("Lean 4: loop invariant of the transcribed slice::binary_search_by; list surgery characterisation of upsert_single; equality with the "
             "C05 scan model on strictly ordered sides; weak-order / level-count / price-bag invariants for arbitrary constructor input by induction "
             "over histories and over the inductively defined set of reachable books; per-cell fold of OrderBookL2Manager::run over shared cells "
             "(frame, per-instrument, concatenation); refinement to an executable per-cell specification; correspondence with the real Level, "
             "OrderBook, OrderBookMapSingle/Multi and OrderBookL2Manager on a tokio runtime")
LEVEL_TEXT = ("Proof (sub-check of C05). Lean theorems over the model of lean/BarterModel/Model/BookManager.lean (Props/C05M.lean: 44 theorems, of which "
              "42 are results and 2 are definitional restatements), all full strength (no _partial), for all level lists (unsorted, duplicate prices, "
              "zero or negative amounts), maps (keys may share cells) and finite streams: "
              "Level's derived order is the lexicographic order on (price, amount), lawful, consistent with ==, max/min are bounds "
              "(level_order_is_lexicographic, level_order_lawful, level_max_min, level_sort_determined); the transcribed binary_search_by returns the "
              "last equal level or the unique insertion point on every weakly ordered side (binary_search_correct) and upsert_single with it equals "
              "the C05 scan model on strictly ordered sides, turning C05's scan assumption into a theorem (binary_search_is_scan, agrees_with_c05_model); "
              "weak order and the per-price level counts of the four documented scenarios hold on every side (upsert_keeps_weak_order, "
              "upsert_level_counts); OrderBook::new keeps exactly the given levels in weak book order for every input, is strict iff the input prices are "
              "distinct, keeps equal-priced levels in input order (stable, as slice::sort_by), is determined by its specification where prices are "
              "distinct, and idempotent (new_any_input, new_strict_iff_input_distinct, new_sort_stable, new_sort_determined, new_idempotent); earlier "
              "history is irrelevant after a Snapshot, sequence and time_engine are those of the last event (snapshot_resets_history, "
              "fields_of_last_event); every book reachable through the public constructors / update / snapshot(depth) - Deserialize excluded - is "
              "weakly ordered, and well-formed when constructor / Snapshot input is clean (reachable_weakly_ordered, reachable_well_formed, "
              "strict_iff_weak_and_distinct); snapshot(depth) is the prefix, composes to the smaller depth, best = head is an extremum "
              "(snapshot_is_prefix, snapshot_laws, best_is_extremum); volume_weighed_mid_price panics (Decimal division by zero) iff both sides are "
              "non-empty and the best amounts sum to zero, under the guard its value is the division-free micro-price, positive amounts imply the guard, "
              "clean input does not (vw_mid_panics_iff, vw_mid_value, vw_mid_safe_of_positive_amounts, vw_mid_witness); OrderBookMapSingle/Multi "
              "find / keys / insert laws and their refinement to the log of associations, last one in force (single_map, multi_insert, multi_of_pairs, "
              "keys_iff_find, map_refines_log); the manager: the book of a cell after any stream is the fold of exactly the events resolving to it, per "
              "instrument when no cell is shared, unknown instruments and Reconnecting change nothing, runs concatenate, all books keep the weak (resp. "
              "C05) invariant and are C05 runs in C05's domain (manager_per_cell, manager_per_instrument, manager_frame, manager_resumes, "
              "manager_keeps_invariants, manager_cell_is_c05_run); refinement of books and of the whole manager to the executable per-cell "
              "specification - copied fields, price bag in book order, mid-price, and while clean the C05 map specification incl. the panic-aware "
              "volume-weighted mid-price (its value under the explicit guard `not vwMidPanics`), with the key resolution either of the concrete map or "
              "of the association log the spec driver keeps (spec_of_new, spec_observables, manager_refines_spec, manager_refines_log_spec, "
              "spec_initial). Definitional / bookkeeping, not results: update_snapshot and update_update are the defining equations of the model's "
              "update (rfl), as are the sequence / time_engine conjuncts of new_any_input. The model is tied to the code by running the same cases "
              "through the real code on every run.")
LEVEL_NOTE = ("Trusted: Lean kernel; axioms propext/Classical.choice/Quot.sound only; the hand-written model incl. the transcription of "
              "core::slice::binary_search_by (sampled correspondence: corpus + 400 quick / 12k random + 3 388 small-scope exhaustive thorough); harness, "
              "driver, orchestrator. Spec side of the oracle: every key the spec prints is computed from the ops by definitions written from the "
              "documentation - h/bp/ap/mid from the price bags, b/a/bb/ba/vw/snap from the price -> amount maps of C05 (clean cells only; `vw<c> panic` "
              "from vwMidUndefined on the maps), found/keys and the routing of run from the association log (AssocLog: no BookMap, no lookup / "
              "hashInsert on the spec side; tied to the concrete maps by map_refines_log / manager_refines_log_spec), cmp/eq/rel from levelLtSpec; "
              "max/min/sorted/ev/def (except default cells) and everything about dirty cells beyond h/bp/ap/mid are correspondence-only (the spec prints "
              "nothing). The event payloads given to the spec are the constructed books (OrderBook::new of the op's levels, i.e. the model's sortLevels), "
              "as in the hypotheses of the refinement theorems. Not a contradiction of the documentation but worth knowing: OrderBook::new neither "
              "de-duplicates nor drops zero-amount levels, an upsert touches only one of several equal-priced levels, and volume_weighed_mid_price "
              "panics when the two best amounts cancel (possible on a clean book with a negative amount). Exact rationals instead of rust_decimal "
              "(rounding and overflow, e.g. of mid_price near Decimal::MAX, not modelled); lock contention, tracing output, serde / Deserialize and "
              "init_multi_order_book_l2_manager's network part not modelled.")
