N = {"quick": 200, "thorough": 5000}
EXHAUSTIVE = {"quick": False, "thorough": True}
RULE = ("each case builds the real ExecutionManager (ExecutionManager::new + run, spawned on a current-thread tokio runtime with a paused clock) around a scripted "
        "ExecutionClient, 1-3 instruments, 0-3 configured assets (`init T n [m]`; 0 = the asset table is empty), request timeout T in {0,1,2,3,5,8} ticks (1 tick = 10 ms virtual): 1-4 rounds of batches of 1-24 (thorough 1-40) open/cancel "
        "requests over 4 client order ids x 2 strategies (collisions intended); opens vary side / price / quantity x Limit|Market (30 % Market) x time in force (GTC, GTC post-only, "
        "GoodUntilEndOfDay, FillOrKill, ImmediateOrCancel), cancels carry `id` None or Some (40 %); per-request client behaviour = reply ok with filled quantity nothing / everything (fully filled) / "
        "HALF of the quantity (partial fill) / quantity + 1, carrying a varying order id (5 values) and exchange time (7 values) / rejected / rejected-naming-an-instrument / "
        "Connectivity(Timeout | ExchangeOffline | Socket) AS THE CLIENT'S ANSWER / AssetInvalid(asset) / BalanceInsufficient(asset) / RateLimit / OrderAlreadyCancelled / "
        "OrderAlreadyFullyFilled - the scripted client returns the real UnindexedOrderError values, 50 % ok, 10 % connectivity, 10 % asset-carrying - "
        "after a delay in {0, <T, =T, T+1, >T, never}; time then passes by `adv dt` (sleep: timers fire one at a time = prompt polls) or `jump dt` (tokio::time::advance: the clock "
        "jumps over response time and deadline = late poll), dt in {1, T, T+1, 0..T+5}; 12% of cases send Shutdown mid-way, 3% send a request for an unconfigured key (manager panics), "
        "and with probability 0/0/8/30% per case-class a client answer does not echo the request (other exchange, unknown or other instrument, other cid/strategy/fields, unknown "
        "instrument or unknown ASSET name in the error: the response cannot be indexed and is filtered). Thorough additionally enumerates T=2, two requests (kind x delay in "
        "{0,1,2,3,never}; first client answering ok or Err(Connectivity(Timeout))) sent 0/1 ticks apart x 9 time scripts (3 240 cases). "
        "INPUT-DOMAIN families (N/4 further cases `d<k>`, separately seeded so that the cases above are unchanged; k mod 8): (0,1) the manager serves an exchange that is NOT the first of the system "
        "(`init T n m x`, own exchange index = exchange id number x in 1..3; the unconfigured-key request and the non-echoing answer then name exchange 0); (2,3) the Decimal domain of the static fields: "
        "70 % of the opens use body codes 60..219 = price / quantity from {1e-8/1e-8, 1e12/1e12, -3.5/2.25 (negative price), 0.5/0 (quantity ZERO), 123456.789/0.001, 1e12/1e-8, 1/1e15, 0/-1 (negative quantity)} "
        "x side x Limit|Market x the 5 times in force, and the filled quantity of an accepted open additionally is quantity - 1e-8 (all but the smallest unit: NOT fully filled) or quantity + 1e-8; "
        "(4) a first batch of 33-90 (thorough 33-200) requests with T in {2,3,5,8}: more than 32 (FuturesUnordered's poll budget) / 128 (tokio's coop budget) outstanding at once; "
        "(5) a LARGE timeout T in {50, 1000, 100000} ticks with delays in {0, 1, T-1, T, T+1, 2T, never} and a silence of 0 / 700 / 250000 ticks after every round (requests after a long idle gap; "
        "timer-wheel levels 1-3); (6) all of these at once (batches 20-50); (7) NO request at all: time passes, then (60 %) Shutdown. "
        "CONFIGURATION-SHAPE families (N/4 further cases `cfg<k>`, separately seeded; k mod 8; `init T n m x mode`): (0,1,2) the manager is ASSEMBLED AS ExecutionBuilder DOES - ExecutionManager::init "
        "instead of ::new: init builds the response channel itself and the responses are read from the MERGED account stream it returns (account snapshot + the client's account stream with auto-reconnect + "
        "responses; only order events are observed) - with the client's account stream `ip` pending for ever / `il` live (a balance event every tick) / `ie` ENDING after two events and re-connecting "
        "(2 ticks) for ever, own exchange 0..3; (3,4) the request channel is CLOSED (`close`: every sender dropped, the request stream ends) instead of Shutdown being sent, in every case, while requests "
        "are outstanding (::new and ::init assemblies); (5) a HUGE request timeout T in {1e7, 1e9, 3e9} ticks (28 h / 116 days / 347 days) with delays {0, 1, T-1, T, T+1, 2T, never}; (6) no request, then the "
        "channel is closed; (7) ::init assembly x non-first exchange x 20-50 outstanding x (50 %) closed channel. "
        "Observed per op: every request the manager HANDS TO THE CLIENT (the scripted client records what it receives: exchange id, instrument NAME, strategy, client order id, side / price / "
        "quantity / kind / time in force or the cancel's order id; `fwd` lines in intake order), the sorted multiset of events received on the manager's response channel WITH the payload each carries "
        "(order id, exchange time, filled quantity of an accepted open; order id, exchange time of a confirmed cancel; error kind with its instrument / asset argument, its text, the exchange of "
        "ExchangeOffline; all values taken from the op line, so that they vary), the same events keyed by the identity they are attributed to (`for:` lines), and whether the manager task is "
        "running / stopped / panicked. The spec is silent only (a) after Shutdown / after a request for an unconfigured key, (b) on the identity a NON-ECHOING answer that is actually used is attributed "
        "to (the event count then is a range; every other request due in the same op stays constrained; a non-echoing client that never answers in time is a plain manager timeout, fully "
        "constrained), and (c) it admits both outcomes `{timeout|response}` for a request whose response arrived after the timeout but before a late poll (`jump`). "
        "A case is distinct by the SHA-1 of its op lines and non-trivial when at least two ops produce different observation blocks")
ASSUMPTIONS = [
    "the request handed to the client (oracle audit C07-H1): forwardOf = the C04 model of the call site indexer.order_request (ExecMap.managerClientRequest) on this manager's own map; the spec "
    "(specForward) demands the manager's own exchange id, the exchange NAME of exactly the request's instrument and the same strategy / client order id / request state; proved equal for every "
    "configured key (forward_refines_spec, forward_none_iff, forwarded_iff_accepted, forwarded_run) and observed on the real code by a scripted client that records what it is handed",
    "the payload of the answer (oracle audit C07-H2): `the exchange client's own response` is read as: key and names through the index translation, everything else unchanged (order id, exchange time, "
    "filled quantity, error text, exchange of ExchangeOffline); an accepted open with nothing left to fill is reported fully filled and carries nothing; the manager's own timeout carries nothing of the "
    "client's (detailOf / specDetail, detail_refines_spec); the static fields (`body`) are an opaque code in the model, decoded by harness and driver with the same table (side / price / quantity / kind / time in force)",
    "late poll: a response that arrived after the timeout but before the future was polled wins (tokio Timeout polls the inner future first): the literal text says `timeout failure`; the spec admits "
    "both outcomes as alternatives `{timeout|response}` for exactly these requests (fate_spec_or_late) and constrains every other request of the op",
    "EchoesKey: the ExecutionClient answers about the order it was asked about (same exchange/instrument/strategy/cid and static fields) and names only configured instruments / assets in its errors; "
    "otherwise the code skips the answer (no event) or attributes it to the echoed key - modelled and exercised, excluded from the exactly-once theorems",
    "requests name the manager's own exchange and a configured instrument (otherwise ExecutionManager::run panics; model and harness both report `panic`); the manager's own exchange is any of the "
    "exchange indices 0..3 (`init T n m x`; harness: ExchangeIndex(x) / exchange_id(x), model: Cfg.exchange = x, index and id being the same number)",
    "input domain of the static fields (domain audit): price and quantity are signed Decimals the manager does not validate - zero, negative, 1e-8 and 1e15 are inside the quantifier; the clause `an accepted "
    "open with nothing left to fill is reported fully filled` is applied literally as quantity - filled_quantity = 0 in exact arithmetic (Driver/C07.lean parseReq: nothingLeft), hence an accepted open "
    "of quantity 0 with nothing filled IS reported fully filled, one with 1e-8 left or over-filled by 1e-8 is NOT - the real code agrees on all of them; the exchange time of an answer is a non-negative "
    "number of ms after a fixed instant, the order id / error text a small number (opaque strings in the code)",
    "the AccountEventIndexer is the identity on configured keys - instruments AND assets (find_asset_index: asset names 0..m-1 configured) - and fails elsewhere (its correctness is property C04)",
    "a client's answer Err(Connectivity(Timeout)) produces the SAME OrderError value as the manager's own timeout (manager.rs:356/412 vs indexer.rs:255): the response event and the "
    "timeout event of a faithful client are equal values; only the fate (and the arrival time) differs - modelled as the code behaves (client_timeout_event_is_the_managers_timeout_event)",
    "FuturesUnordered, tokio::select! fairness, timer-wheel granularity and wake-ups are NOT modelled: the model is a labelled transition system whose `poll` label may be taken at any time",
    "requests still in flight at Shutdown (or when the request stream closes / the response receiver is dropped) are dropped: the property says `while running`",
    "virtual time only (paused clock, current-thread runtime); multi-thread runtimes are not exercised",
    "configuration shapes (configuration audit): the property does not depend on how the manager is assembled - ExecutionManager::new or ExecutionManager::init (the ExecutionBuilder path; the account stream "
    "merged with the responses being pending, live or ending-and-reconnecting) - model and spec ignore the `mode` token of `init`; closing the request channel (`close`) is Shutdown for model and spec "
    "(manager.rs: `Some(Shutdown) | None => break`): requests in flight are dropped, the spec is silent afterwards",
    "the request timeout and every time step are below 6.8e9 ticks = 2^36 ms (about 2.2 years), the documented maximum of tokio's timers (a tokio::time::timeout beyond it fires early: observed with "
    "T = 1e11 ticks = 31 years: requests due after 31 years are failed / answered after about 2.2 years - tokio's limit, not the manager's); `init` / `adv` / `jump` with a larger number are rejected alike by harness (panic `bad duration`) and drivers (`bad-op`)",
    "NOT exercised (configuration audit, open): several managers on different exchanges sharing ONE response channel; the response receiver dropped while requests are outstanding; instrument index sets that "
    "are not contiguous (the indexer is C04's); the response channel is unbounded by type (no capacity dimension)",
]
SOURCE_FILES = ["barter/src/execution/manager.rs", "barter/src/execution/request.rs", "barter/src/execution/builder.rs", "barter-execution/src/client/mod.rs",
                "barter-execution/src/indexer.rs"]
SEARCH_THOROUGH = True


def signature(ops, k, key, impl_line, spec_line):
    op = ops[k].split()[0] if k < len(ops) else "?"
    if key == "nev":
        try:
            a = int(impl_line.split()[1])
            alts = spec_line.split()[1].strip("{}").split("|")
            return f"clause={'both' if a > max(int(x) for x in alts) else 'neither'} op={op}"
        except Exception:
            return f"clause=count op={op}"
    if key == "fwd":
        # the request handed to the ExecutionClient is not the request the manager accepted
        return f"clause=forwarded op={op}"
    if key == "at":
        return f"clause=attribution op={op}"
    if key == "ev" or key.startswith("for:"):
        # `... <fields> <outcome>`: same verdict, different payload / static fields => the event does not carry the
        # client's own response (or the request's own fields); a missing / surplus line or another verdict => fate
        a, b = impl_line.split(), spec_line.split()
        if len(a) == len(b) and len(a) >= 3 and not spec_line.startswith("<"):
            verdicts = {alt.split(":")[0] for alt in b[-1].strip("{}").split("|")}
            if a[-1].split(":")[0] in verdicts:
                if a[:-2] != b[:-2]:
                    return f"clause=attribution op={op}"
                return f"clause={'fields' if a[-2] != b[-2] and '{' not in b[-2] else 'payload'} op={op}"
        return f"clause=fate op={op}"
    return f"clause=fate op={op}"


CLAIM = True
TECHNIQUE = ("Lean 4: labelled transition system (intake / tick / poll with tokio Timeout semantics / shutdown) for ExecutionManager::run; bookkeeping invariant "
             "(resolved + in flight + dropped is a permutation of accepted; channel = events of the resolutions) proved by induction over ALL schedules; refinement to a "
             "history-only spec; correspondence with the real ExecutionManager::run around a scripted ExecutionClient under tokio's paused clock")
LEVEL_TEXT = ("Proof (PARTIAL: bookkeeping proved, runtime tied by correspondence only). lean/BarterModel/Props/C07.lean proves for EVERY schedule of the model (any finite sequence of "
              "request intakes, time steps, polls of any in-flight request in any order - early, prompt or late - and shutdown; any number of requests outstanding; any per-request "
              "client behaviour incl. never answering): partition (each accepted request is in exactly one of resolved / in flight / dropped-at-shutdown; nothing dropped while running), "
              "one_event_per_resolution, exactly_once / exactly_once_running (identities of events sent + requests in flight = identities of accepted requests, as multisets), "
              "quiescent_exactly_one (nothing in flight => exactly one event per accepted request), no_duplicates; fate / fate_within_timeout / fate_never / fate_spec_or_late / fate_prompt "
              "(a response arriving within the timeout is always delivered as the response, a silent client always yields Connectivity(Timeout), never both; a response arriving AFTER the "
              "timeout is reported as timeout iff the future is polled before it arrives - with a late poll tokio's Timeout polls the inner future first and the late response wins: this is "
              "the only schedule dependence and is shown by an example and reproduced on the real code with tokio::time::advance); attribution (kind, exchange, instrument, strategy, cid of "
              "every event are the request's; an event carries Connectivity(Timeout) iff the future timed out or the client itself answered that error); the FULL reply alphabet of "
              "UnindexedOrderError (review C07-4): unanswered_iff (neither <=> response whose echoed key, instrument name or ASSET name the indexer does not know), "
              "client_timeout_is_not_manager_timeout (a client answering Err(Connectivity(Timeout)) in time: fate = response on every schedule, the RESPONSE event - echoed key and fields, "
              "through the indexer - is on the channel) with client_timeout_event_is_the_managers_timeout_event (the error VALUE is the manager's: for a faithful client the two events are "
              "equal; ExchangeOffline / Socket differ), connectivity_and_nameless_never_filtered, balance_insufficient_is_answered (BalanceInsufficient / AssetInvalid answered iff the asset "
              "is configured, else filtered; for builder-produced systems C04M same_assets_for_every_order discharges it), error_answers_are_delivered, attribution_timeout_iff; refines_spec; resolved_when_polled and eventually_resolved_partial (once every outstanding deadline has passed and the ready futures are "
              "polled nothing stays in flight); the request handed to the client: forward_refines_spec / forward_none_iff (for every configured key the client is asked with the manager's own exchange id, "
              "the exchange name of exactly the request's instrument and the unchanged strategy / client order id / request state - via the C04 model of indexer.order_request -, for any other key with nothing), "
              "forwarded_iff_accepted / forwarded_run (one client call per accepted request, in intake order, on every schedule); the payload: detail_refines_spec, accepted_answer_payload_unchanged, "
              "timeout_carries_nothing. NOT modelled, hence not proved: FuturesUnordered, tokio::select! fairness (that a ready future IS eventually polled - liveness is only "
              "`_partial`), timer-wheel granularity and wake-ups; these are exercised, not proved, by running the real ExecutionManager::run under virtual time on every check.")
LEVEL_NOTE = ("Trusted: Lean kernel; axioms propext/Classical.choice/Quot.sound only; the hand-written transition system (tied to manager.rs/request.rs by sampled correspondence: "
              "200 + 50 + 50 quick / 5 000 + 1 250 + 1 250 (configuration shapes: ExecutionManager::init with pending / live / ending account stream, closed request channel, timeouts up to 3e9 ticks) random + 3 240 enumerated small-scope cases thorough, prompt and late time steps, batches up to 90 (thorough 200) outstanding, a non-first exchange, zero / negative / 1e-8 / 1e15 prices and quantities, timeouts up to 100 000 ticks); tokio's paused clock; harness and driver. "
              "Hypotheses: EchoesKey (client answers about the order it was asked about, error names - instrument / asset - configured; violations are modelled and exercised but excluded from exactly-once: the code then emits no event "
              "or attributes it to the echoed key), requests for configured keys (else the manager panics), indexer = identity on configured keys (C04). Requests in flight at Shutdown are "
              "dropped (property: `while running`). Multi-thread runtimes are not exercised (paused clock needs the current-thread runtime).")
