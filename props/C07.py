N = {"quick": 200, "thorough": 5000}
EXHAUSTIVE = {"quick": False, "thorough": True}
RULE = ("each case builds the real ExecutionManager (ExecutionManager::new + run, spawned on a current-thread tokio runtime with a paused clock) around a scripted "
        "ExecutionClient, 1-3 instruments, 0-3 configured assets (`init T n [m]`; 0 = the asset table is empty), request timeout T in {0,1,2,3,5,8} ticks (1 tick = 10 ms virtual): 1-4 rounds of batches of 1-24 (thorough 1-40) open/cancel "
        "requests over 4 client order ids x 2 strategies (collisions intended), per-request client behaviour = reply ok / ok-fully-filled / rejected / rejected-naming-an-instrument / "
        "Connectivity(Timeout | ExchangeOffline | Socket) AS THE CLIENT'S ANSWER / AssetInvalid(asset) / BalanceInsufficient(asset) / RateLimit / OrderAlreadyCancelled / "
        "OrderAlreadyFullyFilled - the scripted client returns the real UnindexedOrderError values, 50 % ok, 10 % connectivity, 10 % asset-carrying - "
        "after a delay in {0, <T, =T, T+1, >T, never}; time then passes by `adv dt` (sleep: timers fire one at a time = prompt polls) or `jump dt` (tokio::time::advance: the clock "
        "jumps over response time and deadline = late poll), dt in {1, T, T+1, 0..T+5}; 12% of cases send Shutdown mid-way, 3% send a request for an unconfigured key (manager panics), "
        "and with probability 0/0/8/30% per case-class a client answer does not echo the request (other exchange, unknown or other instrument, other cid/strategy/fields, unknown "
        "instrument or unknown ASSET name in the error: the response cannot be indexed and is filtered). Thorough additionally enumerates T=2, two requests (kind x delay in "
        "{0,1,2,3,never}; first client answering ok or Err(Connectivity(Timeout))) sent 0/1 ticks apart x 9 time scripts (3 240 cases). "
        "Observed per op: the sorted multiset of events received on the manager's response channel and whether the manager task is running / stopped / panicked. "
        "A case is distinct by the SHA-1 of its op lines and non-trivial when at least two ops produce different observation blocks")
ASSUMPTIONS = [
    "EchoesKey: the ExecutionClient answers about the order it was asked about (same exchange/instrument/strategy/cid and static fields) and names only configured instruments / assets in its errors; "
    "otherwise the code skips the answer (no event) or attributes it to the echoed key - modelled and exercised, excluded from the exactly-once theorems",
    "requests name the manager's own exchange and a configured instrument (otherwise ExecutionManager::run panics; model and harness both report `panic`)",
    "the AccountEventIndexer is the identity on configured keys - instruments AND assets (find_asset_index: asset names 0..m-1 configured) - and fails elsewhere (its correctness is property C04)",
    "a client's answer Err(Connectivity(Timeout)) produces the SAME OrderError value as the manager's own timeout (manager.rs:356/412 vs indexer.rs:255): the response event and the "
    "timeout event of a faithful client are equal values; only the fate (and the arrival time) differs - modelled as the code behaves (client_timeout_event_is_the_managers_timeout_event)",
    "FuturesUnordered, tokio::select! fairness, timer-wheel granularity and wake-ups are NOT modelled: the model is a labelled transition system whose `poll` label may be taken at any time",
    "requests still in flight at Shutdown (or when the request stream closes / the response receiver is dropped) are dropped: the property says `while running`",
    "virtual time only (paused clock, current-thread runtime); multi-thread runtimes are not exercised",
]
SOURCE_FILES = ["barter/src/execution/manager.rs", "barter/src/execution/request.rs", "barter/src/execution/builder.rs", "barter-execution/src/client/mod.rs",
                "barter-execution/src/indexer.rs"]
SEARCH_THOROUGH = True


def signature(ops, k, key, impl_line, spec_line):
    op = ops[k].split()[0] if k < len(ops) else "?"
    if key == "nev":
        try:
            a, b = int(impl_line.split()[1]), int(spec_line.split()[1])
            return f"clause={'both' if a > b else 'neither'} op={op}"
        except Exception:
            return f"clause=count op={op}"
    if key == "at":
        return f"clause=attribution op={op}"
    return f"clause=fate op={op}"


CLAIM = True
TECHNIQUE = ("Lean 4: labelled transition system (intake / tick / poll with tokio Timeout semantics / shutdown) for ExecutionManager::run; bookkeeping invariant "
             "(resolved + in flight + dropped is a permutation of accepted; channel = events of the resolutions) proved by induction over ALL schedules; refinement to a "
             "history-only spec; correspondence with the real ExecutionManager::run around a scripted ExecutionClient under tokio's paused clock")
LEVEL_TEXT = ("Proof (PARTIAL: bookkeeping proved, runtime tied by correspondence only). lean/BarterModel/Props/C07.lean proves for EVERY schedule of the model (any finite sequence of "
              "request intakes, time steps, polls of any in-flight request in any order - early, prompt or late - and shutdown; any number of requests outstanding; any per-request "
              "client behaviour incl. never answering): partition (each accepted request is in exactly one of resolved / in flight / dropped-at-shutdown; nothing dropped while running), "
              "one_event_per_resolution, exactly_once / exactly_once_running (identities of events sent + requests in flight = identities of accepted requests, as multisets), "
              "quiescent_exactly_one (nothing in flight => exactly one event per accepted request), no_duplicates; fate / fate_within_timeout / fate_never / fate_spec_or_late / fate_prompt "
              "(a response arriving within the timeout is always delivered as the response, a silent client always yields Connectivity(Timeout), never both; a response arriving AFTER the "
              "timeout is reported as timeout iff the future is polled before it arrives - with a late poll tokio's Timeout polls the inner future first and the late response wins: this is "
              "the only schedule dependence and is shown by an example and reproduced on the real code with tokio::time::advance); attribution (kind, exchange, instrument, strategy, cid of "
              "every event are the request's; an event carries Connectivity(Timeout) iff the future timed out or the client itself answered that error); the FULL reply alphabet of "
              "UnindexedOrderError (review C07-4): unanswered_iff (neither <=> response whose echoed key, instrument name or ASSET name the indexer does not know), "
              "client_timeout_is_not_manager_timeout (a client answering Err(Connectivity(Timeout)) in time: fate = response on every schedule, the RESPONSE event - echoed key and fields, "
              "through the indexer - is on the channel) with client_timeout_event_is_the_managers_timeout_event (the error VALUE is the manager's: for a faithful client the two events are "
              "equal; ExchangeOffline / Socket differ), connectivity_and_nameless_never_filtered, balance_insufficient_is_answered (BalanceInsufficient / AssetInvalid answered iff the asset "
              "is configured, else filtered; for builder-produced systems C04M same_assets_for_every_order discharges it), error_answers_are_delivered, attribution_timeout_iff; refines_spec; resolved_when_polled and eventually_resolved_partial (once every outstanding deadline has passed and the ready futures are "
              "polled nothing stays in flight). NOT modelled, hence not proved: FuturesUnordered, tokio::select! fairness (that a ready future IS eventually polled - liveness is only "
              "`_partial`), timer-wheel granularity and wake-ups; these are exercised, not proved, by running the real ExecutionManager::run under virtual time on every check.")
LEVEL_NOTE = ("Trusted: Lean kernel; axioms propext/Classical.choice/Quot.sound only; the hand-written transition system (tied to manager.rs/request.rs by sampled correspondence: "
              "200 quick / 5 000 random + 1 800 enumerated small-scope cases thorough, prompt and late time steps, batches up to 40 outstanding); tokio's paused clock; harness and driver. "
              "Hypotheses: EchoesKey (client answers about the order it was asked about, error names - instrument / asset - configured; violations are modelled and exercised but excluded from exactly-once: the code then emits no event "
              "or attributes it to the echoed key), requests for configured keys (else the manager panics), indexer = identity on configured keys (C04). Requests in flight at Shutdown are "
              "dropped (property: `while running`). Multi-thread runtimes are not exercised (paused clock needs the current-thread runtime).")
