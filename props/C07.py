N = {"quick": 200, "thorough": 5000}
EXHAUSTIVE = {"quick": False, "thorough": True}
RULE = ("each case builds the real ExecutionManager (ExecutionManager::new + run, spawned on a current-thread tokio runtime with a paused clock) around a scripted "
        "ExecutionClient, 1-3 instruments, request timeout T in {0,1,2,3,5,8} ticks (1 tick = 10 ms virtual): 1-4 rounds of batches of 1-24 (thorough 1-40) open/cancel "
        "requests over 4 client order ids x 2 strategies (collisions intended), per-request client behaviour = reply ok / ok-fully-filled / rejected / rejected-naming-an-instrument "
        "after a delay in {0, <T, =T, T+1, >T, never}; time then passes by `adv dt` (sleep: timers fire one at a time = prompt polls) or `jump dt` (tokio::time::advance: the clock "
        "jumps over response time and deadline = late poll), dt in {1, T, T+1, 0..T+5}; 12% of cases send Shutdown mid-way, 3% send a request for an unconfigured key (manager panics), "
        "and with probability 0/0/8/30% per case-class a client answer does not echo the request (other exchange, unknown or other instrument, other cid/strategy/fields, unknown "
        "name in the error). Thorough additionally enumerates T=2, two requests (kind x delay in {0,1,2,3,never}) sent 0/1 ticks apart x 9 time scripts (1 800 cases). "
        "Observed per op: the sorted multiset of events received on the manager's response channel and whether the manager task is running / stopped / panicked. "
        "A case is distinct by the SHA-1 of its op lines and non-trivial when at least two ops produce different observation blocks")
ASSUMPTIONS = [
    "EchoesKey: the ExecutionClient answers about the order it was asked about (same exchange/instrument/strategy/cid and static fields) and names only configured instruments in its errors; "
    "otherwise the code skips the answer (no event) or attributes it to the echoed key - modelled and exercised, excluded from the exactly-once theorems",
    "requests name the manager's own exchange and a configured instrument (otherwise ExecutionManager::run panics; model and harness both report `panic`)",
    "the AccountEventIndexer is the identity on configured keys (its correctness is property C04)",
    "FuturesUnordered, tokio::select! fairness, timer-wheel granularity and wake-ups are NOT modelled: the model is a labelled transition system whose `poll` label may be taken at any time",
    "requests still in flight at Shutdown (or when the request stream closes / the response receiver is dropped) are dropped: the property says `while running`",
    "virtual time only (paused clock, current-thread runtime); multi-thread runtimes are not exercised",
]
SOURCE_FILES = ["barter/src/execution/manager.rs", "barter/src/execution/request.rs", "barter/src/execution/builder.rs", "barter-execution/src/client/mod.rs",
                "barter-execution/src/indexer.rs"]
SEARCH_THOROUGH = True


def signature(ops, k, key, impl_line, spec_line):
    op = ops[k].split()[0] if k < len(ops) else "?"
    if key == "nev":
        try:
            a, b = int(impl_line.split()[1]), int(spec_line.split()[1])
            return f"clause={'both' if a > b else 'neither'} op={op}"
        except Exception:
            return f"clause=count op={op}"
    if key == "at":
        return f"clause=attribution op={op}"
    return f"clause=fate op={op}"


CLAIM = True
TECHNIQUE = ("Lean 4: labelled transition system (intake / tick / poll with tokio Timeout semantics / shutdown) for ExecutionManager::run; bookkeeping invariant "
             "(resolved + in flight + dropped is a permutation of accepted; channel = events of the resolutions) proved by induction over ALL schedules; refinement to a "
             "history-only spec; correspondence with the real ExecutionManager::run around a scripted ExecutionClient under tokio's paused clock")
LEVEL_TEXT = ("Proof (PARTIAL: bookkeeping proved, runtime tied by correspondence only). lean/BarterModel/Props/C07.lean proves for EVERY schedule of the model (any finite sequence of "
              "request intakes, time steps, polls of any in-flight request in any order - early, prompt or late - and shutdown; any number of requests outstanding; any per-request "
              "client behaviour incl. never answering): partition (each accepted request is in exactly one of resolved / in flight / dropped-at-shutdown; nothing dropped while running), "
              "one_event_per_resolution, exactly_once / exactly_once_running (identities of events sent + requests in flight = identities of accepted requests, as multisets), "
              "quiescent_exactly_one (nothing in flight => exactly one event per accepted request), no_duplicates; fate / fate_within_timeout / fate_never / fate_spec_or_late / fate_prompt "
              "(a response arriving within the timeout is always delivered as the response, a silent client always yields Connectivity(Timeout), never both; a response arriving AFTER the "
              "timeout is reported as timeout iff the future is polled before it arrives - with a late poll tokio's Timeout polls the inner future first and the late response wins: this is "
              "the only schedule dependence and is shown by an example and reproduced on the real code with tokio::time::advance); attribution (kind, exchange, instrument, strategy, cid of "
              "every event are the request's); refines_spec; resolved_when_polled and eventually_resolved_partial (once every outstanding deadline has passed and the ready futures are "
              "polled nothing stays in flight). NOT modelled, hence not proved: FuturesUnordered, tokio::select! fairness (that a ready future IS eventually polled - liveness is only "
              "`_partial`), timer-wheel granularity and wake-ups; these are exercised, not proved, by running the real ExecutionManager::run under virtual time on every check.")
LEVEL_NOTE = ("Trusted: Lean kernel; axioms propext/Classical.choice/Quot.sound only; the hand-written transition system (tied to manager.rs/request.rs by sampled correspondence: "
              "200 quick / 5 000 random + 1 800 enumerated small-scope cases thorough, prompt and late time steps, batches up to 40 outstanding); tokio's paused clock; harness and driver. "
              "Hypotheses: EchoesKey (client answers about the order it was asked about; violations are modelled and exercised but excluded from exactly-once: the code then emits no event "
              "or attributes it to the echoed key), requests for configured keys (else the manager panics), indexer = identity on configured keys (C04). Requests in flight at Shutdown are "
              "dropped (property: `while running`). Multi-thread runtimes are not exercised (paused clock needs the current-thread runtime).")
