N = {"quick": 1000, "thorough": 10000}
EXHAUSTIVE = {"quick": False, "thorough": True}
RULE = ("cases = committed corpus + seeded generator of harness/src/bin/c13d.rs. EVERY `init` op awaits the REAL DynamicStreams::init(batches) on a tokio runtime; the sandbox has "
        "no network, so every arm stops at its connection attempt, but before that the repository's own code has logged — through `tracing`, recorded by a harness-local "
        "tracing::Subscriber — what the arm BODY constructed: init_market_stream's info! (consumer.rs:64: Exchange::ID of the connector TYPE, policy, stream key, Display of the "
        "subscriptions), WebSocketSubscriber::subscribe's debug! (subscriber/mod.rs:73: Exchange::ID, Exchange::url(), Debug of the Vec<Subscription<Connector, Instrument, Kind>> "
        "handed over = connector struct with its server marker type, every instrument, the kind type) and connect's debug! (barter-integration/src/protocol/websocket.rs:142: the "
        "Url dialled). Observed per op, in event order: one `ims` / `conn` / `req` line per arm invocation, then the number of init_market_stream calls, the initialised "
        "subscriptions (Connector::ID, instrument, kind) as a multiset — printed in the byte order of the printed lines, a canonical order of the harness that does not go through any Ord "
        "of the code under test —, and what init returned (Ok with the stream count per family | the failed connection attempt | Err + Display of the "
        "DataError). Fixed cases on every run: `sweep` (and `s<i>`, the same ops as one case each) = every (ExchangeId, SubKind) of the 42 x 6 table as a single subscription under the instrument kind classes the real "
        "table supports, or spot where it supports none (quick: 255 ops; thorough: all 42 x 6 x 4 = 1008), and `every-arm` = one batch holding two instruments for each of the 21 "
        "supported (exchange, kind) pairs, the same as 21 batches, the same with every subscription repeated, no batch, one empty batch. Random cases: 1-3 init ops of 1-4 batches "
        "(4 %: none) of 0-5 groups, each group 1-4 subscriptions of one supported (exchange, kind) drawn from the REAL support table over 2/3/6 base assets x 2 quote assets x "
        "spot / perpetual / 3 future expiries / 18 option contracts (so instruments repeat), the six Gateio ids listed twice in the exchange pool (sibling connectors of one family "
        "are the likely confusion), 0-2 verbatim repeats, shuffled; 35 %: part of the first batch again in the last (same key in several batches = separate connections); 15 %: "
        "the malformed stream, 1-2 arbitrary (42 exchanges x 6 sub kinds x 4 instrument kind classes) subscriptions inserted somewhere; 4 % (thorough 10 %): batches of up to 75 "
        "subscriptions over 40 assets so that validated batches exceed 20 elements. After the random cases a separately seeded CONFIGURATION-SHAPE family of N/5 cases (ids `cfgk<n>`, plus the fixed "
        "`cfgk-every-arm`; all earlier cases unchanged): op `initk` = the SAME DynamicStreams::init instantiated with Keyed<InstrumentIndex, MarketDataInstrument> (the instrument type of "
        "index_market_data_subscription_batches; token `<key>~<instrument>`), batches as in the random family (1-3 batches, repeats, part of the first batch again in the last, 12 % an "
        "unsupported subscription, 3 % / 8 % long batches), keys either a proper index over the op's distinct (exchange, instrument) numbered in shuffled order from offset 0 / 7 / 1000 "
        "(key order against instrument order and subscription order) or drawn from a pool of 1 / 2 / 4 keys (one instrument under several keys = several subscriptions, several "
        "instruments under one key likewise: dedup compares whole subscriptions; the derived Ord is key first). corpus/C13D/cfg_keyed.ops holds hand-written cases. A case is distinct by the SHA-1 of its op lines and non-trivial when two of its ops produce "
        "different observations")
ASSUMPTIONS = [
    "OBSERVATION POINT (trusted, named explicitly): what an arm body did is read from the fields of three `tracing` events the repository emits before the network "
    "(consumer.rs:64, subscriber/mod.rs:73, protocol/websocket.rs:142), identified by target + message text. Trusted: that these macros record the values they name (`%exchange` = "
    "Display of Exchange::ID, `?subscriptions` = derived Debug of the slice), the derived Debug of Subscription / MarketDataInstrument / the connector structs (the 15 connector "
    "types have pairwise different Debug texts — checked at start-up — because Binance / Bybit / Gateio print their server marker type), the harness' parser for these texts "
    "(instruments are looked up by their own Debug text among the op's instruments, anything unreadable is printed as `?` and fails the comparison), and url::Url's Debug. A change "
    "that removes or rewords one of the three log statements makes the check report a correspondence break (no-failing-input-found), not silence",
    "the network is outside the model and absent from the sandbox: a call whose arm exists ends in `res network` = init returned Err(DataError::Socket(\"WebSocket error: ..\")) "
    "(name lookup fails within a millisecond here) or did not return within 5 s. Everything an arm does AFTER a successful connection — `tokio::spawn(stream.forward_to(txs.<family>"
    ".get(&exchange).unwrap().clone()))`, the `unwrap`, which family / which exchange's transmitter — is never executed offline and NOT observed; the model carries the family "
    "(`Body.chan`, proved = route kind) only as read from the source. `ENV_PROBE`: when a probe init does not fail at once with the three events recorded (network present, or a "
    "resolver that hangs) the sub-check reports its proof obligations only",
    "SCHEDULING OF THE ENVIRONMENT: try_join_all polls the arm futures of every batch in order (batch by batch, group by group; futures-util 0.3: < 31 futures per level are "
    "polled in sequence; at most 21 groups per batch, the generator emits at most 4 batches, `every-arm` 21) and ends the pass at the first future that FAILS during it. A "
    "connection attempt starts with a name lookup on tokio's blocking pool, which fails here within a fraction of a millisecond — under machine load it was seen to fail while the "
    "first pass was still running, so that the arms behind it were never started (3 of 21). The harness therefore builds its runtime with ONE blocking thread and occupies it with "
    "a gate task until the first poll of init has returned: every arm has then logged what it constructed and queued its lookup before any lookup runs. The model (runArms) is this "
    "first pass: a future that fails without awaiting (no arm, empty group) ends it — unreachable after validation (C13V arm_iff_validated). What the real code does when an early "
    "connection attempt fails THAT fast (later arms not even started; same Err) is not compared",
    "slice::sort_unstable_by_key is a PARAMETER of the model constrained only by its documentation (as in C13V); the driver instantiates it with the stable merge sort, which the "
    "pinned toolchain agrees with on at most 20 elements. When a validated batch is longer than 20 the order inside a group is not compared (harness prints the instruments "
    "sorted and `-` for the Display string; the stable order inside a group IS ascending because validate_subscriptions sorted the batch)",
    "instruments are MarketDataInstrument with asset names a000, a001, .. (`format!(\"a{n:03}\")`; the derived Ord compares the names as strings and so does the model: numeric "
    "order below 1000, a1000 < a999 from there on), integer strikes, whole-millisecond expiries (C13V conventions); only `MarketDataInstrument` is driven "
    "(the theorems are generic in the instrument type) by op `init`, and Keyed<InstrumentIndex, MarketDataInstrument> by op `initk` (model: Subscribe.KInst / kinstOps, "
    "order = key first, Display = `InstrumentIndex(k), <instrument>`; spec: a subscription is what the caller wrote, key included); the MarketInstrumentData instantiation of init is not",
    "the spec (oracle) is the README table `Supported Exchange Subscriptions` plus (BinanceFuturesUsd, Perpetual, Liquidations) (C13V), read as: supported batches => every "
    "subscription of a batch initialised once per batch under its own exchange id / kind / instrument, one connection per distinct (exchange, kind) of a batch, nothing else; "
    "otherwise an error and nothing initialised. The spec says nothing about order, URLs, policy, stream keys or the offline outcome; it is computed in the driver from `Spec`'s own "
    "vocabulary (`nub` of each batch, the distinct (exchange, kind) pairs by eraseDups), not through the model's sort keys",
]
SOURCE_FILES = ["barter-data/src/streams/builder/dynamic/mod.rs", "barter-data/src/streams/consumer.rs", "barter-data/src/subscriber/mod.rs",
                "barter-integration/src/protocol/websocket.rs", "barter-data/src/subscription/mod.rs", "barter-data/src/exchange/mod.rs",
                "barter-data/src/exchange/binance/mod.rs", "barter-data/src/exchange/binance/spot/mod.rs", "barter-data/src/exchange/binance/futures/mod.rs",
                "barter-data/src/exchange/bitfinex/mod.rs", "barter-data/src/exchange/bitmex/mod.rs", "barter-data/src/exchange/bybit/mod.rs",
                "barter-data/src/exchange/bybit/spot/mod.rs", "barter-data/src/exchange/bybit/futures/mod.rs", "barter-data/src/exchange/coinbase/mod.rs",
                "barter-data/src/exchange/gateio/mod.rs", "barter-data/src/exchange/gateio/spot/mod.rs", "barter-data/src/exchange/gateio/future/mod.rs",
                "barter-data/src/exchange/gateio/perpetual/mod.rs", "barter-data/src/exchange/gateio/option/mod.rs", "barter-data/src/exchange/kraken/mod.rs",
                "barter-data/src/exchange/okx/mod.rs", "barter-data/README.md"]
TRUSTED = [
    "C13D: the tracing-based observation point — the three log statements of the repository (consumer.rs:64, subscriber/mod.rs:73, protocol/websocket.rs:142) as the witness of "
    "what an arm body constructed, the harness-local tracing::Subscriber and its parser of the derived Debug / Display texts; the forwarding of a connected stream into "
    "txs.<family> is not observable offline",
]
ENV_PROBE = ["probe-env"]


def _sub_fields(line):
    """`isub e,i,k` -> (e, i, k) or None"""
    t = line.split()
    if len(t) == 2 and t[0] == "isub":
        p = t[1].split(",")
        if len(p) == 3:
            return p
    return None


def signature(ops, k, key, impl_line, spec_line):
    """violated clause + what differs (connector id / kind / instrument of an initialised subscription; a missing or a surplus one; the number of calls; the outcome)"""
    if key == "isub":
        a, b = _sub_fields(impl_line), _sub_fields(spec_line)
        if impl_line.startswith("<missing>"):
            return "clause=every_subscription_initialised/missing"
        if spec_line.startswith("<no further"):
            return "clause=nothing_else_initialised/surplus"
        # the lines are compared position by position after sorting, so one wrong entry shifts the ones behind it:
        # only an exact match of the other two fields names the clause, everything else is `differs`
        if a and b:
            if a[0] != b[0] and a[1:] == b[1:]:
                return "clause=connector_id_is_exchange_id/other-connector"
            if a[2] != b[2] and a[:2] == b[:2]:
                return "clause=kind_preserved/other-kind"
        return "clause=initialised_set/differs"
    if key == "calls":
        return "clause=one_connection_per_exchange_kind_per_batch/calls"
    if key == "res":
        return "clause=unsupported_rejected/res"
    return f"clause={key}"


CLAIM = False
TECHNIQUE = ("Lean 4: the 21 arm bodies of DynamicStreams::init as a total table over ExchangeId x SubKind (connector type, kind type, channel family), decided right entry by entry by "
             "the kernel over all 42 x 6 pairs (`TableOk`: arm iff C13V's pattern, Connector::ID = the pattern's exchange, kind type = the pattern's kind, family = route kind, a "
             "StreamSelector exists; `TableOk` has exactly one inhabitant, the repository's table — tableOk_unique — it only names the four facts about the table the proofs use); "
             "for every batch list, every instrument type with a lawful order and every function satisfying the documentation of "
             "sort_unstable_by_key, refinement of init to a multiset-level specification by induction over the batch list (groups of validated batches are a permutation of the "
             "batch's set; a call initialises exactly its group because of own_id / own_kind); counter-theorems for two wrong tables; correspondence with the REAL init observed "
             "through the repository's own tracing events")
LEVEL_TEXT = ("Sub-check of C13. lean/BarterModel/Props/C13D.lean. TABLE (a HAND COPY of the 21 arm bodies, kernel decide over the whole 42 x 6 table; its tie to dynamic/mod.rs is the "
              "harness, not a proof): arm_bodies_ok, arm_body_iff_arm (= C13V's pattern table hasArm), arm_body_iff_validated, arm_constructs_own_connector (connId body.conn = the "
              "pattern's exchange) and arm_constructs_own_kind — the two facts the correspondence OBSERVES (conn / isub lines) and the specification constrains; arm_has_selector, "
              "arm_bodies_injective, every_connector_dials_own_venue (all 15 connectors; arm_dials_own_venue is its corollary), urls_distinct. NOT on a par with these: "
              "arm_forwards_to_own_family (the txs.<family> a connected stream is forwarded into) is a fact about the hand copy only, READ FROM THE SOURCE and unobserved offline; the "
              "specification does not constrain it either (wrong_chan_satisfies_spec: BinanceSpot trades forwarded into l2s is not TableOk and still satisfies Spec). FOR ALL batches / "
              "admissible sorts / lawful instrument orders, for the repository's table (the theorems are written over a table variable with hypothesis TableOk; tableOk_unique shows that "
              "is one table, so `for every right table` adds nothing): refines_spec and refines_documented_spec (supported => the "
              "initialised (Connector::ID, instrument, kind) triples are a PERMUTATION of the batch-wise sets of subscriptions and no error; unsupported => the validation error names a "
              "rejected subscription of some batch and no call is made), connector_id_is_exchange_id (every triple handed to a subscriber is a subscription of some batch: nothing else "
              "is initialised), kind_and_exchange_preserved_always (a call never mixes kinds or exchanges and is never empty, for every batch list; kind_and_exchange_preserved is the "
              "former version under an unneeded `all valid` hypothesis), each_subscription_once (count = number of batches holding it, "
              "whatever the repetitions and the order), every_subscription_initialised, unsupported_nothing_initialised, calls_are_c13v_connections (the calls are exactly the "
              "connections the C13V model assumes), calls_count (one call per distinct (exchange, kind) of every batch), outcome_ok_iff_no_subscription, only_validation_errors and "
              "arm_lookup_never_defaults (the model's Unsupported / SubscriptionsEmpty paths and the `getD default` of armCall are dead for the right table), "
              "init_refines_spec (the repository's table with MarketDataInstrument). COUNTER-THEOREMS: wrong_connector_is_not_ok, wrong_connector_violates_spec (GateioFuturesUsd in the "
              "GateioFuturesBtc arm: the subscription is initialised under the sibling's id and Spec fails), wrong_kind_violates_spec; wrong_chan_is_not_ok + wrong_chan_satisfies_spec "
              "(the limit of the specification). Bookkeeping (definitional, not results): policy_is_a_constant_of_the_model / every_call_uses_default_policy (the model writes "
              "STREAM_RECONNECTION_POLICY down for any table; that the code passes it is the `ims` line of the correspondence), the projections of arm_bodies_ok.")
LEVEL_NOTE = ("Trusted: Lean kernel (axioms propext/Classical.choice/Quot.sound only); the hand-written table tied by sampled correspondence (the whole 42 x 6 table and all 21 arms on "
              "every run; 1 000 quick / 10 000 thorough random cases); THE OBSERVATION POINT: the repository's three tracing events before the network are taken as the witness of what an "
              "arm body constructed (a harness-local tracing::Subscriber records their fields; derived Debug / Display texts parsed by the harness). NOT observed offline: the "
              "forwarding of a connected stream into txs.<family> (the model's `chan` is read from the source and proved equal to route kind), the select_* accessors (C13V drives "
              "them on a hand-built value), the MarketInstrumentData instantiation (Keyed<InstrumentIndex, _> is driven by op `initk`). ORACLE: the spec mode prints `calls`, `isub` and `res err` only (from the README table and the "
              "batch-wise sets); it is silent on `ims`, `conn`, `req`, `msg` and on `res ok` / `res network` — URL, policy, stream key, connector marker and the order within a call are "
              "CORRESPONDENCE-ONLY (model vs code). ORDER: the oracle's `isub` lines are a multiset in a canonical order of their own (the printed lines sorted, on both sides), so the "
              "oracle no longer depends on how instruments compare — before the sub-check review both sides sorted them by the instrument order, the model numerically and the code by "
              "name, which gave a FALSE oracle alarm on `init 7,1000/1/s,0 7,999/1/s,0`; the order INSIDE a call (`ims` / `conn` lines) is compared with the model, which now orders asset "
              "names as strings like the code (a1000 < a999; C13V asset_name_1000_sorts_before_999; corpus case asset-names-order-as-strings; "
              "mutants/C13V_asset_names_ordered_by_length.patch run against C13D is a correspondence break on the `ims` line, as it should be: the specification is silent on order). Dead paths of the model (runArm's Unsupported / "
              "SubscriptionsEmpty, armCall's `getD default`) are never taken for the right table: arm_lookup_never_defaults, only_validation_errors. Self-test: mutants/C13D_*.patch "
              "(run by tools/selftest.sh).")
