N = {"quick": 400, "thorough": 20000}
EXHAUSTIVE = {"quick": False, "thorough": True}
RULE = "wip"
ASSUMPTIONS = []
SOURCE_FILES = ["barter/src/statistic/metric/drawdown/mod.rs", "barter/src/statistic/metric/drawdown/max.rs",
                "barter/src/statistic/metric/drawdown/mean.rs", "barter/src/statistic/summary/asset.rs",
                "barter/src/statistic/summary/instrument.rs"]
CLAIM = True
TECHNIQUE = "wip"
LEVEL_TEXT = "wip"
LEVEL_NOTE = "wip"
