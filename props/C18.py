N = {"quick": 400, "thorough": 20000}
EXHAUSTIVE = {"quick": False, "thorough": True}
RULE = ("random value curves of 1-40 (thorough 1-60) points over few levels (rising, falling, oscillating, plateaus, exact recoveries to the previous "
        "peak, dips followed by peak / peak+1, random walk; values <= 4 significant digits, scale <= 2; timestamps regular, equal, irregular and "
        "non-monotone; ~6 % curves with non-positive peaks for the model only) driven through one of: a bare DrawdownGenerator (default or init) with "
        "Max/Mean generators, TearSheetAssetGenerator (init + update_from_balance), TearSheetGenerator (update_from_position with the PnL deltas of the "
        "curve); `gen` (generate on a clone) after 0/10/30 % of the points and at the end of 80 % of the cases, `gen!` (mutating generate) occasionally. "
        "Thorough additionally enumerates every curve of length 1-5 over the levels {1,2,3,4} (1364 curves) through the bare generator and the asset "
        "tear sheet. A case is distinct by the SHA-1 of its op lines and non-trivial when the implementation's observation block changes at least once. "
        "Input-domain family d<k> (N/10 further cases, separately seeded): long curves (100-400 points, thorough up to 1 500); asset balances whose `free` differs from `total` "
        "(half, 0, total+1, -total; 4th token of `asset` / `pt`); positions whose time_enter differs from time_exit (4th token of `pos`); extreme-but-exact magnitudes (unit 1e-8 / 1e-6 / "
        "1e9 / 1e10, a 1e-8 or 0 trough under a 1e10 peak); `gen` / `gen!` on an empty history; timestamps before the epoch (negative, also decreasing) and around 1.7e12 ms. "
        "Configuration-shape family s<k> (N/10 further cases, separately seeded; op `sum`): ONE TradingSummaryGenerator initialised (TradingSummaryGenerator::init) from a real EngineState "
        "built by EngineState::builder over 1-4 spot instruments drawn independently over 1-3 exchanges (label order != index order) and their 2-8 assets, with initial balances for none / some / all "
        "assets (the builder feeds the balance at time_engine_start through update_from_balance into a DEFAULT asset sheet; assets without one start from default() and see their first value as a "
        "balance snapshot); every asset / instrument with its own curve (0-12, thorough 0-25 points), updates interleaved across keys and addressed by index (AssetIndex / InstrumentIndex) or by name "
        "(ExchangeAsset / InstrumentNameInternal); generate of the whole summary on a clone / itself with Daily / Annual252 / Annual365; time_engine_start before, at and after the first points; "
        "after every op the block of EVERY key is read back by name (isolation)")
ASSUMPTIONS = [
    "positive running maxima (first value > 0): the spec driver is silent on other curves; the refinement theorems themselves hold for every curve",
    "Decimal arithmetic is exact rational arithmetic: depths ((peak-v)/peak) and mean depths are compared to 1e-18; overflow/rounding of rust_decimal not modelled",
    "mean duration is an i64 millisecond count updated with truncating division: it equals the exact average only up to (n-1)/2 ms (theorem mean_duration_near_average); the spec driver prints that integer incremental average",
    "theorems about TearSheet*Generator::generate concern the first generate after an update history (backtest()/trading_summary_generator clone the generator); generate mutates the mean/max generators, so a repeated call on the same generator counts the in-progress drawdown again (modelled and checked by correspondence, recorded as an `example`, not part of the spec)",
    "`sum` mode: each key of a TradingSummaryGenerator is an independent copy of the single-sheet model / spec (the drivers route an update to its key and print every key); the summary's own "
    "fields (time_engine_now, risk_free_return, the non-drawdown statistics: C16/C17) are not observed; balance snapshots go to the summary generator directly, not through AssetState::update_from_balance "
    "(whose time filter is not part of this property)",
    "the instrument tear sheet's returns data set (PnLReturns.total/losses, C16/C17) is kept numerically trivial by the harness (entry notional 1e27): with unit notional rust_decimal's Decimal::sqrt can panic inside Dispersion::update before the drawdown code runs",
]
SOURCE_FILES = ["barter/src/statistic/metric/drawdown/mod.rs", "barter/src/statistic/metric/drawdown/max.rs",
                "barter/src/statistic/metric/drawdown/mean.rs", "barter/src/statistic/summary/asset.rs",
                "barter/src/statistic/summary/instrument.rs", "barter/src/statistic/summary/pnl.rs",
                "barter/src/statistic/algorithm.rs", "barter/src/lib.rs"]
PREBUILD = [["python3", "tools/rust2lean_sm.py", "--require", "drawdown"]]


def signature(ops, k, key, impl_line, spec_line):
    mode = ops[0].split()[0] if ops else "?"
    op = ops[k].split()[0] if k < len(ops) else "?"
    return f"clause={key} mode={mode} op={op}"


CLAIM = True
TECHNIQUE = ("Lean 4: refinement of the online generators to a declarative peak-to-trough decomposition (takeWhile/dropWhile over running maxima) by "
             "induction over the curve with a canonical-state invariant; first-maximum characterisation for Max; Welford invariant over Q and an "
             "integer error-bound invariant for Mean; correspondence of the model with the real generators and both tear sheets")
LEVEL_TEXT = ("Proof. Lean theorems over the executable model of DrawdownGenerator/MaxDrawdownGenerator/MeanDrawdownGenerator and the tear-sheet feeding "
              "code (lean/BarterModel/Props/C18.lean), for every finite timed curve (no bound on length, no assumption on times, plateaus and exact "
              "recoveries included): the drawdowns returned by update are exactly the completed drawdowns of the peak-to-trough decomposition, in order, "
              "with value = largest relative decline of the segment, start = the running maximum's time, end = time of the exceeding point "
              "(completed_drawdowns, update_returns_newly_completed, completed_segment); generate reports exactly the decline in progress "
              "(current_drawdown, current_segment); under a positive peak the depth is the relative decline at the trough and is non-zero iff some point "
              "is strictly below the peak (depth_is_peak_to_trough); the Max generator holds the first deepest drawdown (max_is_largest_completed, "
              "specMax_is_largest, reported_depth_pos); the Mean generator holds the count, the exact average depth and the integer-ms average duration "
              "(mean_is_average_completed), the latter within (n-1)/2 ms of the exact average (mean_duration_near_average); the first generate of a "
              "tear sheet reports current, and max/mean over completed + current (first_generate_report); TearSheetAssetGenerator::init is the first "
              "point of the curve (asset_init_is_first_point) and TearSheetGenerator feeds the cumulative PnL curve (instrument_feeds_pnl_curve). "
              "All full strength; no _partial theorem. The model is tied to the code by running the same curves through the real generators and both "
              "tear sheets on every run.")
LEVEL_NOTE = ("Trusted: Lean kernel; axioms propext/Classical.choice/Quot.sound only; the hand-written model (tied by sampled correspondence: 400 quick / "
              "20k random + all 1364 curves of length <=5 over 4 levels thorough); harness and driver. Exact rationals instead of rust_decimal (1e-18 "
              "tolerance on division-derived fields). The mean duration is an integer incremental average, not the exact average (bounded deviation "
              "proved). Repeated generate() on the same tear sheet double-counts the in-progress drawdown: outside the property (first generate), "
              "recorded as an example and exercised by correspondence."
              " Additionally tied by translation: the drawdown step functions (DrawdownGenerator::{init, generate, update}, MaxDrawdownGenerator::{update, generate}, "
              "MeanDrawdownGenerator::{update, generate}, Drawdown::duration, welford_online::calculate_mean at Decimal and i64) are regenerated as Lean state-passing "
              "functions from the current source on every run (tools/rust2lean_sm.py) and proved equal to the model's for all states and inputs "
              "(kernels_agree_with_source), so a change of such a function breaks a proof obligation directly; the translator's reading of its Rust subset and "
              "its fixed vocabulary (Decimal as Rat, DateTime/TimeDelta as integer milliseconds, u64 as unbounded Nat) is trusted for that tie.")
