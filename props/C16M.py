N = {"quick": 600, "thorough": 12000}
EXHAUSTIVE = {"quick": False, "thorough": True}
RULE = ("every run starts with the repo's own unit-test vectors (sharpe.rs, sortino.rs, calmar.rs, rate_of_return.rs, time.rs) plus the "
        "sentinel-through-scale and one-losing-position tear sheets; random cases: 45 % metric cases (1-8, thorough 1-14 ops of "
        "`name` / `calc` / `scale` / `cs` = calculate-then-scale over Daily, Annual252, Annual365 and TimeDeltas: unit-test hours, whole seconds up to "
        "1.3 years, whole days, non-whole seconds, sub-second / zero and negative lengths; values: small decimals, 0, MAX, MIN, 1e20..8e27 magnitudes "
        "whose product with the factor overflows; 25 % mean == risk-free; 1/3 zero risk; scale A->B, A->C, B->C triples) and 55 % tear-sheet cases "
        "(`init`, 0-20 (thorough 0-40) `pos` with all-win / all-loss / equal-loss / single-loss-first / mixed / break-even-heavy biases, advancing, equal and "
        "backward exit times, 25 % with non-whole-second times, interleaved and final `gen` over all interval kinds; 4 % end with a position on which "
        "the code panics: zero entry price or zero quantity). The corpus (corpus/C16M/review_B.ops, run first) holds the hand-made inputs of the theorem review: zero-cost exits "
        "(panic, also after a generate), the strictly losing history whose Calmar ratio is Decimal::MAX, the Daily <-> Annual252 round trip, negative zero, negative entry prices, "
        "the half-unit saturation boundary, i64-sized TimeDeltas, a zero-length current interval, backwards time. Thorough additionally enumerates scale over 4 metrics x 10 x 10 intervals x 9 values (3 600 ops) and every "
        "(risk-free, mean, risk) sign / zero combination of calculate and calculate-then-scale (3 x 144 ops). After the random cases a separately seeded input-domain family of tear-sheet cases (`d..`, N/15 cases, four classes cycled; "
        "the random cases are unchanged by it): (0) 80-150 (thorough -300) closed positions with a request every 40, (1) negative entry price / negative size / both (exact notionals), "
        "(2) NEGATIVE start time, exits before / at the start, a whole history at one instant (trading period clamped to 1 s), (3) runs of 2-6 identical closed positions; "
        "corpus/C16M/domain.ops holds one hand-made case for (1)-(3). A case is distinct by the SHA-1 of its "
        "op lines and non-trivial when the implementation's observation block changes at least once")
ASSUMPTIONS = [
    "exact rational arithmetic: rust_decimal rounding is not modelled; every metric value is compared to 1e-18 (absolute or relative); the sentinels Decimal::MAX / Decimal::MIN are compared literally",
    "Decimal::sqrt is a parameter of the model (theorems hold for every function, laws name the property they need); the drivers plug in sqrtApprox (root truncated to 30 places, error bound proved in C17); the panic inside rust_decimal's Decimal::sqrt ('geo mean circuit breaker', F10) is not modelled - scale() calls the library root, no panic was observed on the generated interval ratios",
    "scale_scale, scale_round_trip and sharpe_scaling_is_iid_consistent are laws of the IDEAL square root (and of the identity, i.e. RateOfReturn): they need the law to be multiplicative resp. an exact root at the factors involved, which no rational-valued root satisfies at a non-square factor - in particular not between Daily and Annual252 / Annual365 (kernel-checked counterexamples sqrtApprox_not_multiplicative_D_A252, sqrtApprox_not_exact_root_252, round_trip_deviates_witness). What holds for the root that is computed: scale_scale_value (no assumption on the law) and the round-trip error bound scale_round_trip_error / sqrtApprox_round_trip_error (|v| * 1e-30 * (sqrt(B/A) + sqrt(A/B) + 1e-30) for the drivers' root; a root within eps from below in general)",
    "checked_mul overflow is modelled as |a*b| > Decimal::MAX (the half unit below the rounding boundary is not generated); overflow of checked_div(..).unwrap() in calculate (quotient beyond Decimal::MAX, a panic: `calc sharpe 0 7e27 1e-10 D`) is not modelled and not generated",
    "the plain Decimal operators panic on overflow and the exact model does not: `mean - risk_free` in calculate (`calc sharpe -79228162514264337593543950335 79228162514264337593543950335 1 D`: the code panics 'Subtraction overflowed', the model returns 2*Decimal::MAX - theorem calculate_excess_overflow_witness), `pnl_raw += pnl_realised` (`pos 1000 79228162514264337593543950335 100 1; pos 2000 1 100 1`: 'Addition overflowed'), the Welford accumulators of C17. Range limits of the number type (DESIGN 3 / 13.9: examined boundaries), not generated: PnL and returns are small decimals",
    "DateTime / TimeDelta are integers in milliseconds (chrono's nanoseconds and its i64 range are not modelled)",
    "the spec driver (oracle) states the documented intent on extended values (+-infinity for the zero-risk conventions, exact interval lengths, v*sqrt(B/A) resp. v*(B/A)) and is SILENT where the documentation is: (a) the scaled value of a sentinel (Decimal::MAX / MIN) input, (b) interval lengths that are not whole seconds (the code truncates to whole seconds: deviation bounded by theorem periods_truncation_bounds), (c) a current interval shorter than one second, (d) results outside the Decimal range, (e) max drawdown / Calmar of PnL curves whose first value is not positive (C18's precondition; there the code reports no drawdown at all and, for a losing history scaled to a longer interval, calmar_ratio = Decimal::MAX: theorems never_positive_curve_reports_no_drawdown, sheet_calmar_strictly_losing_is_max, corpus case strictly-losing-calmar-max), (f) `name` / `secs` of a TimeDelta (only the three named intervals are documented). The concrete model mirrors the code on all of these and is compared on every case",
    "a closed position with price_entry_average * quantity_abs_max == 0 makes the code PANIC (calculate_pnl_return is a plain Decimal division). The panic is an explicit outcome of the model (Model/Metrics.lean Exit.panics, Gen.updateChecked, Gen.runChecked; Props sheetChecked / Gen.execChecked = none) and theorems sheet_panics_iff / exec_panics_iff say exactly when it happens; harness and both driver modes print `panic` (the spec mode's `panic` line uses the model's predicate: it is a copy, not an independent oracle). The 'every history' theorems sheet_refines, sheet_win_rate_profit_factor, sheet_*_value, sheet_any_interleaving are statements about the TOTAL model function sheetOf (which continues with pnl / 0 = 0: witness zero_cost_exit_model_continues); what the code reports on the histories on which it does not panic is sheet_checked_refines. A cost whose two factors are non-zero but whose Decimal product rounds to zero (1e-20 * 1e-20) also panics in the code and not in the exact model: not generated. Returns are generated with finite decimal expansions so that `mean == risk_free` in the zero-risk branch is not decided by rounding noise",
    "theorems about TearSheetGenerator::generate concern a generator fed from init: any history and any number of earlier generate calls for the SIX fields that do not read the drawdown generators (PnL, rate of return, Sharpe, Sortino, win rate, profit factor - three of the four metrics: sheet_any_interleaving); the FIRST generate for Calmar's max drawdown and the drawdown report, as in C18 (what later ones report is C16K's interleaved_generate_exact)",
    "TearSheetAssetGenerator::generate computes no risk-adjusted metric (balance_end and drawdowns only: C16 / C18); nothing to add here",
]
SOURCE_FILES = ["barter/src/statistic/metric/sharpe.rs", "barter/src/statistic/metric/sortino.rs", "barter/src/statistic/metric/calmar.rs",
                "barter/src/statistic/metric/rate_of_return.rs", "barter/src/statistic/time.rs", "barter/src/statistic/summary/instrument.rs",
                "barter/src/statistic/summary/pnl.rs", "barter/src/statistic/summary/asset.rs"]
PREBUILD = [["python3", "tools/rust2lean_sm.py", "--require", "metrics"]]


def signature(ops, k, key, impl_line, spec_line):
    """violated clause + discriminating class of the input"""
    op = ops[k].split() if k < len(ops) else ["?"]
    head = op[0]
    if head in ("calc", "scale", "cs"):
        metric = op[1] if len(op) > 1 else "?"
        st = spec_line.split()
        cls = st[1] if len(st) > 1 and st[1] in ("MAX", "MIN") else "finite"
        return f"clause={head}_{key} metric={metric} expected={cls}"
    if head == "gen":
        return f"clause=sheet_{key}"
    return f"clause={head}_{key}"


CLAIM = False
TECHNIQUE = ("Lean 4: case analysis + field arithmetic over exact rationals for calculate/scale (sqrt abstract), refinement of the concrete model to an "
             "extended-value specification, induction over the list of closed positions for the tear-sheet generator (reusing the C17 / C18 refinements); "
             "correspondence of the model with the real metric types and TearSheetGenerator")
LEVEL_TEXT = ("Sub-check of C16. 82 Lean theorems (lean/BarterModel/Props/C16M.lean) over a function-for-function model of SharpeRatio / SortinoRatio / "
              "CalmarRatio / RateOfReturn (calculate, scale), the TimeInterval implementations and the whole TearSheetGenerator (init, update_from_position, "
              "generate; composed from the C17 DataSetSummary model, the C18 drawdown generators and C16's WinRate / ProfitFactor). Decimal::sqrt is abstract: "
              "every scale theorem holds for an arbitrary law (sqrt for the ratios, identity for RateOfReturn) and names the property of the law it needs at the "
              "arguments involved. Full strength, all inputs: sign and monotonicity of calculate in the mean incl. the zero-risk conventions MAX / MIN / 0 "
              "(sortino/calmar/sharpe_sign, *_mono_mean), |drawdown| (calmar_abs_drawdown), dependence on the excess only (calculate_excess_only), ratio_metrics_agree; "
              "scale = multiplication by law(|T|/|S|) when the product fits (scale_value, ror_scale_linear), always within [MIN, MAX] (scale_in_range), same interval = "
              "identity (scale_same_interval), sign / order preservation with the exact proviso (scale_nonneg, scale_nonpos, scale_zero, scale_zero_target, scale_mono, "
              "scale_mono_target), interval facts (named_interval_secs, secs_truncates, periods_daily_annual, periods_mono_target). Two scale calls in a row, for an ARBITRARY "
              "law: A -> B -> C multiplies by law(B/A) * law(C/B) (scale_scale_value); for every law that is a square root within eps from below (RootWithin - Decimal::sqrt and "
              "the drivers' sqrtApprox are of this kind) the round trip A -> B -> A multiplies by a factor in (1 - eps*(law(B/A) + law(A/B) + eps), 1], so it never increases |v| "
              "and deviates by at most |v| * eps * (law(B/A) + law(A/B) + eps) (scale_round_trip_error; for the drivers' root with eps = 1e-30: sqrtApprox_root_within, "
              "sqrtApprox_round_trip_error). Laws of the IDEAL root only - they need the law to be multiplicative resp. an exact root at the factors, true of the identity "
              "(ror_scale_scale, ror_scale_round_trip) and of a rational root at perfect squares only: scale_scale, scale_round_trip, sharpe_scaling_is_iid_consistent; the "
              "kernel-checked counterexamples for the computed root between Daily and Annual252 / Annual365 are sqrtApprox_not_multiplicative_D_A252, "
              "sqrtApprox_not_exact_root_252, round_trip_deviates_witness (0.05 Daily -> Annual252 -> Daily comes back below 0.05, by less than 1e-31). Saturation theorems state "
              "what unwrap_or(Decimal::MAX) does: any overflow, negative included, gives MAX (scale_saturates, scale_negative_overflow_flips_sign); Decimal::MAX survives factors "
              ">= 1 and shrinks to a finite number below 1 (scale_max_preserved, scale_max_lost); Decimal::MIN becomes Decimal::MAX for factors > 1 and MIN*factor otherwise "
              "(scale_min_becomes_max, scale_min_shrinks, very_bad_reported_as_very_good, scale_deviates_from_spec_on_min). Tear sheet: the model's run carries the code's panic as "
              "an explicit outcome (Gen.updateChecked / runChecked, sheetChecked, Gen.execChecked = none; the drivers print `panic` exactly then) and sheet_panics_iff / "
              "exec_panics_iff / cost_zero_iff state when: iff some closed position has price_entry_average * quantity_abs_max = 0. For every history on which the code does NOT "
              "panic (sheet_checked_refines; induction, reusing run_eq_specSummary of C17 and first_generate_report of C18) every return fed to the statistics is a genuine quotient "
              "pnl / cost with cost != 0 and the generated sheet carries calculate-then-scale of the whole-dataset mean, the population std-dev of all / of the negative returns and "
              "the max drawdown of the cumulative PnL curve over max(now-start, 1 s), the C18 drawdown report and C16's win rate / profit factor. The unguarded forms sheet_refines, "
              "sheet_factor, sheet_sharpe_value, sheet_ror_value, sheet_win_rate_profit_factor are theorems about the TOTAL model function sheetOf, which continues with pnl / 0 = 0 "
              "where the code panics: zero_cost_exit_model_continues is the witness at that excluded point (win rate 1, rate of return 0). Earlier generate calls do not influence "
              "the six fields that do not read the drawdown generators - PnL, rate of return, Sharpe, Sortino, win rate, profit factor; not Calmar, not the drawdown report "
              "(sheet_any_interleaving). Counter-theorems at the sheet level: sheet_sortino_very_bad_is_max; a history whose cumulative PnL never rises above zero (e.g. without a "
              "single winning position: no_win_curve_never_positive) has NO drawdown in the sheet and 'max drawdown' 0 however much was lost "
              "(never_positive_curve_reports_no_drawdown), so with mean < risk-free its Calmar ratio is reported as Decimal::MAX for every target interval longer than the trading "
              "period (sheet_calmar_strictly_losing_is_max) and as MIN*factor otherwise (sheet_calmar_strictly_losing_shrinks); witness calmar_strictly_losing_witness = corpus case "
              "strictly-losing-calmar-max (the real code prints calmar MAX, ddmax none); calculate_excess_overflow_witness marks where the Decimal range ends (the code panics, the "
              "exact model does not). Partial (named _partial): refinement of scale to the extended-value spec holds on whole-second intervals, finite fitting values only "
              "(scale_refines_spec_partial, ror_scale_refines_spec_partial; spec_preserves_infinities is the spec side); truncated intervals are bounded (periods_truncation_bounds); on "
              "the sentinels the refinement is false (witness theorems above). Definitional / bookkeeping, not results: sharpe / sortino / calmar / ror_calculate_refines (the "
              "extended-value spec of calculate is the same case distinction as the code, 'sigma = 0 => MAX even for a negative excess return' included: sharpe_zero_std_dev), "
              "scale_is_scaleWith, scale_interval, interval_names, secs_of_whole, delta_secs_whole, scale_factor, scale_factor_zero_current, scale_factor_nonneg, "
              "ror / sharpe_scale_daily_to_annual252, sheetChecked_eq; kernels_agree_with_source is the translator tie.")
LEVEL_NOTE = ("Trusted: Lean kernel; axioms propext/Classical.choice/Quot.sound only; the hand-written model (tied by sampled correspondence on every run); "
              "harness and driver. Exact rationals instead of rust_decimal; Decimal::sqrt abstract in the theorems. "
              "The oracle (spec mode) is independent of the model for calculate / scale / the sheet fields it prints (recomputed from the ops with the extended-value specification) and "
              "silent where ASSUMPTIONS says so (measured by the theorem review, audit/sub/report_B.md: of 1072 generated sheets it constrains calmar on 248, sortino on 482, sharpe on 744); its `panic` line uses the model's predicate Exit.panics "
              "and is therefore correspondence-only. "
              "Additionally tied by translation: calculate and scale of the four metrics and the TimeInterval implementors Daily / Annual252 / Annual365 are regenerated from the current source on every run by tools/rust2lean_sm.py (Generated/Machines2.lean) and proved equal to the model (kernels_agree_with_source; scale only where value x factor does not overflow, Decimal::sqrt an untranslated parameter); the translator and its prelude are trusted for that tie.")
