N = {"quick": 600, "thorough": 12000}
EXHAUSTIVE = {"quick": False, "thorough": True}
RULE = ("every run starts with the repo's own unit-test vectors (sharpe.rs, sortino.rs, calmar.rs, rate_of_return.rs, time.rs) plus the "
        "sentinel-through-scale and one-losing-position tear sheets; random cases: 45 % metric cases (1-8, thorough 1-14 ops of "
        "`name` / `calc` / `scale` / `cs` = calculate-then-scale over Daily, Annual252, Annual365 and TimeDeltas: unit-test hours, whole seconds up to "
        "1.3 years, whole days, non-whole seconds, sub-second / zero and negative lengths; values: small decimals, 0, MAX, MIN, 1e20..8e27 magnitudes "
        "whose product with the factor overflows; 25 % mean == risk-free; 1/3 zero risk; scale A->B, A->C, B->C triples) and 55 % tear-sheet cases "
        "(`init`, 0-20 (thorough 0-40) `pos` with all-win / all-loss / equal-loss / single-loss-first / mixed / break-even-heavy biases, advancing, equal and "
        "backward exit times, 25 % with non-whole-second times, interleaved and final `gen` over all interval kinds; 4 % end with a position on which "
        "the code panics). Thorough additionally enumerates scale over 4 metrics x 10 x 10 intervals x 9 values (3 600 ops) and every "
        "(risk-free, mean, risk) sign / zero combination of calculate and calculate-then-scale (3 x 144 ops). A case is distinct by the SHA-1 of its "
        "op lines and non-trivial when the implementation's observation block changes at least once")
ASSUMPTIONS = [
    "exact rational arithmetic: rust_decimal rounding is not modelled; every metric value is compared to 1e-18 (absolute or relative); the sentinels Decimal::MAX / Decimal::MIN are compared literally",
    "Decimal::sqrt is a parameter of the model (theorems hold for every function, laws name the property they need); the drivers plug in sqrtApprox (root truncated to 30 places, error bound proved in C17); the panic inside rust_decimal's Decimal::sqrt ('geo mean circuit breaker', F10) is not modelled - scale() calls the library root, no panic was observed on the generated interval ratios",
    "checked_mul overflow is modelled as |a*b| > Decimal::MAX (the half unit below the rounding boundary is not generated); overflow of checked_div(..).unwrap() in calculate (quotient beyond Decimal::MAX, a panic) is not modelled and not generated",
    "DateTime / TimeDelta are integers in milliseconds (chrono's nanoseconds and its i64 range are not modelled)",
    "the spec driver (oracle) states the documented intent on extended values (+-infinity for the zero-risk conventions, exact interval lengths, v*sqrt(B/A) resp. v*(B/A)) and is SILENT where the documentation is: (a) the scaled value of a sentinel (Decimal::MAX / MIN) input, (b) interval lengths that are not whole seconds (the code truncates to whole seconds: deviation bounded by theorem periods_truncation_bounds), (c) a current interval shorter than one second, (d) results outside the Decimal range, (e) max drawdown / Calmar of PnL curves whose first value is not positive (C18's precondition). The concrete model mirrors the code on all of these and is compared on every case",
    "every closed position has price_entry_average * quantity_abs_max != 0 (the code panics otherwise; harness and model both report `panic`); returns are generated with finite decimal expansions so that `mean == risk_free` in the zero-risk branch is not decided by rounding noise",
    "theorems about TearSheetGenerator::generate concern a generator fed from init (any history, any number of earlier generate calls for the four metrics that do not read the drawdown generators; the first generate for Calmar's max drawdown, as in C18)",
    "TearSheetAssetGenerator::generate computes no risk-adjusted metric (balance_end and drawdowns only: C16 / C18); nothing to add here",
]
SOURCE_FILES = ["barter/src/statistic/metric/sharpe.rs", "barter/src/statistic/metric/sortino.rs", "barter/src/statistic/metric/calmar.rs",
                "barter/src/statistic/metric/rate_of_return.rs", "barter/src/statistic/time.rs", "barter/src/statistic/summary/instrument.rs",
                "barter/src/statistic/summary/pnl.rs", "barter/src/statistic/summary/asset.rs"]
PREBUILD = [["python3", "tools/rust2lean_sm.py", "--require", "metrics"]]


def signature(ops, k, key, impl_line, spec_line):
    """violated clause + discriminating class of the input"""
    op = ops[k].split() if k < len(ops) else ["?"]
    head = op[0]
    if head in ("calc", "scale", "cs"):
        metric = op[1] if len(op) > 1 else "?"
        st = spec_line.split()
        cls = st[1] if len(st) > 1 and st[1] in ("MAX", "MIN") else "finite"
        return f"clause={head}_{key} metric={metric} expected={cls}"
    if head == "gen":
        return f"clause=sheet_{key}"
    return f"clause={head}_{key}"


CLAIM = False
TECHNIQUE = ("Lean 4: case analysis + field arithmetic over exact rationals for calculate/scale (sqrt abstract), refinement of the concrete model to an "
             "extended-value specification, induction over the list of closed positions for the tear-sheet generator (reusing the C17 / C18 refinements); "
             "correspondence of the model with the real metric types and TearSheetGenerator")
LEVEL_TEXT = ("Sub-check of C16. 62 Lean theorems (lean/BarterModel/Props/C16M.lean) over a function-for-function model of SharpeRatio / SortinoRatio / "
              "CalmarRatio / RateOfReturn (calculate, scale), the TimeInterval implementations and the whole TearSheetGenerator (init, update_from_position, "
              "generate; composed from the C17 DataSetSummary model, the C18 drawdown generators and C16's WinRate / ProfitFactor). Decimal::sqrt is abstract: "
              "every scale theorem holds for an arbitrary law (sqrt for the ratios, identity for RateOfReturn) and names the property of the law it needs at the "
              "arguments involved. Full strength, all inputs: calculate refines the documented quotient with the zero-risk conventions MAX / MIN / 0 "
              "(sharpe/sortino/calmar/ror_calculate_refines), sign and monotonicity in the mean incl. the conventions (sortino/calmar/sharpe_sign, *_mono_mean), "
              "|drawdown| (calmar_abs_drawdown), dependence on the excess only (calculate_excess_only); scale = multiplication by law(|T|/|S|) when the product fits "
              "(scale_value, ror_scale_linear, *_daily_to_annual252), always within [MIN, MAX] (scale_in_range), same interval = identity (scale_same_interval), "
              "scale-then-scale = scale and round trip (scale_scale, scale_round_trip, ror_*), sign / order preservation with the exact proviso (scale_nonneg, "
              "scale_nonpos, scale_mono, scale_mono_target), the IID justification of the root (sharpe_scaling_is_iid_consistent), interval facts "
              "(named_interval_secs, secs_truncates, periods_daily_annual). Saturation theorems state what unwrap_or(Decimal::MAX) does: any overflow, negative included, "
              "gives MAX (scale_saturates, scale_negative_overflow_flips_sign); Decimal::MAX survives factors >= 1 and shrinks to a finite number below 1 "
              "(scale_max_preserved, scale_max_lost); Decimal::MIN becomes Decimal::MAX for factors > 1 (scale_min_becomes_max, very_bad_reported_as_very_good, "
              "scale_deviates_from_spec_on_min, sheet_sortino_very_bad_is_max). Tear sheet, every history (induction, reusing run_eq_specSummary of C17 and "
              "first_generate_report of C18): the generated sheet carries calculate-then-scale of the whole-dataset mean, the population std-dev of all / of the "
              "negative returns and the max drawdown of the cumulative PnL curve over max(now-start, 1 s) (sheet_refines, sheet_factor, sheet_sharpe_value, "
              "sheet_ror_value), C16's win rate / profit factor (sheet_win_rate_profit_factor), independent of interleaved generate calls for the six fields that do "
              "not read the drawdown generators (sheet_any_interleaving). Partial (named _partial): refinement of scale to the extended-value spec holds on "
              "whole-second intervals, finite fitting values only (scale_refines_spec_partial, ror_scale_refines_spec_partial); truncated intervals are bounded "
              "(periods_truncation_bounds); on the sentinels the refinement is false (witness theorems above).")
LEVEL_NOTE = ("Trusted: Lean kernel; axioms propext/Classical.choice/Quot.sound only; the hand-written model (tied by sampled correspondence on every run); "
              "harness and driver. Exact rationals instead of rust_decimal; Decimal::sqrt abstract in the theorems. "
              "Additionally tied by translation: calculate and scale of the four metrics and the TimeInterval implementors Daily / Annual252 / Annual365 are regenerated from the current source on every run by tools/rust2lean_sm.py (Generated/Machines2.lean) and proved equal to the model (kernels_agree_with_source; scale only where value x factor does not overflow, Decimal::sqrt an untranslated parameter); the translator and its prelude are trusted for that tie.")
