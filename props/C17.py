N = {"quick": 400, "thorough": 8000}
EXHAUSTIVE = {"quick": False, "thorough": True}
RULE = ("random datasets of 0-30 (quick) / 0-50 (thorough) decimal values fed one by one to the real DataSetSummary::update; six value mixes "
        "(small +/- halves with many ties; prices around 100; <=6 significant digits times 10^-6..10^3; 1-4 distinct values repeated, incl. all-equal; "
        "tiny next to huge with both signs; tight cluster far from zero with rare outliers); half of the cases with >=2 values replay the same multiset "
        "after `reset` in reversed / ascending / descending / shuffled order. Thorough additionally enumerates every sequence of length <=5 over "
        "{-2, 0, 0.5, 3, 1000000} (3 906 sequences). All 13 observation keys are compared after every update: count, sum, high, low, range, activated and the two "
        "inequality flags literally, mean / M / variance / std_dev / std_dev^2 to 1e-18 (observed worst deviation 1e-23). A case is distinct by the SHA-1 of "
        "its op lines and non-trivial when the implementation's observation block changes at least once. "
        "Input-domain family d<k> (N/10 further cases, separately seeded): long datasets (100-400 values, thorough up to 1 500); zero spelled -0 / -0.0 / 0.000 and equal values of "
        "different scales (1.5, 1.50, 1.500000); extreme-but-exact magnitudes (1e-12..1e-4 both signs; 1e4..1e12 of one sign per dataset; tiny next to huge incl. the marks +-1e-8, 1e-10, "
        "+-1e12, 999999999999.99999999); 12-15 significant digits below 1e11")
ASSUMPTIONS = [
    "exact rational arithmetic: the statement's `within decimal rounding` is proved as exact equality over Q; rust_decimal rounding, 96-bit overflow and scale exhaustion are not modelled (generated values have <=6 significant digits, |x| < 1e9, scale <=6, so +,- are exact and * of 28-digit means cannot overflow; the input-domain family d<k> goes to |x| <= 1e12, scale <= 12 and 15 significant digits below 1e11, still inside exact +,- and below the overflow of the squared deviations)",
    "boundaries of that regime seen while widening the generator (real code, unchanged tree; not generated): two values of magnitude ~1e15 make (x-mean)*(x-mean') exceed 2^96 and DataSetSummary::update panics with `Multiplication overflowed` (e.g. push 1725688884.70136, push -921070049650496); a dataset whose huge values (+-1e12) cancel to a sum of ~1e-5 leaves the 28-digit running mean with an absolute error of ~3e-18 (> the 1e-18 comparison tolerance; e.g. -1e12, 999999999999.99999999, -1e12, -1e-8, 1e12 ...): three values within 1e-8 of each other at magnitude 1e12 (-1e12, -999999999999.99999999 twice) have a spread below the ~1e-16 resolution of the 28-digit running mean, so std_dev (4.7e-9) is off by ~6e-18; all three are decimal rounding / range limits of rust_decimal, so the huge values of one generated dataset all have the same sign and at most one exact huge mark is used per dataset (witnesses with impl / model / spec outputs were kept outside the tree)",
    "Decimal::sqrt is not modelled: the general theorems hold for an arbitrary function sqrtFn in its place; the model driver plugs in sqrtApprox (sqrt truncated to 30 decimals, error bound proved) and the run compares both std_dev and std_dev^2 with the real Decimal::sqrt to 1e-18",
    "the summary starts from DataSetSummary::default() and is changed only by update (a deserialised or hand-built summary is outside the quantifier)",
    "count is a Decimal in the code and never overflows (it is a rational in the model)",
    "the arithmetic kernels welford_online::calculate_mean / calculate_recurrence_relation_m / calculate_population_variance (barter/src/statistic/algorithm.rs) are additionally tied to the source by translation: tools/rust2lean.py regenerates their Lean definitions from the current Rust text before every build (PREBUILD) and theorem kernels_agree_with_source proves them equal to the model's definitions for all arguments; trusted there: the translator's reading of the small Rust subset it accepts (it rejects everything else) and its fixed Decimal prelude (abs, is_zero, checked_div = None exactly on a zero divisor, MAX/MIN)",
]
SOURCE_FILES = ["barter/src/statistic/summary/dataset/mod.rs", "barter/src/statistic/summary/dataset/dispersion.rs", "barter/src/statistic/algorithm.rs"]
PREBUILD = [["python3", "tools/rust2lean.py", "--require", "welford"],
            ["python3", "tools/rust2lean_sm.py", "--require", "dataset"]]


def signature(ops, k, key, impl_line, spec_line):
    # violated clause + class of the dataset seen so far
    vals = []
    for o in ops[:k + 1]:
        t = o.split()
        if t[0] == "reset":
            vals = []
        elif t[0] == "push":
            vals.append(t[1])
    n = len(vals)
    cls = "n=0" if n == 0 else "n=1" if n == 1 else ("all-equal" if len(set(vals)) == 1 else "n>=2")
    reordered = any(o.split()[0] == "reset" for o in ops[:k + 1])
    return f"clause={key} dataset={cls}" + (" reordered" if reordered else "")


CLAIM = True
TECHNIQUE = ("Lean 4: division-free algebraic invariant of Welford's recurrences (mean*n = sum, M = sum of squares - mean*sum, high/low = greatest/least element) "
             "by induction over the update history, refinement to a whole-dataset specification (field-by-field equality of the summary struct), permutation "
             "invariance of the specification; proved integer square root for the std_dev comparison; correspondence of the model with DataSetSummary::update")
LEVEL_TEXT = ("Proof. Lean theorems over the model of DataSetSummary/Dispersion/Range/welford_online (lean/BarterModel/Props/C17.lean), for EVERY finite sequence of "
              "rational values (any length, sign, repetition, magnitude), all full strength, none partial: run_eq_spec / update_eq_spec (after each update the running "
              "summary equals, field by field, the summary computed from the whole sequence at once), with the readable corollaries count_eq (= n), sum_eq (= sum x), "
              "mean_eq (= sum x / n), m_eq (M = sum (x-mean)^2), variance_eq (= sum (x-mean)^2 / n), variance_nonneg (>= 0), std_dev_eq (= sqrt of that variance, for "
              "any function standing for Decimal::sqrt; the code's .abs() is shown to be a no-op), std_dev_is_sqrt (with the executable root the drivers run: "
              "0 <= s, s^2 <= variance < (s+1e-30)^2), range_eq (high/low are the greatest/least element, range = high-low, activated iff non-empty), "
              "mean_in_range (low <= mean <= high), perm_invariant (any two orderings of the same multiset give the identical summary, all fields). "
              "Unbounded in the number of values, which the fixed 5-6 element tables of the test-suite cannot reach. The model is tied to the code by running the "
              "same datasets through the real DataSetSummary::update on every run and comparing every field after every update.")
LEVEL_NOTE = ("Trusted: Lean kernel; axioms propext/Classical.choice/Quot.sound only; the hand-written model (tied by sampled correspondence: 400 quick / 8k random + all 3 906 "
              "sequences of length <=5 over 5 values thorough); harness and driver. Exact arithmetic over Q: `within decimal rounding` is proved as equality, rust_decimal "
              "rounding/overflow and Decimal::sqrt are not modelled (division- and sqrt-derived fields compared to 1e-18; worst observed deviation 1e-23). "
              "Histories start at DataSetSummary::default(). "
              "Additionally tied by translation: the Lean definitions of the kernels welford_online::calculate_mean / calculate_recurrence_relation_m / calculate_population_variance (barter/src/statistic/algorithm.rs) are regenerated from the current source on every run (tools/rust2lean.py) and proved equal to the model's (kernels_agree_with_source), so a change of such a kernel breaks a proof obligation directly; the translator and its Decimal prelude are trusted for that tie. "
              "The whole DataSetSummary / Dispersion / Range state machine (structs, derived Defaults, Range::{init,update,range}, Dispersion::update, DataSetSummary::update) is likewise regenerated by tools/rust2lean_sm.py (Generated/Machines2.lean) and proved equal to the model for all states, values and every sqrt returning Some on non-negative input (state_machine_agrees_with_source; algorithm::sqrt itself stays an untranslated parameter).")
