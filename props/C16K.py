N = {"quick": 400, "thorough": 6000}
EXHAUSTIVE = {"quick": False, "thorough": True}
RULE = ("every run starts with fixed vectors: the witness (100, 90, generate, 110) of theorem interleaved_generate_witness on the direct path (mutating "
        "generate), on the direct path with the request run on a clone, and on the engine path; the stale-snapshot witness of "
        "engine_direct_assets_differ_witness on both paths; full account snapshots applied item by item; an asset whose first total is not positive (0, -5, 10, 5: theorem asset_zero_peak_witness) on both paths; instruments with "
        "interleaved requests on both paths. The corpus (corpus/C16K/review_B.ops, run first) holds the hand-made inputs of the theorem review: unknown instrument / asset index on both "
        "paths and zero-cost exits (panic), zero / negative balances, negative and backward times, duplicate items of one full snapshot, break-even and fee-dominated round trips. "
        "Random cases: 1-3 instruments on two exchanges (3-5 exchange-assets), 50 % engine path (opening + exactly closing fills, 40 % of them with fees, and 20 % position flips - no fee on the flipping fill - through "
        "the real Engine::process with explicit, not necessarily increasing exchange times; single balance snapshots and 25 % full account snapshots of 1-4 items), "
        "50 % direct path (PositionExited records and balance snapshots fed to a long-lived TradingSummaryGenerator); 3-30 (thorough 3-45) events per case, "
        "0/20/50/90 % of them balance snapshots (random walk over few levels per asset: new peaks, dips, exact recoveries; 20 % equal and 20 % STALE timestamps; 8 % of the cases are of the "
        "`zero-peak` class: levels start at 0 / -10 / -30 and may go down to -40, so that curves begin at or below zero), "
        "PnL biases all-win / all-loss / equal-loss / single-loss-first / mixed / break-even-heavy with entry notionals whose reciprocal is a finite decimal, "
        "exit times advancing, equal and going back, 25 % not whole seconds; a summary request before 5/15/30 % of the events (direct path: 70 % mutating "
        "`gen`, 30 % `peek` on a clone) and 1-3 at the end, over Daily / Annual252 / Annual365 / TimeDelta intervals (10 % exotic: non-whole seconds, sub-second, "
        "negative); 5 % of the cases end with an op on which the code panics (zero entry price, zero quantity, unknown instrument / asset index). Thorough "
        "additionally enumerates, on both paths, every sequence of length <= 4 over {four balance levels at the next time, one level at a stale time, a summary "
        "request} for one asset (2 x 1 554 cases) and over {totals 0, -5, 10, 5 at the next time, a summary request} (2 x 780 cases). After the random cases a separately seeded input-domain family (`d..`, N/8 cases, six classes cycled; the random cases are unchanged by it): "
        "(0) engine round trips with SIGNED fees (maker rebates on the opening and / or closing fill; flips with a rebate on the opening fill, the flipping fill stays free of fees), "
        "(1) 60-100 (thorough -150) closed positions on one instrument on either path with a request every 25 events, (2) odd balances on both paths (free > total, free < 0, zero totals, "
        "negative and far exchange times, first snapshot at a negative time, equal / stale ones after), (3) full account snapshots WITHOUT balances and with the same asset two to four times "
        "(equal, rising, falling times inside one snapshot), (4) negative entry price / negative size / both on the direct path, the same record on two instruments, "
        "(5) 0 instruments (requests on an empty summary) or 4-5 instruments. corpus/C16K/domain.ops holds one hand-made case per class. "
        "After the `d..` cases a separately seeded configuration-shape family (`cfg..`, N/8 cases; the other cases are unchanged by it): a starting state that is NOT empty - op `initb` configures INITIAL balances through EngineStateBuilder::balances "
        "for a subset of the assets (levels of the walk, zero and negative ones; 10 % an asset twice: ONE point, the last; 3 % an unknown asset: the builder panics), alternately on the engine and the direct path, a quarter with an immediate request, 30 % with a snapshot from BEFORE the engine start, "
        "then the events of a random case whose balance walk continues from the configured levels; corpus/C16K/cfg_initial_balances.ops holds hand-made cases (initial balance = the peak of a drawdown on both paths, an asset configured twice, unknown asset). "
        "A case is distinct by the SHA-1 of its op lines and non-trivial when the implementation's observation block "
        "changes at least once")
ASSUMPTIONS = [
    "COMPOSITION of existing models, nothing re-modelled: per instrument the full TearSheetGenerator of sub-check C16M (Metrics.Gen: clock, PnLReturns with the C17 DataSetSummary, the C18 drawdown generators, generate with all ten fields), per asset balance_now + the C18 Drawdown.Sheet, on the engine path behind the C09 register guard (Stale.passes false / Stale.upd false); their own assumptions carry over (props/C16.py, C16M.py, C17.py, C18.py, C09.py)",
    "exact rational arithmetic instead of rust_decimal; every value that went through a Decimal division or Decimal::sqrt is compared to 1e-18 (absolute or relative); Decimal::MAX / Decimal::MIN sentinels, times, counts, PnL and balances are compared literally",
    "the 1e-18 tolerance bounds what the generator may produce: rust_decimal holds a variance of 1e-11 to 17 significant digits only, so returns are generated such that two different losing returns differ by at least ~1e-4 (integer or one-decimal PnL on notionals <= 200; no fee on the flipping fill of a `flip`, whose remainder position would otherwise close with a loss of ~1e-5: engine path, two such flips, Sortino off by 1.8e-18 relative - found by the extended search of a mutant run and removed from the generator, not from the model)",
    "Decimal::sqrt is a parameter of the model (every theorem holds for every function); the drivers plug in sqrtApprox (root truncated to 30 places); a panic inside rust_decimal's Decimal::sqrt (F10, reachable through scale()) is not modelled and was not observed on the generated inputs",
    "InstrumentIndex / AssetIndex = position in the engine's FnvIndexMaps = position in the summary's maps (C11; TradingSummaryGenerator::init re-keys the instruments by InstrumentNameInternal, which is unique by documentation); the harness looks tear sheets up by instrument NAME / ExchangeAsset key",
    "an event that names an instrument / asset index the engine was not built with, or closes a position with price_entry_average * quantity_abs_max == 0, makes the code PANIC (instrument_index_mut / asset_index_mut / instrument_mut / asset_mut: 'Panics if .. does not exist'; calculate_pnl_return: Decimal division by zero). The panic is an explicit outcome of the model (Model/KeyedSummary.lean Ev.panics, stepChecked, runChecked, engineSummaryChecked / directSummaryChecked / execChecked = none) and theorems ev_panics_iff / summary_panics_iff / exec_panics_iff say exactly when; harness and both driver modes print `panic` (ONE predicate, Ev.panics, shared by model and spec mode: the `panic` line is correspondence-only). The 'every event history' theorems of sections 1-6 are statements about the TOTAL model functions, which IGNORE an event with an unknown key (modifyAt) and continue with pnl / 0 = 0 (witnesses out_of_range_key_model_ignores, zero_cost_exit_keyed_model_continues); what the code reports on the histories on which it does not panic is summary_checked_full / direct_summary_checked_full",
    "what 'engine path' means: the theorems start at Ev.position i p, an already computed PositionExited of instrument i, and Ev.balance a s. Fills -> Position -> PositionExited and the routing inside Engine::process / EngineState::update_from_account are NOT in the theorems: the drivers' parser turns `rt` / `flip` ops into exits with the C02 position model (rtExits / flipExits, shared by model and spec mode), the real Engine::process is on the harness side. That step is tied by correspondence only (the `closed ..` lines are compared impl-vs-model, the spec does not print them); engine_direct_instruments_agree compares two identical folds of the model and engine_generate_read_only holds by construction of EngState.exec - both are bookkeeping, the evidence that the real engine path clones and routes correctly is the correspondence",
    "asset curves whose first applied total is not positive (a balance that starts at 0, or a negative margin balance) are outside C18's documented domain (Drawdown.PositivePeaks): the oracle is SILENT on the three drawdown fields of such an asset and prints its balance only; the model mirrors the code, is compared on every case (generator class `zero-peak`, thorough enumeration over {0, -5, 10, 5}), and theorems asset_nonpositive_first_total / asset_zero_peak_witness state what both report: a non-positive first total is never the start of a drawdown, the decomposition continues from the first higher point (0, -5, 10, 5 -> a 50 % drawdown in progress since the peak 10). Instrument side likewise (C16M: PnL curves whose first value is not positive; measured by the theorem review (audit/sub/report_B.md): of 3778 generated instrument entries the oracle constrains calmar on 395, sortino on 991, sharpe on 1647 - the rest is model-vs-code only)",
    "drawdown subtraction overflow (`bal 0 0 7.9e28 1; bal 0 10 -7.9e28 1`: the code panics, the exact model continues) is C18's declared number-range boundary; not generated",
    "summary-level clock: on the direct path time_engine_start / time_engine_end are modelled and compared (the harness builds the generator with the real TradingSummaryGenerator::init and both clocks at the engine start); on the engine path Engine::trading_summary_generator reads them from EngineMeta.time_start / HistoricalClock::time(), which depend on the wall clock (C20K): parameters of the model, not compared",
    "initial balances (EngineStateBuilder::balances) are generated (`initb`, family `cfg..`) and modelled as what build() does with them: per configured asset (a HashMap: the last of two entries for one asset) one more snapshot at time_engine_start through the same guarded AssetState::update_from_balance, applied before the engine / the directly updated generator exists, so the direct path's summary clock stays at the engine start (Driver/C16K.lean initEvs / dedupLast); an entry for an exchange-asset the instruments do not contain panics inside build() (`panic` on all three sides). The instrument layout of this sub-check stays the alternating two-exchange one (other layouts: parent C16)",
    "the spec driver (oracle) recomputes every entry from that key's own history: instruments over exactly the key's exited positions (C16M's extended-value specification: silent on sentinel inputs to scale, non-whole-second intervals, results outside the Decimal range, C18 fields of PnL curves whose first value is not positive), assets over the snapshots that are not older than anything delivered before them for that asset (engine path; written without the register: runningMax) resp. over all of them (direct path); after a MUTATING generate on the direct path that happened while an entry had a drawdown in progress the oracle no longer constrains that entry's mean / max drawdown (and Calmar): theorem interleaved_generate_exact says exactly what they are, the concrete model mirrors it and is compared on every case",
    "a long-lived directly updated TradingSummaryGenerator whose generate() is called between updates reports mean / max drawdowns (and Calmar ratios) that double-count every drawdown that was in progress at a request (witness (100, 90, generate, 110): two drawdowns counted, maximum ending at t=10 instead of t=30); the engine path clones and is not affected; recorded as an observation (C18's examined boundary at the keyed level), not as a finding against C16",
]
SOURCE_FILES = ["barter/src/statistic/summary/mod.rs", "barter/src/statistic/summary/instrument.rs", "barter/src/statistic/summary/asset.rs",
                "barter/src/statistic/summary/pnl.rs", "barter/src/engine/state/mod.rs", "barter/src/engine/state/asset/mod.rs",
                "barter/src/engine/state/instrument/mod.rs", "barter/src/engine/state/builder.rs", "barter/src/engine/mod.rs",
                "barter/src/statistic/metric/drawdown/mod.rs", "barter/src/statistic/metric/drawdown/mean.rs", "barter/src/statistic/metric/drawdown/max.rs",
                "barter/src/statistic/metric/sharpe.rs", "barter/src/statistic/metric/sortino.rs", "barter/src/statistic/metric/calmar.rs",
                "barter/src/statistic/metric/rate_of_return.rs", "barter/src/statistic/time.rs"]
# the theorems reuse Props.C16 / C16M / C18 / C09, whose agreement theorems are about the generated definitions: regenerate them first
PREBUILD = [["python3", "tools/rust2lean.py", "--require", "metric"],
            ["python3", "tools/rust2lean_sm.py", "--require", "dataset,pnl_returns,metrics,drawdown,registers"]]


def signature(ops, k, key, impl_line, spec_line):
    """violated clause + discriminating class of the input"""
    mode = ops[0].split()[3] if ops and len(ops[0].split()) > 3 else "?"
    op = ops[k].split()[0] if k < len(ops) else "?"
    if "." in key:
        entry, field = key.split(".", 1)
        kind = "instrument" if entry.startswith("i") else "asset"
        return f"clause={kind}_{field} mode={mode} op={op}"
    return f"clause={key} mode={mode} op={op}"


CLAIM = False
TECHNIQUE = ("Lean 4: composition of the C16M / C17 / C18 / C09 models into the keyed summary; induction over event histories for the keyed maps (generalised over "
             "the start state), refinement of the register-guarded asset generator to the C18 sheet over the non-stale subsequence, an exact characterisation "
             "(by induction over interleavings) of what generate(&mut self) feeds the mean / max generators; kernel-evaluated witnesses; correspondence with the "
             "real Engine::process + trading_summary_generator + generate and with a real long-lived TradingSummaryGenerator")
LEVEL_TEXT = ("Sub-check of C16. 49 Lean theorems (lean/BarterModel/Props/C16K.lean) over the composed model (lean/BarterModel/Model/KeyedSummary.lean), for every n, m, "
              "engine start time, risk-free return, interval, sqrt function and every history of events - an event being an already computed PositionExited of instrument i "
              "(Ev.position) or a balance snapshot of asset a (Ev.balance); the step from fills to PositionExited and the routing in Engine::process are tied by correspondence only. "
              "Results: summary_instrument_full (engine path: exactly n entries, entry i = C16M's full sheet - all ten fields - of exactly instrument i's exited positions in order; "
              "unfolded to the specification of each field in summary_instrument_fields), summary_asset_full (exactly m entries, entry a = balance_end + the C18 drawdown / mean / max "
              "over exactly the NON-STALE subsequence of a's snapshots, defined with the C09 register: asset_register_is_C09; register-free readings non_stale_is_running_max, "
              "non_stale_snoc, non_stale_of_time_ordered, non_stale_last_is_latest), direct_summary_instrument_full / direct_summary_asset_full (direct path: the same instrument "
              "entries, asset entries over ALL snapshots), direct_summary_clock / clock_is_running_max, engine_direct_asset_agree_of_time_ordered, engine_asset_is_direct_on_non_stale, "
              "the difference engine_direct_assets_differ_witness; generate on a long-lived direct generator: direct_after_entries / direct_exec_entries (every generate reaches every "
              "entry), interleaved_generate_exact (the mean / max generators have been fed, in order, the drawdown each point completes and, for each generate, the drawdown then in "
              "progress; the DrawdownGenerator itself is never touched), emitted_without_generate (= C18), generate_at_flat_moments_is_harmless, direct_interleaved_asset_exact, "
              "direct_interleaved_instrument_exact (six fields unaffected, the drawdown fields and Calmar exactly), interleaved_generate_witness (100, 90, generate, 110) and "
              "repeated_generate_witness; projection_commutes_engine / projection_commutes_direct / projSheet_sheetOf (projecting the full summary gives C16's summary of the projected "
              "history: link to Props.C16.engine_summary_instrument / engine_summary_asset). All of these are statements about the TOTAL model functions. Where the code panics "
              "instead: the model's checked runs (Ev.panics, stepChecked / runChecked, engineSummaryChecked, directSummaryChecked, execChecked; the drivers print `panic` exactly when "
              "they return none) with ev_panics_iff, summary_panics_iff, exec_panics_iff - the code panics iff some event names an instrument index >= n or an asset index >= m or "
              "closes a position with zero cost of investment - and, for every history on which it does NOT panic, summary_checked_full / direct_summary_checked_full: every event has "
              "reached exactly the entry of its key (nothing is dropped), entry i is C16M's CHECKED sheet of i's exits, entry a the asset sheet as above; witnesses at the excluded points "
              "out_of_range_key_model_ignores (the total model reports the summary of the empty history where the code panics) and zero_cost_exit_keyed_model_continues. Asset curves "
              "outside C18's domain (first total <= 0): asset_nonpositive_first_total (a non-positive first total never starts a drawdown; the decomposition continues from the first "
              "higher point) and asset_zero_peak_witness (0, -5, 10, 5 on both paths), where the oracle is silent. No `_partial` theorem. Definitional / bookkeeping, not results: "
              "engine_generate_read_only (holds by construction of EngState.exec), engine_direct_instruments_agree (two identical folds), asset_sheet_fields, emitted_unfold, "
              "non_stale_step, foreign_events, frame_instrument / frame_asset / frame_step / direct_frame (corollaries of the *_full theorems), direct_last_summary, "
              "generate_harmless_when_flat, summary_checked_eq.")
LEVEL_NOTE = ("Trusted: Lean kernel; axioms propext/Classical.choice/Quot.sound only; the composed hand-written models (tied by sampled correspondence on every run: all "
              "fields of every entry of the real TradingSummary on both paths, interleaved generate calls included); harness and driver. Exact rationals instead of "
              "rust_decimal; Decimal::sqrt abstract in the theorems. The engine-path summary clock (wall-clock driven) is not compared. The translator ties of C16 / "
              "C16M / C18 / C09 (kernels_agree_with_source, state_machine_agrees_with_source) cover the step functions composed here; TradingSummaryGenerator's own "
              "keyed glue (init / update_from_* / generate in summary/mod.rs), the routing in EngineState::update_from_account, the engine's read-only clone in "
              "trading_summary_generator and the step trade -> PositionExited on the engine path are tied by correspondence only: the `closed ..` lines (impl vs model; the drivers compute the exits "
              "with the C02 position model in their parser, which model and spec mode share) and the `panic` lines (one predicate for both modes) are correspondence-only keys. The oracle "
              "recomputes every other key from the key's own history with the C16M / C18 specification functions and is silent where ASSUMPTIONS says so (C18 fields of curves whose first "
              "value is not positive, entries made dirty by a mutating generate, sentinel inputs to scale).")
