N = {"quick": 300, "thorough": 10000}
EXHAUSTIVE = {"quick": False, "thorough": True}
RULE = ("random engine states built through the real Engine::process (2-3 exchanges with links mostly healthy, some closed/missing; 1-3 instruments per exchange (grouped by exchange, so that instrument label = InstrumentIndex) over "
        "underlyings {a0,a1,a2}x{a3,a4}; per instrument 0-4 orders of classes in-flight / open / partially filled / acknowledged / cancel-in-flight (with and without exchange id), "
        "6% recorded under another exchange; long / short / no position; price known 75%), then 1-4(6) Command::CancelOrders / Command::ClosePositions with filters "
        "none / ex:subset / ins:subset / und:subset (biased to underlyings that exist; incl. unknown exchanges / instruments / underlyings and duplicate entries), 60% issued twice in a row, 35% followed by a cancel response / "
        "snapshot / price / fill / new open, and a final unfiltered close_positions / cancel_orders that exposes every position, price and order. thorough additionally enumerates, over 3 layouts "
        "of 2 exchanges x 2 instruments, (5 order classes x 4 position/price classes)^2 states (full product for the first layout, a quarter slice for the others) x 14 filters "
        "(none, every subset of exchanges / instruments / underlyings incl. ones naming nothing), each with cancel_orders twice, close_positions twice, then unfiltered observation "
        "(8 400 cases). Observed: what every execution receiver got during the tick, the ActionOutput (sent / errors) in the audit, every instrument's order table. "
        "Distinct by SHA-1 of op lines; non-trivial when the observations change at least once. Input-domain family d<k> (N/8 further cases, separately seeded, same case builder): "
        "reversed-pair underlyings (instruments a3/a0 next to a0/a3, filters naming one direction); decimal quantities (1e-8 .. 1e7, fractions) and prices (exact as f64: 2^-10 .. 12345678); "
        "engines with one exchange or 4-5 exchanges; positions closed (`flat`) before the command, a third re-opened on the other side; a tracked order whose client order id equals the "
        "injected close-position id 9000+i; the same command three times in a row; market price 0. "
        "Configuration-shape family c<k> (N/8 further cases, separately seeded, same case builder; C19's own set-up op `cfg K <kinds> V <direct|system>` before `init`, interpreted by c19.rs / Driver/C19.lean): "
        "engines whose instruments are declared as perpetual / perpetual quoted in base and settled in a third asset / future / option contracts (contract sizes 10, 0.001, 100, 5) - all spot, one kind for all, or mixed; "
        "every cancel_orders / close_positions command additionally issued through a real barter::system::System handle (System::cancel_orders / close_positions -> feed_tx), the event arriving on the feed printed (`sysfeed`) "
        "and compared with the command the engine processes (`syseq`); half of these cases with closed / unhealthy / missing (None slot: tracked-but-not-traded exchange) links")
ASSUMPTIONS = [
    "key-uniqueness of each instrument's order table (a FnvHashMap in the code) is a hypothesis of cancel_scope_lookup / cancel_at_most_once / repeat_*; it is proved invariant over all engine histories "
    "from empty tables (keys_unique_invariant, tables_unique_invariant)",
    "repeat_idempotent assumes every generated cancel is addressed to a healthy link (all are sent); without it repeat_requests_nothing_new proves the repeat generates only requests that the first "
    "command generated and failed to deliver",
    "cancel_orders iterates hash maps: the order of the cancel requests is canonicalised (sorted by instrument, client order id) on both sides; theorems are about membership and multiplicity, not order",
    "a tracked order's cancel request carries the order's OWN recorded key.exchange (the instrument's exchange unless a request for that instrument was addressed elsewhere) - as the code does",
    "the close-position client order id generator is injected (9000 + instrument index); ClosePositions uses the repo's default close_open_positions_with_market_orders",
    "positions / prices are not printed by the shared protocol; they are observed through the requests of later unfiltered close_positions commands",
    "channel semantics (send succeeds iff the receiver is alive, FIFO) as in C03",
    "the engine model has no instrument kind: `cfg K` only selects how the REAL engine's instruments are declared (spot / perpetual / future / option, contract size, settlement asset, quote asset); the property's "
    "observables are required to be the same for every kind (a position's close order has the position's quantity, whatever the contract size)",
    "`cfg V system`: the System handle is built around the case's feed channel only (its engine task never runs); the command it puts on the feed is compared with, not substituted for, the event the shared protocol processes",
    "limits of the shared engine line protocol (harness/src/engine_proto.rs, Driver/EngineCommon.lean; not changed here): `ev fill` is only issued on an instrument that holds no position (the model event sets the position, the harness sends one trade), never with quantity 0 (the harness skips it as `noop`); market prices travel as f64 (PublicTrade.price), so generated prices are exact binary fractions; a filter with an EMPTY list (InstrumentFilter::Exchanges(Many(vec![])) etc.) has no syntax and is not generated",
]
SOURCE_FILES = ["barter/src/engine/state/position.rs", "barter/src/engine/action/cancel_orders.rs", "barter/src/engine/action/close_positions.rs", "barter/src/strategy/close_positions.rs",
                "barter/src/engine/state/instrument/mod.rs", "barter/src/engine/state/instrument/filter.rs", "barter-execution/src/order/mod.rs",
                "barter/src/engine/mod.rs", "barter/src/system/mod.rs", "barter/src/engine/state/order/mod.rs", "barter/src/engine/state/mod.rs",
                "barter/src/engine/state/instrument/data.rs"]
PREBUILD = [["python3", "tools/rust2lean_sm.py", "--require", "filters_actions,position_sm"]]
CLAIM = True
TECHNIQUE = ("Lean 4: membership characterisations of the generated request lists (filter / flatMap / filterMap over the indexed instrument list, cid sort proved a permutation), Nodup / strictly-increasing "
             "index arguments for multiplicity, a pointwise lemma for the effect of recording cancels on every table entry, key-uniqueness as an invariant of all engine histories; "
             "correspondence with the real Engine over real channels (shared engine model of C03)")
LEVEL_TEXT = ("Proof. lean/BarterModel/Props/C19.lean proves for EVERY engine state (any number of exchanges, instruments, underlyings, any order tables, positions, prices, link table) and EVERY filter, all at "
              "full strength (no _partial theorem): filter semantics per variant (filter_none / _exchanges / _instruments / _underlyings, filter_ignores_orders_position_price); cancel_scope: a cancel request is "
              "generated iff it is for a tracked order of a selected instrument that is in flight or open, with the order's exchange, the instrument, its cid, and the exchange order id iff open "
              "(cancel_scope_lookup: same via the hash-map lookup; cancel_skips_cancel_in_flight; cancel_at_most_once: no (instrument, cid) addressed twice); close_scope: an open request is generated iff it is "
              "for a selected instrument with a position and a price - instrument's exchange, opposite side, equal quantity, market price, generated cid - and close_one_per_instrument (instrument indices "
              "strictly increasing); commands_send_generated (the command's sent/errors are the healthy/unhealthy part of exactly those lists; ClosePositions sends no cancels, CancelOrders no opens); "
              "outside_untouched_cancel / _close (an unselected instrument keeps its whole state), positions_prices_untouched (no instrument's position, price, exchange, underlying changes), "
              "cancel_command_effect (exactly the orders with a delivered cancel become cancel-in-flight, every other table entry is unchanged); repeat_requests_nothing_new (any links: the repeated command "
              "generates only requests the first generated and could not deliver), repeat_idempotent (all links of generated requests healthy => the repeat generates nothing), repeat_sends_nothing; "
              "keys_unique_invariant / tables_unique_invariant (the key-uniqueness hypothesis holds after any engine history from empty tables). "
              "The position a closing order is built from is the NET of the account trades: close_request_of_net_history (long net => SELL of exactly the signed sum, short net => BUY of its absolute value, zero net => no closing order), net_position_after_fills (after any history of positive fills from flat the carried (side, quantity) is the signed sum "
              "of the fills), fill_update_sets_net, netted_trade_is_recovered, and netting_is_the_position_model / entering_is_the_position_model (the engine-level netFill IS the C02 position model's "
              "Position::update_from_trade projected on side and open quantity, for every position and every trade of positive quantity; netting_is_the_source: the same for update_from_trade as regenerated from position.rs on this run).")
LEVEL_NOTE = ("Trusted: Lean kernel; axioms propext/Classical.choice/Quot.sound; the hand-written engine model shared with C03 (tied to the code by sampled correspondence through the real Engine::process with real "
              "tokio channels: 300 quick / 10k random + 8.4k enumerated thorough); harness and driver. Delivery (sent => delivered once on the addressed link) is C03's. The spec view for the oracle is the "
              "(proved) model restricted to the observables the property determines: deliveries per link, the command's sent/error report, every order table. "
              "InstrumentFilter, InstrumentStates::{filtered, instruments, orders, positions, ..}, Orders::orders, Order::to_request_cancel, close_open_positions_with_market_orders and build_ioc_market_order_to_close_position are "
              "additionally regenerated from the source by tools/rust2lean_sm.py (Generated/Machines4.lean, group filters_actions; IndexMap iterated in insertion order, Either transparent, the FnvHashMap of orders a Bag whose hash order "
              "is never observed) and proved to be the model's Filter.matches / filtered scope / toRequestCancel / closeRequests: the predicate and the per-order / per-position builders for all inputs with no hypothesis, the filtered "
              "scope and the closing requests under the reachable-state invariants the model bakes in (key = position, a position / order names its own instrument, gen_cid = the injected generator), the cancel requests of one "
              "instrument up to permutation (hash order): filters_and_request_generators_agree_with_source. Rejected by the translator by design: cancel_orders itself (hash-ordered requests handed to the ordered send_requests); "
              "not translated: close_positions, Engine::action.")
